#!/bin/bash
# MANIFEST.setup_cmd: build the whole framework from files on disk (offline).
set -e
cd "$(dirname "$0")"
export PYTHONHASHSEED=0 PYTHONPATH=/repo PIP_NO_INDEX=1 PYTHONDONTWRITEBYTECODE=1 PYTHONWARNINGS=ignore
mkdir -p build evidence replays
/venv/bin/python tools/translate.py || true       # a broken generator is reported by the check that needs it
for f in coq/Extract/C*.v; do p=$(basename "$f" .v); mkdir -p "build/ocaml/$p"; done
cd coq
coq_makefile -f _CoqProject -o Makefile >/dev/null
timeout 3000 make -k -j16 2>&1 | tail -5 || true
cd ..
/venv/bin/python - <<'PY'
import sys, glob, os
sys.path.insert(0, "tools")
import framework
for f in sorted(glob.glob("coq/Extract/C*.v")):
    pid = os.path.basename(f)[:-2]
    exe, log = framework.build_driver(pid)
    print(pid, "driver", "ok" if exe else "FAILED " + log[-200:])
PY
