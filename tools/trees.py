"""Abstract trees: direct traversal of minidom / ElementTree results (independent of the tree walkers).

node := ["E", ns, name, [[[ans, aname], value], ...], [kids]] | ["T", s] | ["C", s] | ["D", name, pub, sys]
"""
import re
from xml.dom import Node

from sexp import opt

TAG_RE = re.compile(r"\{([^}]*)\}(.*)")


def dom_node(n):
    t = n.nodeType
    if t == Node.ELEMENT_NODE:
        attrs = []
        for k in list(n.attributes.keys()):
            a = n.getAttributeNode(k)
            if a.namespaceURI:
                attrs.append([[a.namespaceURI, a.localName], a.value])
            else:
                attrs.append([[None, a.name], a.value])
        return ["E", n.namespaceURI, n.nodeName, attrs, [dom_node(c) for c in n.childNodes]]
    if t in (Node.TEXT_NODE, Node.CDATA_SECTION_NODE):
        return ["T", n.nodeValue]
    if t == Node.COMMENT_NODE:
        return ["C", n.nodeValue]
    if t == Node.DOCUMENT_TYPE_NODE:
        return ["D", n.name, n.publicId, n.systemId]
    raise ValueError("unexpected DOM node type %r" % t)


def dom_forest(doc):
    """children of a Document / DocumentFragment"""
    return [dom_node(c) for c in doc.childNodes]


def et_split(tag):
    m = TAG_RE.match(tag)
    return (m.group(1), m.group(2)) if m else (None, tag)


def et_node(e):
    """ElementTree element (html5lib conventions: Comment function tag, <!DOCTYPE> tag)."""
    from xml.etree import ElementTree
    out = []
    if e.tag is ElementTree.Comment:
        node = ["C", e.text]
    elif e.tag == "<!DOCTYPE>":
        node = ["D", e.text, e.get("publicId"), e.get("systemId")]
    else:
        ns, name = et_split(e.tag)
        attrs = []
        for k, v in e.attrib.items():
            ans, an = et_split(k)
            attrs.append([[ans, an], v])
        kids = []
        if e.text:
            kids.append(["T", e.text])
        for c in e:
            kids.extend(et_node_with_tail(c))
        node = ["E", ns, name, attrs, kids]
    return node


def et_node_with_tail(e):
    out = [et_node(e)]
    if e.tail:
        out.append(["T", e.tail])
    return out


def et_forest(root):
    """html5lib's etree document root (DOCUMENT_ROOT) or fragment (DOCUMENT_FRAGMENT)"""
    kids = []
    if root.text:
        kids.append(["T", root.text])
    for c in root:
        kids.extend(et_node_with_tail(c))
    return kids


def coalesce(forest):
    """merge adjacent text nodes, drop empty ones (recursively)"""
    out = []
    for n in forest:
        if n[0] == "T":
            if not n[1]:
                continue
            if out and out[-1][0] == "T":
                out[-1] = ["T", out[-1][1] + n[1]]
            else:
                out.append(["T", n[1]])
        elif n[0] == "E":
            out.append(["E", n[1], n[2], n[3], coalesce(n[4])])
        else:
            out.append(n)
    return out


def strip_cd(forest):
    """remove comments and doctypes (recursively)"""
    out = []
    for n in forest:
        if n[0] == "E":
            out.append(["E", n[1], n[2], n[3], strip_cd(n[4])])
        elif n[0] == "T":
            out.append(n)
    return out


def sort_attrs(forest):
    out = []
    for n in forest:
        if n[0] == "E":
            out.append(["E", n[1], n[2], sorted(n[3], key=lambda kv: (kv[0][0] or "", kv[0][1])), sort_attrs(n[4])])
        else:
            out.append(n)
    return out


def enc_node(n):
    if n[0] == "E":
        return [0, opt(n[1]), n[2], [[[opt(k[0]), k[1]], v] for k, v in n[3]], [enc_node(c) for c in n[4]]]
    if n[0] == "T":
        return [1, n[1]]
    if n[0] == "C":
        return [2, n[1]]
    return [3, opt(n[1]), opt(n[2]), opt(n[3])]


def enc_forest(f):
    return [enc_node(n) for n in f]


def size(forest):
    return sum(1 + (size(n[4]) if n[0] == "E" else 0) for n in forest)


def depth(forest):
    return max([1 + depth(n[4]) if n[0] == "E" else 1 for n in forest] or [0])
