#!/bin/bash
# tools/try_seed.sh <seed-id> <property> <worktree>   -- confirm a seeded change, keep it, run the check against it
set -u
sid=$1; prop=$2; wt=$3
d=/verif/seeded/$sid; mkdir -p $d
cp $wt/patch.diff $d/patch.diff
cp $wt/demo_${prop}.py $d/demo.py 2>/dev/null || cp $wt/demo*.py $d/demo.py
cd $wt && git checkout -q -- html5lib && git apply --check $d/patch.diff || { echo "PATCH DOES NOT APPLY"; exit 2; }
echo "== demo on unchanged tree"; PYTHONPATH=$wt /venv/bin/python $d/demo.py > $d/demo_unchanged.out 2>&1; r0=$?; tail -2 $d/demo_unchanged.out; echo "exit=$r0"
git apply $d/patch.diff
echo "== demo with change"; PYTHONPATH=$wt /venv/bin/python $d/demo.py > $d/demo_changed.out 2>&1; r1=$?; tail -3 $d/demo_changed.out; echo "exit=$r1"
echo "== baseline tests with change"; PYTHONPATH=$wt /venv/bin/python -m pytest -q -p no:cacheprovider --timeout=900 2>&1 | tail -1 | tee $d/tests_changed.out
git checkout -q -- html5lib
cd /verif
git -C /repo apply $d/patch.diff || { echo "PATCH DOES NOT APPLY TO /repo"; exit 2; }
echo "== ./check $prop quick with change applied to /repo"
./check $prop quick > $d/check_quick.out 2>&1; rc=$?
git -C /repo checkout -- .
grep -E "VIOLATION|KNOWN-FINDING|broken|failed|disagree" $d/check_quick.out | cut -c1-300 | head -12
echo "check exit=$rc   (demo unchanged=$r0 changed=$r1)"
