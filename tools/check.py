import importlib
import os
import sys

sys.path.insert(0, os.path.dirname(os.path.abspath(__file__)))
import framework  # noqa: E402


def main(argv):
    if len(argv) < 2:
        print("usage: check Cxx quick|thorough [--replay FILE]")
        return 2
    pid = argv[1].upper()
    tier = argv[2] if len(argv) > 2 and not argv[2].startswith("--") else os.environ.get("VERIF_TIER", "quick")
    replay = argv[argv.index("--replay") + 1] if "--replay" in argv else None
    seed = int(os.environ.get("VERIF_SEED", "20260930"))
    mod = importlib.import_module("props." + pid.lower())
    return framework.run_check(mod.PLUGIN, tier, seed, replay)


if __name__ == "__main__":
    sys.exit(main(sys.argv))
