"""Build real minidom / ElementTree trees (html5lib conventions) from abstract forests, without the parser."""
from xml.dom import minidom
from xml.etree import ElementTree


def dom_from_forest(forest, fragment=False):
    impl = minidom.getDOMImplementation()
    doc = minidom.Document()
    root = doc.createDocumentFragment() if fragment else doc

    def build(n):
        if n[0] == "E":
            el = doc.createElementNS(n[1], n[2]) if n[1] else doc.createElement(n[2])
            for (ans, an), v in n[3]:
                if ans:
                    el.setAttributeNS(ans, "p%d:%s" % (sum(map(ord, ans)) % 997, an), v)
                else:
                    # as AttrList.__setitem__ of the DOM tree builder does when attributes are merged into an existing
                    # element: keeps two attributes without namespace that agree after the first colon (href,
                    # xlink:href), which setAttribute would collapse -- such forests do come out of the parser
                    a = doc.createAttribute(an)
                    a.value = v
                    el.attributes[an] = a
            for c in n[4]:
                el.appendChild(build(c))
            return el
        if n[0] == "T":
            return doc.createTextNode(n[1])
        if n[0] == "C":
            return doc.createComment(n[1])
        return impl.createDocumentType(n[1], n[2], n[3])
    for n in forest:
        root.appendChild(build(n))
    return root


def et_from_forest(forest, fragment=False):
    """forest must be coalesced (no adjacent / empty text nodes)"""
    root = ElementTree.Element("DOCUMENT_FRAGMENT" if fragment else "DOCUMENT_ROOT")

    def tag(ns, name):
        return "{%s}%s" % (ns, name) if ns is not None else name

    def fill(parent, kids):
        last = None
        for n in kids:
            if n[0] == "T":
                if last is None:
                    parent.text = (parent.text or "") + n[1]
                else:
                    last.tail = (last.tail or "") + n[1]
                continue
            if n[0] == "E":
                el = ElementTree.Element(tag(n[1], n[2]))
                for (ans, an), v in n[3]:
                    el.set(tag(ans, an), v)
                fill(el, n[4])
            elif n[0] == "C":
                el = ElementTree.Comment(n[1])
            else:
                el = ElementTree.Element("<!DOCTYPE>")
                el.text = n[1]
                if n[2] is not None:
                    el.set("publicId", n[2])
                if n[3] is not None:
                    el.set("systemId", n[3])
            parent.append(el)
            last = el
    fill(root, forest)
    return root


HTML = "http://www.w3.org/1999/xhtml"
SVG = "http://www.w3.org/2000/svg"
NAMES = ["div", "p", "b", "span", "br", "img", "hr", "event-source", "command", "table", "td", "svg", "title",
         "pre", "x"]
TEXTS = ["a", " ", "  b ", "\n", "x y", " \t", "é ", "\xa0", " \xa0 ", "q ", ""]


def random_forest(rng, depth=3, doc_level=True, allow_empty_text=False):
    def node(d):
        r = rng.random()
        if r < 0.3 or d <= 0:
            t = rng.choice(TEXTS if allow_empty_text else TEXTS[:-1])
            return ["T", t]
        if r < 0.38:
            return ["C", rng.choice(["c", "", " x "])]
        ns = rng.choice([HTML, HTML, HTML, None, SVG])
        name = rng.choice(NAMES)
        attrs = []
        for _ in range(rng.choice([0, 0, 1, 2])):
            k = [rng.choice([None, None, "http://www.w3.org/1999/xlink", "http://www.w3.org/XML/1998/namespace"]),
                 rng.choice(["href", "id", "lang", "class"])]
            if k not in [a[0] for a in attrs]:
                attrs.append([k, rng.choice(["", "v", "a b"])])
        kids = [node(d - 1) for _ in range(rng.choice([0, 0, 1, 2, 3]))]
        return ["E", ns, name, attrs, kids]
    forest = []
    if doc_level == "document":
        # what a DOM Document can hold: doctype?, comments, exactly one element, comments
        if rng.random() < 0.5:
            forest.append(["D", "html", rng.choice([None, "", "-//W3C//DTD HTML 4.01//EN"]), rng.choice([None, "", "s"])])
        if rng.random() < 0.3:
            forest.append(["C", "before"])
        el = node(depth)
        while el[0] != "E":
            el = node(depth)
        forest.append(el)
        if rng.random() < 0.3:
            forest.append(["C", "after"])
        return forest
    if doc_level and rng.random() < 0.4:
        forest.append(["D", "html", rng.choice([None, "", "-//W3C//DTD HTML 4.01//EN"]), rng.choice([None, "", "s"])])
    for _ in range(rng.randint(0 if doc_level else 1, 3)):
        forest.append(node(depth))
    return forest
