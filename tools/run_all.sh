#!/bin/bash
# tools/run_all.sh [tier] -- run every claimed check, print one summary line each (exit 1 if any alarm)
cd "$(dirname "$0")/.."
tier=${1:-quick}
rc=0
for p in $(python3 -c "import json;print(' '.join(c['property_id'] for c in json.load(open('MANIFEST.json'))['checks']))"); do
  start=$(date +%s)
  out=$(timeout 3000 ./check $p $tier 2>&1); r=$?
  echo "$p exit=$r $(( $(date +%s) - start ))s viol=$(echo "$out" | grep -c '^VIOLATION') known=$(echo "$out" | grep -c '^KNOWN-FINDING')"
  [ $r -ne 0 ] && { rc=1; echo "$out" | grep -E "^VIOLATION|class |broken|failed" | head -5 | cut -c1-300; }
done
exit $rc
