"""Check pipeline shared by all properties (DESIGN 1.2):
translate -> build -> audit -> extract/driver -> correspond -> oracle -> decide -> evidence."""
import fcntl
import hashlib
import json
import multiprocessing
import os
import random
import re
import signal
import subprocess
import sys
import time
import traceback

VERIF = os.path.dirname(os.path.dirname(os.path.abspath(__file__)))
REPO = os.environ.get("VERIF_REPO", "/repo")
COQ = os.path.join(VERIF, "coq")
BUILD = os.path.join(VERIF, "build")
NPROC = min(16, os.cpu_count() or 4)

sys.path.insert(0, os.path.join(VERIF, "tools"))
import sexp  # noqa: E402
import translate  # noqa: E402

EXTRACTION_TB = ("Coq extraction with ExtrOcamlBasic only (Extract Inductive bool/option/unit/list/prod/"
                 "sumbool/sumor -> OCaml natives; Extract Inlined Constant andb => (&&), orb => (||)); "
                 "N/positive/nat keep their inductive representation; OCaml 4.13.1; ocaml/driver.ml")


# --------------------------------------------------------------------------- plugin base
class Plugin(object):
    id = None
    gen = []                 # names of coq/Gen files this property depends on
    allowed_axioms = []      # axiom names accepted under Print Assumptions
    level = "proof"
    trusted_base = []
    assumptions = []
    case_timeout = 10        # seconds per implementation case
    n_quick = 1000
    n_thorough = 20000
    model_chunk = 4000       # cases per driver invocation

    # -- to override
    def cases(self, rng, n, tier):
        raise NotImplementedError

    def corpus(self):
        """Committed minimised past failures / directed seeds; run first."""
        return []

    def encode(self, case):
        """Model input (sexp-able) or None when the case is oracle-only."""
        return None

    def impl(self, case):
        """Run the implementation; return the canonical output (sexp-able)."""
        raise NotImplementedError

    def oracle(self, case, out):
        """The property itself evaluated on the implementation's output.
        Returns a list of (class, detail) violations."""
        return []

    def classify(self, cls, case, detail):
        """Map a violation to the id of a known finding (or None)."""
        return None

    def known_witnesses(self):
        """{finding id: case} -- re-run on every check to print KNOWN-FINDING lines."""
        return {}

    def nontrivial_key(self, case, out):
        """A hashable key if the case is non-trivial, else None."""
        return json.dumps(case, sort_keys=True, default=str)

    def describe(self, case):
        return case

    def static_checks(self):
        """Extra static facts (translator level).  Returns list of (class, detail)."""
        return []


# --------------------------------------------------------------------------- utilities
def sh(cmd, timeout, cwd=None, inp=None):
    try:
        p = subprocess.run(cmd, cwd=cwd, input=inp, stdout=subprocess.PIPE, stderr=subprocess.STDOUT,
                           timeout=timeout, universal_newlines=True)
        return p.returncode, p.stdout
    except subprocess.TimeoutExpired as e:
        out = e.stdout or ""
        if isinstance(out, bytes):
            out = out.decode("utf-8", "replace")
        return 124, out + "\nTIMEOUT after %ss" % timeout


class Lock(object):
    def __init__(self, name):
        os.makedirs(BUILD, exist_ok=True)
        self.path = os.path.join(BUILD, name)

    def __enter__(self):
        self.f = open(self.path, "w")
        fcntl.flock(self.f, fcntl.LOCK_EX)

    def __exit__(self, *a):
        fcntl.flock(self.f, fcntl.LOCK_UN)
        self.f.close()


def ensure_makefile():
    mk = os.path.join(COQ, "Makefile")
    cp = os.path.join(COQ, "_CoqProject")
    if not os.path.exists(mk) or os.path.getmtime(mk) < os.path.getmtime(cp):
        rc, out = sh(["coq_makefile", "-f", "_CoqProject", "-o", "Makefile"], 120, cwd=COQ)
        if rc != 0:
            raise RuntimeError("coq_makefile failed: " + out)


def coq_make(targets, timeout=1500):
    """Full .vo build of the given targets (never -vos).  Returns (ok, log)."""
    with Lock("coq.lock"):
        ensure_makefile()
        for pid in set(re.findall(r"Extract/(C\d+)\.vo", " ".join(targets))):
            os.makedirs(os.path.join(BUILD, "ocaml", pid), exist_ok=True)
        rc, out = sh(["make", "-j%d" % NPROC] + targets, timeout, cwd=COQ)
    return rc == 0, out


def parse_coq_error(log):
    m = re.search(r'File "([^"]+)", line (\d+), characters [\d-]+:\s*\n(Error:[^\n]*(?:\n[^\n]+){0,6})', log)
    if m:
        return {"file": m.group(1), "line": int(m.group(2)), "error": m.group(3).strip()[:600]}
    return {"file": None, "line": None, "error": log[-600:]}


def theorem_at(path, line):
    """Name of the Theorem/Lemma enclosing a line of a .v file."""
    try:
        with open(os.path.join(COQ, path) if not os.path.isabs(path) else path) as f:
            lines = f.read().split("\n")
    except OSError:
        return None
    for i in range(min(line, len(lines)) - 1, -1, -1):
        m = re.match(r"\s*(?:Theorem|Lemma|Example|Corollary|Definition|Fixpoint)\s+(\w+)", lines[i])
        if m:
            return m.group(1)
    return None


FORBIDDEN = re.compile(r"\b(Admitted|admit|Axiom|Axioms|Parameter|Parameters|Conjecture|bypass_check|"
                       r"Admit\s+Obligations)\b|Unset\s+Guard|Unset\s+Positivity|Unset\s+Universe|"
                       r"type-in-type|impredicative-set")


def strip_comments(text):
    out, depth, i = [], 0, 0
    while i < len(text):
        if text.startswith("(*", i):
            depth += 1
            i += 2
        elif text.startswith("*)", i) and depth:
            depth -= 1
            i += 2
        else:
            if not depth:
                out.append(text[i])
            elif text[i] == "\n":
                out.append("\n")
            i += 1
    return "".join(out)


def grep_audit():
    bad = []
    for root, _, files in os.walk(COQ):
        for fn in files:
            if fn.endswith(".v") or fn == "_CoqProject":
                p = os.path.join(root, fn)
                with open(p, encoding="utf-8") as f:
                    txt = strip_comments(f.read())
                depth = 0
                for ln, line in enumerate(txt.split("\n"), 1):
                    if re.match(r"\s*Section\b", line):
                        depth += 1
                    if re.match(r"\s*End\b", line) and depth:
                        depth -= 1
                    if FORBIDDEN.search(line):
                        bad.append("%s:%d: %s" % (os.path.relpath(p, COQ), ln, line.strip()[:100]))
                    if depth == 0 and re.match(r"\s*(Variable|Variables|Hypothesis|Hypotheses|Context)\b", line):
                        bad.append("%s:%d: %s (outside a section)" % (os.path.relpath(p, COQ), ln, line.strip()[:100]))
    return bad


def props_theorems(pid):
    with open(os.path.join(COQ, "Props", pid + ".v")) as f:
        txt = strip_comments(f.read())
    return re.findall(r"^\s*(?:Theorem|Example|Corollary)\s+(\w+)", txt, re.M)


def print_assumptions(pid, names, timeout=600):
    """Run Print Assumptions under every property theorem.  Returns {name: [axioms]} or error."""
    d = os.path.join(BUILD, "audit")
    os.makedirs(d, exist_ok=True)
    path = os.path.join(d, "Audit_%s.v" % pid)
    with open(path, "w") as f:
        f.write("From Verif.Props Require Import %s.\n" % pid)
        for n in names:
            f.write('Print Assumptions %s.\n' % n)
    rc, out = sh(["coqc", "-Q", COQ, "Verif", "-w", "-all", path], timeout, cwd=d)
    if rc != 0:
        return None, out
    blocks = re.split(r"^(?=Closed under the global context|Axioms:|Section Variables:)", out, flags=re.M)
    blocks = [b for b in blocks if b.startswith(("Closed", "Axioms", "Section"))]
    res = {}
    if len(blocks) != len(names):
        return None, "could not parse Print Assumptions output:\n" + out
    for n, b in zip(names, blocks):
        if b.startswith("Closed"):
            res[n] = []
        else:
            res[n] = re.findall(r"^([A-Za-z_][\w.']*)\s*:", b, re.M)
    return res, out


def build_driver(pid):
    d = os.path.join(BUILD, "ocaml", pid)
    src = os.path.join(d, "m.ml")
    exe = os.path.join(d, "driver")
    if not os.path.exists(src):
        return None, "no extracted code at " + src
    with Lock("ocaml_%s.lock" % pid):
        drv = os.path.join(VERIF, "ocaml", "driver.ml")
        if os.path.exists(exe) and os.path.getmtime(exe) >= max(os.path.getmtime(src), os.path.getmtime(drv)):
            return exe, ""
        with open(drv) as f, open(os.path.join(d, "driver.ml"), "w") as g:
            g.write(f.read())
        rc, out = sh(["ocamlfind", "ocamlopt", "-w", "-a", "m.mli", "m.ml", "driver.ml", "-o", "driver"],
                     600, cwd=d)
        if rc != 0:
            return None, out
    return exe, ""


def run_driver(exe, lines, timeout=1200):
    env = dict(os.environ)
    p = subprocess.run(["bash", "-c", "ulimit -s unlimited 2>/dev/null; exec %s" % exe],
                       input="\n".join(lines) + "\n", stdout=subprocess.PIPE, stderr=subprocess.PIPE,
                       universal_newlines=True, timeout=timeout, env=env)
    out = p.stdout.split("\n")
    if out and out[-1] == "":
        out.pop()
    if len(out) != len(lines):
        raise RuntimeError("driver returned %d lines for %d inputs (rc=%s, stderr=%s)"
                           % (len(out), len(lines), p.returncode, p.stderr[-300:]))
    return out


# --------------------------------------------------------------------------- worker side
_PLUGIN = None


class CaseTimeout(Exception):
    pass


_CASE = {"deadline": 0.0, "rss0": 0}
_PAGE = os.sysconf("SC_PAGE_SIZE") if hasattr(os, "sysconf") else 4096
RSS_GROWTH_LIMIT = 1 << 30      # a case whose process grows by more than 1 GiB is stopped like one that runs too long


def _rss():
    try:
        with open("/proc/self/statm") as f:
            return int(f.read().split()[1]) * _PAGE
    except (OSError, ValueError, IndexError):
        return 0


def _alarm(signum, frame):
    """fires every second while a case runs: past the deadline, or grown by more than RSS_GROWTH_LIMIT (a loop that
    never ends and keeps allocating), the case is interrupted -- while memory is still there to report it"""
    if time.time() >= _CASE["deadline"]:
        signal.setitimer(signal.ITIMER_REAL, 0)
        raise CaseTimeout()
    if _rss() - _CASE["rss0"] > RSS_GROWTH_LIMIT:
        signal.setitimer(signal.ITIMER_REAL, 0)
        raise CaseTimeout("memory: the call grew the process by more than 1 GiB")


_WORKER = {"timeouts": 0, "pool": False}


def _work(case):
    pl = _PLUGIN
    if _WORKER["pool"] and _WORKER["timeouts"] >= 2:
        # this worker has already waited out the limit twice: the rest of its chunk is not run (run_impl stops the
        # batch when it sees this marker; nothing after it is reported)
        return (None, [("skipped-after-timeouts", "")], None)
    signal.signal(signal.SIGALRM, _alarm)
    _CASE["deadline"] = time.time() + pl.case_timeout
    _CASE["rss0"] = _rss()
    signal.setitimer(signal.ITIMER_REAL, 1.0, 1.0)
    try:
        try:
            out = pl.impl(case)
            err = None
        except CaseTimeout:
            out, err = None, "timeout"
        except MemoryError:
            # nothing that allocates here: the traceback still holds the frames (and the data) of the runaway call
            out, err = None, "MemoryError"
        except RecursionError:
            out, err = None, "harness-exception: RecursionError\n" + traceback.format_exc()[-1500:]
        except Exception as e:  # an exception escaping plugin.impl is a harness problem or an impl crash
            out, err = None, "harness-exception: %s: %s\n%s" % (type(e).__name__, e, traceback.format_exc()[-1500:])
        if err == "MemoryError":
            import gc
            gc.collect()
            err = "MemoryError: the call exhausted the worker's address space (a parse that does not terminate?)"
        viol = []
        if err is None:
            try:
                viol = pl.oracle(case, out) or []
            except CaseTimeout:
                viol = [("oracle-timeout", "")]
            except Exception as e:
                viol = [("oracle-exception", "%s: %s\n%s" % (type(e).__name__, e, traceback.format_exc()[-1200:]))]
        else:
            viol = [("impl-" + err.split(":")[0].split("\n")[0], err)]
        if any(v[0] == "impl-timeout" or "CaseTimeout" in v[0] or "CaseTimeout" in str(v[1])[:200] for v in viol):
            _WORKER["timeouts"] += 1
        try:
            key = pl.nontrivial_key(case, out) if err is None else None
        except Exception:
            key = None
        try:
            enc = sexp.dumps(out) if out is not None else None
        except Exception as e:       # e.g. a negative line/column: not representable, certainly not what the model says
            enc = None
            viol = list(viol) + [("impl-output-not-encodable", "%s: %r" % (type(e).__name__, out))]
        return (enc, viol, key)
    finally:
        signal.setitimer(signal.ITIMER_REAL, 0)


def _limit_memory():
    """worker initializer, last resort behind the per-case growth check of _alarm: an address-space ceiling per worker
    so that a runaway allocation inside one C call cannot take the machine down"""
    import resource
    _WORKER["pool"] = True
    _WORKER["timeouts"] = 0
    lim = 10 << 30
    try:
        resource.setrlimit(resource.RLIMIT_AS, (lim, lim))
    except (ValueError, OSError):
        pass


def _say(msg):
    print("[run_impl] " + msg, flush=True)


def run_impl(plugin, cases):
    global _PLUGIN
    _PLUGIN = plugin
    if len(cases) < 64:
        return [_work(c) for c in cases]
    ctx = multiprocessing.get_context("fork")
    res = []
    timeouts = 0
    with ctx.Pool(NPROC, initializer=_limit_memory) as pool:
        for r in pool.imap(_work, cases, chunksize=max(1, min(200, len(cases) // (NPROC * 4)))):
            if any(v[0] == "skipped-after-timeouts" for v in r[1]):
                _say("a worker ran into the %ds / 1 GiB-growth limit twice; the remaining %d cases of this batch are not run" %
                    (plugin.case_timeout, len(cases) - len(res)))
                pool.terminate()
                break
            res.append(r)
            if any(v[0] == "impl-timeout" or "CaseTimeout" in v[0] or "MemoryError" in v[0] or "MemoryError" in str(v[1])[:300]
                   for v in r[1]):
                timeouts += 1
                if timeouts >= 6:
                    # a non-terminating implementation: six cases that ran into the per-case limit are reported as
                    # they are; waiting out the limit for every further case adds nothing (the caller truncates)
                    _say("6 cases hit the %ds / 1 GiB-growth limit; the remaining %d cases of this batch are not run" %
                        (plugin.case_timeout, len(cases) - len(res)))
                    pool.terminate()
                    break
    return res


# --------------------------------------------------------------------------- known findings
def load_known():
    p = os.path.join(VERIF, "known_findings.json")
    try:
        with open(p) as f:
            return json.load(f)["findings"]
    except OSError:
        return []


def write_replay(pid, rec):
    os.makedirs(os.path.join(VERIF, "replays"), exist_ok=True)
    blob = json.dumps(rec, sort_keys=True, indent=1, default=str)
    h = hashlib.sha1(json.dumps([rec.get("kind"), rec.get("class"), rec.get("case")], sort_keys=True,
                                default=str).encode()).hexdigest()[:12]
    path = os.path.join(VERIF, "replays", "%s-%s.json" % (pid, h))
    with open(path, "w") as f:
        f.write(blob + "\n")
    return path


# --------------------------------------------------------------------------- the pipeline
def run_check(plugin, tier, seed, replay=None):
    t0 = time.time()
    pid = plugin.id
    os.environ.setdefault("PYTHONHASHSEED", "0")
    if sys.path[0] != REPO:
        sys.path.insert(0, REPO)
    log = []

    def say(msg):
        print("[%s %s %5.1fs] %s" % (pid, tier, time.time() - t0, msg), flush=True)
        log.append(msg)

    if replay:
        with open(replay) as f:
            rec = json.load(f)
        case = rec.get("case")
        if case is None:
            print("replay file names a broken obligation, not an input:\n" + json.dumps(rec, indent=1))
            return 1
        out, viol, _ = _work_with(plugin, case)
        print("case:", json.dumps(plugin.describe(case), default=str)[:2000])
        print("observed:", out[:2000] if out else out)
        for cls, detail in viol:
            print("violates:", cls, "--", str(detail)[:2000])
        print("RESULT:", "still violating" if viol else "no violation on the current tree")
        return 1 if viol else 0

    rng = random.Random(seed)
    broken = []        # obligations that no longer check: dicts kind/what/detail
    violations = []    # concrete failing inputs: dicts kind/class/case/detail
    cov = {}

    # 1. translate
    # every Gen file is regenerated from /repo's working tree on every run (2-3 s): the Coq build of one property
    # reaches generated files of others through shared models, and a stale file left by an earlier run against a
    # different tree must never be compiled.  Only this property's own generators are obligations of this check.
    tr_all = translate.run(None)
    tr = {name: tr_all.get(name) for name in plugin.gen}
    for name, err in tr.items():
        if err:
            broken.append({"kind": "TRANSLATOR_BROKEN", "what": "Gen/%s.v" % name, "detail": err})
            say("translator broken for %s: %s" % (name, err))
    pins = translate.check_pins(pid)
    for site, exp, act in pins:
        # the hand model is tied to the source by this hash AND by the correspondence run; with the hash gone the
        # tie is not established: a broken obligation (reported even if the search finds no failing input)
        broken.append({"kind": "PIN_CHANGED", "what": site, "detail": "hash %s -> %s" % (exp, act)})
        say("pinned function changed: %s (%s -> %s): the hand model may be stale; correspondence budget x4"
            % (site, exp, act))
    for cls, detail in plugin.static_checks():
        broken.append({"kind": "STATIC_FACT_BROKEN", "what": cls, "detail": detail})
        say("static fact broken: %s: %s" % (cls, detail))

    # 2. build model + extraction, then the property theorems
    model_ok, mlog = coq_make(["Extract/%s.vo" % pid])
    if not model_ok:
        e = parse_coq_error(mlog)
        broken.append({"kind": "MODEL_BUILD_BROKEN", "what": e["file"], "detail": e})
        say("model/extraction build failed: %s" % json.dumps(e)[:400])
    proofs_ok, plog = coq_make(["Props/%s.vo" % pid])
    names = props_theorems(pid)
    discharged = 0
    if not proofs_ok:
        e = parse_coq_error(plog)
        thm = theorem_at(e["file"], e["line"]) if e["file"] and e["line"] else None
        broken.append({"kind": "PROOF_BROKEN", "what": "%s:%s" % (e["file"], thm), "detail": e})
        say("proof build failed at %s (%s): %s" % (e["file"], thm, e["error"][:300]))
    # 3. audit
    axioms = {}
    if proofs_ok:
        res, out = print_assumptions(pid, names)
        if res is None:
            broken.append({"kind": "AUDIT_BROKEN", "what": "Print Assumptions", "detail": out[-800:]})
        else:
            axioms = res
            for n, ax in res.items():
                extra = [a for a in ax if a not in plugin.allowed_axioms]
                if extra:
                    broken.append({"kind": "AUDIT_BROKEN", "what": n, "detail": "unexpected axioms: %s" % extra})
                else:
                    discharged += 1
        bad = grep_audit()
        if bad:
            broken.append({"kind": "AUDIT_BROKEN", "what": "grep", "detail": bad[:20]})
            discharged = 0
        if tier == "thorough" and os.environ.get("VERIF_SKIP_COQCHK") != "1":
            rc, out = sh(["coqchk", "-silent", "-o", "-Q", COQ, "Verif", "Verif.Props.%s" % pid], 3000, cwd=COQ)
            cov["coqchk"] = "ok" if rc == 0 else "FAILED"
            m = re.search(r"\* Axioms:\s*(.*?)(?:\n\s*\n|\n\* |\Z)", out, re.S)
            cov["coqchk_axioms"] = re.sub(r"\s+", " ", m.group(1)).strip()[:600] if m else out[-300:]
            if rc != 0:
                broken.append({"kind": "AUDIT_BROKEN", "what": "coqchk", "detail": out[-800:]})
    say("theorems: %d stated, %d discharged; axioms: %s" %
        (len(names), discharged, sorted(set(a for v in axioms.values() for a in v)) or "none"))

    # 4. driver
    exe = None
    if model_ok:
        exe, dlog = build_driver(pid)
        _DRIVER_READY[pid] = exe
        if exe is None:
            broken.append({"kind": "MODEL_BUILD_BROKEN", "what": "ocaml driver", "detail": dlog[-800:]})
            say("driver build failed: " + dlog[-300:])

    # 5/6. correspondence + oracle
    n = plugin.n_quick if tier == "quick" else plugin.n_thorough
    if pins:
        n *= 4
    corpus = list(plugin.corpus())
    witnesses = plugin.known_witnesses()
    cases = corpus + list(plugin.cases(rng, n, tier))
    say("running %d cases (%d corpus) on the implementation" % (len(cases), len(corpus)))
    results = run_impl(plugin, cases)
    cases = cases[:len(results)]
    keys = set()
    n_model = n_agree = 0
    disagreements = []
    enc = [plugin.encode(c) for c in cases]
    idx = [i for i, e in enumerate(enc) if e is not None]
    model_out = {}
    if exe is not None and idx:
        try:
            for st in range(0, len(idx), plugin.model_chunk):
                part = idx[st:st + plugin.model_chunk]
                outs = run_driver(exe, [sexp.dumps(enc[i]) for i in part])
                for i, o in zip(part, outs):
                    model_out[i] = o
        except Exception as e:
            broken.append({"kind": "CORR_BROKEN", "what": "driver run", "detail": str(e)[:500]})
            say("driver run failed: %s" % e)
    unmodelled = 0
    for i, (c, (out, viol, key)) in enumerate(zip(cases, results)):
        if key is not None:
            keys.add(key)
        for cls, detail in viol:
            violations.append({"kind": "oracle", "class": cls, "case": c, "detail": detail, "observed": out})
        if i in model_out:
            if model_out[i] == "(4242424242)":   # model says: outside the modelled domain
                unmodelled += 1
                continue
            n_model += 1
            if out is not None and model_out[i] == out:
                n_agree += 1
            else:
                disagreements.append((i, c, out, model_out[i]))
    if disagreements:
        i, c, out, mo = disagreements[0]
        broken.append({"kind": "CORR_BROKEN", "what": "model vs implementation",
                       "detail": {"n_disagree": len(disagreements), "first_case": plugin.describe(c),
                                  "impl": (out or "")[:1500], "model": mo[:1500]}})
        say("correspondence: %d disagreements of %d; first: %s\n   impl : %s\n   model: %s" %
            (len(disagreements), n_model, json.dumps(plugin.describe(c), default=str)[:500],
             (out or "")[:500], mo[:500]))
        for i, c, out, mo in disagreements[:50]:
            # a disagreeing case is a prime candidate for a failing input: the oracle already ran on it
            pass
    say("correspondence: %d/%d agree (%d outside modelled domain); oracle violations: %d" %
        (n_agree, n_model, unmodelled, len(violations)))

    # optional second oracle evaluated in batch through the same driver (e.g. a specification machine)
    if exe is not None and hasattr(plugin, "batch_oracle"):
        def run_model(inputs):
            outs = []
            for st in range(0, len(inputs), plugin.model_chunk):
                outs += run_driver(exe, [sexp.dumps(x) for x in inputs[st:st + plugin.model_chunk]])
            return outs
        try:
            extra_v = plugin.batch_oracle(cases, results, run_model)
            for c, cls, detail, observed in extra_v:
                violations.append({"kind": "oracle", "class": cls, "case": c, "detail": detail, "observed": observed})
            say("batch oracle: %d violation(s)" % len(extra_v))
        except Exception as e:
            broken.append({"kind": "CORR_BROKEN", "what": "batch oracle", "detail": traceback.format_exc()[-800:]})
            say("batch oracle failed: %s" % e)

    # in-Coq cross-check of the extracted code on a sample
    xn = 0
    if exe is not None and model_out and model_ok:
        sample = [i for i in idx if i in model_out and len(model_out[i]) < 4000][:: max(1, len(idx) // 30)][:30]
        xn = len(sample)
        d = os.path.join(BUILD, "xcheck")
        os.makedirs(d, exist_ok=True)
        path = os.path.join(d, "X_%s.v" % pid)
        with open(path, "w") as f:
            f.write("From Coq Require Import NArith List.\nFrom Verif Require Import Sx.\n"
                    "From Verif.Extract Require Import %s.\nImport ListNotations.\nLocal Open Scope N_scope.\n" % pid)
            f.write("Eval vm_compute in (all_eqb (map run [%s]) [%s]).\n" % (
                ";\n ".join(sexp.to_coq(enc_norm(enc[i])) for i in sample),
                ";\n ".join(sexp.to_coq(sexp.loads(model_out[i])) for i in sample if not model_out[i].startswith("!"))))
        rc, out = sh(["coqc", "-Q", COQ, "Verif", "-w", "-all", path], 900, cwd=d)
        if rc != 0 or "= true" not in out:
            broken.append({"kind": "CORR_BROKEN", "what": "extracted code vs vm_compute", "detail": out[-600:]})
            say("extraction cross-check FAILED: " + out[-300:])
        else:
            say("extraction cross-check: %d cases re-evaluated by vm_compute inside Coq, all equal" % xn)

    # 7. decide (+ search when an obligation is broken)
    if broken and not [v for v in violations if plugin.classify(v["class"], v["case"], v["detail"]) is None]:
        budget = plugin.n_thorough if tier == "quick" else plugin.n_thorough * 2
        say("an obligation is broken; searching %d more inputs for a failing one" % budget)
        extra = [c for (_, c, _, _) in disagreements] + list(plugin.cases(random.Random(seed + 1), budget, "search"))
        extra_res = run_impl(plugin, extra)
        extra = extra[:len(extra_res)]
        for c, (out, viol, key) in zip(extra, extra_res):
            for cls, detail in viol:
                violations.append({"kind": "oracle", "class": cls, "case": c, "detail": detail, "observed": out})
        if exe is not None and hasattr(plugin, "batch_oracle"):
            try:
                for c, cls, detail, observed in plugin.batch_oracle(extra, extra_res, run_model):
                    violations.append({"kind": "oracle", "class": cls, "case": c, "detail": detail,
                                       "observed": observed})
            except Exception as e:
                say("batch oracle failed during the search: %s" % e)

    known = {k["id"]: k for k in load_known() if k["property"] == pid and k.get("status") == "known"}
    reported = 0
    seen_classes = {}
    known_hits = {}
    for v in violations:
        fid = plugin.classify(v["class"], v["case"], v["detail"])
        if fid is not None and fid in known:
            known_hits.setdefault(fid, v)
            continue
        seen_classes.setdefault(v["class"], []).append(v)
    # witnesses of listed findings are replayed on every run
    for fid, k in sorted(known.items()):
        w = witnesses.get(fid)
        if w is not None:
            out, viol, _ = _work_with(plugin, w)
            hit = [x for x in viol if plugin.classify(x[0], w, x[1]) == fid]
            other = [x for x in viol if plugin.classify(x[0], w, x[1]) != fid]
            for cls, detail in other:
                seen_classes.setdefault(cls, []).append({"kind": "oracle", "class": cls, "case": w,
                                                         "detail": detail, "observed": out})
            if hit:
                print("KNOWN-FINDING: property=%s %s [%s]" % (pid, k["what"], fid), flush=True)
            else:
                say("listed finding %s no longer reproduces on its witness" % fid)
        elif fid in known_hits:
            print("KNOWN-FINDING: property=%s %s [%s]" % (pid, k["what"], fid), flush=True)
    for cls, vs in sorted(seen_classes.items()):
        v = min(vs, key=lambda x: len(json.dumps(x["case"], default=str)))
        v = dict(v)
        v["case_described"] = plugin.describe(v["case"])
        v["n_cases_in_class"] = len(vs)
        v["property"] = pid
        v["broken_obligations"] = broken
        path = write_replay(pid, v)
        print("VIOLATION property=%s replay=%s" % (pid, path), flush=True)
        say("  class %s: %s" % (cls, str(v["detail"])[:300]))
        reported += 1
    if broken and not reported:
        rec = {"property": pid, "kind": "obligation", "class": broken[0]["kind"], "case": None,
               "broken_obligations": broken,
               "note": "no failing input found by the search; the named theorem/correspondence no longer checks"}
        path = write_replay(pid, rec)
        print("VIOLATION property=%s replay=%s no-failing-input-found" % (pid, path), flush=True)
        reported += 1

    # 8. evidence
    samples = [plugin.describe(c) for c in cases[len(corpus):len(corpus) + 3]]
    cov.update({
        "obligations": len(names),
        "discharged": discharged if proofs_ok else 0,
        "checker_cmd": "cd /verif/coq && make Props/%s.vo (coqc 8.16.1, full .vo build) + Print Assumptions on "
                       "every theorem of Props/%s.v%s" % (pid, pid, " + coqchk -o" if tier == "thorough" else ""),
        "trusted_base": ["Coq 8.16.1 kernel incl. vm_compute (no native_compute)",
                         "axioms reported by Print Assumptions: %s" %
                         (sorted(set(a for v in axioms.values() for a in v)) or "none (closed under the global context)"),
                         "tools/translate.py (generated Gen files: %s)" % (", ".join(plugin.gen) or "none"),
                         EXTRACTION_TB,
                         "correspondence harness tools/framework.py + tools/props/%s.py" % pid.lower()]
                        + list(plugin.trusted_base),
        "theorems": names,
        "evaluations": len(cases),
        "distinct_nontrivial": len(keys),
        "rule": getattr(plugin, "rule", ""),
        "samples": samples or [plugin.describe(c) for c in cases[:3]],
        "programs": n_model,
        "disagreements_checked": len(disagreements),
        "model_vs_impl_agree": n_agree,
        "outside_modelled_domain": unmodelled,
        "vm_compute_crosschecked": xn,
        "pinned_functions_changed": [p[0] for p in pins],
        "broken_obligations": [b["kind"] + ":" + str(b["what"]) for b in broken],
        "known_findings_reproduced": sorted(set(list(known_hits) + [f for f in known if f in witnesses])),
    })
    if cov["discharged"] != cov["obligations"] or cov["obligations"] == 0:
        # not a valid proof-level record: keep the numbers under other names (generic fallback keys remain)
        cov["obligations_stated"] = cov.pop("obligations")
        cov["obligations_discharged"] = cov.pop("discharged")
    if hasattr(plugin, "extra_coverage"):
        try:
            cov.update(plugin.extra_coverage(cases, results))
        except Exception as e:
            cov["extra_coverage_error"] = str(e)
    ev = {"property_id": pid, "tier": tier, "seed": seed, "level": plugin.level, "coverage": cov,
          "assumptions": list(plugin.assumptions), "wall_s": round(time.time() - t0, 2), "violations": reported}
    os.makedirs(os.path.join(VERIF, "evidence"), exist_ok=True)
    with open(os.path.join(VERIF, "evidence", pid + ".json"), "w") as f:
        json.dump(ev, f, indent=1, sort_keys=True, default=str)
        f.write("\n")
    say("done: %d violation(s) reported" % reported)
    return 1 if reported else 0


def enc_norm(x):
    """python case encoding -> nested lists of ints (strings expanded)"""
    return sexp.loads(sexp.dumps(x))


_DRIVER_READY = {}


def _work_with(plugin, case):
    global _PLUGIN
    _PLUGIN = plugin
    res = _work(case)
    if hasattr(plugin, "batch_oracle"):
        exe = _DRIVER_READY.get(plugin.id)
        if exe is None:
            translate.run(None)
            coq_make(["Extract/%s.vo" % plugin.id])
            exe, _ = build_driver(plugin.id)
            _DRIVER_READY[plugin.id] = exe
        if exe is not None:
            extra = plugin.batch_oracle([case], [res], lambda inputs: run_driver(exe, [sexp.dumps(x) for x in inputs]))
            res = (res[0], list(res[1]) + [(cls, detail) for (_, cls, detail, _) in extra], res[2])
    return res
