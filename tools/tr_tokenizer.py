"""Translator: the regular state methods of html5lib/_tokenizer.py  ->  Gallina step functions.

Every state method that is a plain statement list / if-elif cascade over the closed vocabulary below is
translated; anything outside the vocabulary raises TranslatorError (fail closed).  The irregular methods
(HAND) are hand-modelled in coq/Model/TokHand.v and pinned by hash.
"""
import ast

HAND_STATES = {"attributeNameState", "bogusCommentState", "markupDeclarationOpenState",
               "afterDoctypeNameState", "cdataSectionState"}
HAND_HELPERS = {"__init__", "__iter__", "consumeNumberEntity", "consumeEntity", "processEntityInAttribute",
                "emitCurrentToken"}
SPEC_ONLY_STATES = ["cdataSectionBracketState", "cdataSectionEndState"]


class TErr(Exception):
    pass


def cstr(s):
    return "[" + "; ".join(str(ord(c)) for c in s) + "]"


def is_self_attr(node, name=None):
    return (isinstance(node, ast.Attribute) and isinstance(node.value, ast.Name) and node.value.id == "self"
            and (name is None or node.attr == name))


def is_stream_call(node, meth):
    return (isinstance(node, ast.Call) and isinstance(node.func, ast.Attribute) and node.func.attr == meth
            and is_self_attr(node.func.value, "stream"))


def is_cur_item(node, key=None):
    """self.currentToken["key"]"""
    return (isinstance(node, ast.Subscript) and is_self_attr(node.value, "currentToken")
            and isinstance(node.slice, ast.Constant) and (key is None or node.slice.value == key))


class StateTranslator(object):
    def __init__(self, states, consts):
        self.states = states          # all state method names
        self.consts = consts          # html5lib.constants module

    # ---------- character sets ----------
    def charset(self, node):
        """a Python expression denoting a set of characters -> Gallina predicate N -> bool"""
        if isinstance(node, ast.Name):
            if node.id == "spaceCharacters":
                if set(self.consts.spaceCharacters) != set("\t\n\x0c \r"):
                    raise TErr("spaceCharacters changed")
                return "is_space"
            if node.id == "asciiLetters":
                import string
                if set(self.consts.asciiLetters) != set(string.ascii_letters):
                    raise TErr("asciiLetters changed")
                return "is_alpha"
            raise TErr("unknown character set name %s" % node.id)
        if isinstance(node, ast.Constant) and isinstance(node.value, str) and node.value:
            return self.pred_of_chars(list(node.value))
        if isinstance(node, (ast.Tuple, ast.List)):
            chars = []
            for e in node.elts:
                if not (isinstance(e, ast.Constant) and isinstance(e.value, str) and len(e.value) == 1):
                    raise TErr("set element is not a one-character literal: " + ast.dump(e))
                chars.append(e.value)
            return self.pred_of_chars(chars)
        if isinstance(node, ast.Call) and isinstance(node.func, ast.Name) and node.func.id == "frozenset" \
                and len(node.args) == 1 and not node.keywords:
            return self.charset(node.args[0])
        if isinstance(node, ast.BinOp) and isinstance(node.op, ast.BitOr):
            return "(fun c => %s c || %s c)" % (self.charset(node.left), self.charset(node.right))
        raise TErr("unsupported character set: " + ast.dump(node))

    @staticmethod
    def pred_of_chars(chars):
        return "(fun c => %s)" % " || ".join("(c =? %d)" % ord(ch) for ch in chars)

    # ---------- conditions on `data` ----------
    def cond(self, node):
        """returns (gallina bool expr, implies_not_eof, is_eof_test)"""
        if isinstance(node, ast.BoolOp) and isinstance(node.op, ast.And) and len(node.values) == 2 \
                and isinstance(node.values[1], ast.Name) and node.values[1].id == "appropriate":
            g, ne, _ = self.cond(node.values[0])
            return "(%s && appropriate)" % g, ne, False
        if isinstance(node, ast.Compare) and len(node.ops) == 1 and isinstance(node.left, ast.Name) \
                and node.left.id == "data":
            op, rhs = node.ops[0], node.comparators[0]
            if isinstance(op, (ast.Eq, ast.Is)) and isinstance(rhs, ast.Name) and rhs.id == "EOF":
                return "is_eof data", False, True
            if isinstance(op, ast.Eq) and isinstance(rhs, ast.Constant) and isinstance(rhs.value, str) \
                    and len(rhs.value) == 1:
                return "deq data %d" % ord(rhs.value), True, False
            if isinstance(op, ast.In):
                return "din %s data" % self.charset(rhs), True, False
        raise TErr("unsupported condition: " + ast.unparse(node))

    # ---------- string expressions ----------
    def sexpr(self, node, env, pre):
        """string-valued expression -> Gallina str; `pre` collects let-bindings (charsUntil has an effect)"""
        if isinstance(node, ast.Constant) and isinstance(node.value, str):
            return cstr(node.value)
        if isinstance(node, ast.Name):
            if node.id == "data":
                if not env["not_eof"]:
                    raise TErr("`data` used as a string where it may be EOF (line %d)" % node.lineno)
                return "(dstr data)"
            if node.id == "chars" and env.get("chars"):
                return "chars"
            raise TErr("unknown name in string expression: " + node.id)
        if isinstance(node, ast.BinOp) and isinstance(node.op, ast.Add):
            left = self.sexpr(node.left, env, pre)
            right = self.sexpr(node.right, env, pre)
            return "(%s ++ %s)" % (left, right)
        if is_self_attr(node, "temporaryBuffer"):
            return "(tmp k)"
        if is_stream_call(node, "charsUntil"):
            v = "cu%d" % len(pre)
            pre.append("let '(%s, k) := %s in" % (v, self.chars_until(node)))
            return v
        raise TErr("unsupported string expression: " + ast.unparse(node))

    def chars_until(self, call):
        if call.keywords or not (1 <= len(call.args) <= 2):
            raise TErr("charsUntil arguments")
        opposite = False
        if len(call.args) == 2:
            a = call.args[1]
            if not (isinstance(a, ast.Constant) and isinstance(a.value, bool)):
                raise TErr("charsUntil opposite flag")
            opposite = a.value
        return "%s %s k" % ("chars_while" if opposite else "chars_until", self.charset(call.args[0]))

    # ---------- dict literals ----------
    def dict_fields(self, node):
        if not isinstance(node, ast.Dict):
            raise TErr("expected a dict literal: " + ast.unparse(node))
        d = {}
        for k, v in zip(node.keys, node.values):
            if not (isinstance(k, ast.Constant) and isinstance(k.value, str)):
                raise TErr("dict key")
            d[k.value] = v
        t = d.pop("type", None)
        if not (isinstance(t, ast.Subscript) and isinstance(t.value, ast.Name) and t.value.id == "tokenTypes"
                and isinstance(t.slice, ast.Constant)):
            raise TErr("token type: " + ast.unparse(node))
        return t.slice.value, d

    @staticmethod
    def const_is(node, value):
        if value == []:
            return isinstance(node, ast.List) and not node.elts
        return isinstance(node, ast.Constant) and node.value is value or \
            (isinstance(node, ast.Constant) and value == "" and node.value == "")

    def new_token(self, node, env, pre):
        ty, d = self.dict_fields(node)
        if ty in ("StartTag", "EndTag"):
            want = {"name", "data", "selfClosing"} | ({"selfClosingAcknowledged"} if ty == "StartTag" else set())
            if set(d) != want or not self.const_is(d["data"], []) or not self.const_is(d["selfClosing"], False):
                raise TErr("tag token literal: " + ast.unparse(node))
            if ty == "StartTag" and not self.const_is(d["selfClosingAcknowledged"], False):
                raise TErr("selfClosingAcknowledged")
            return "CTag %s %s [] false" % ("true" if ty == "EndTag" else "false", self.sexpr(d["name"], env, pre))
        if ty == "Comment":
            if set(d) != {"data"}:
                raise TErr("comment literal")
            return "CComment %s" % self.sexpr(d["data"], env, pre)
        if ty == "Doctype":
            if set(d) != {"name", "publicId", "systemId", "correct"} or not self.const_is(d["publicId"], None) \
                    or not self.const_is(d["systemId"], None) or not self.const_is(d["correct"], True):
                raise TErr("doctype literal")
            return "CDoctype %s None None true" % self.sexpr(d["name"], env, pre)
        raise TErr("currentToken of type " + ty)

    def queued_token(self, node, env, pre):
        if is_self_attr(node, "currentToken"):
            return None
        ty, d = self.dict_fields(node)
        if ty == "ParseError":
            if not set(d) <= {"data", "datavars"} or not (isinstance(d.get("data"), ast.Constant)
                                                           and isinstance(d["data"].value, str)):
                raise TErr("ParseError literal: " + ast.unparse(node))
            return "OErr %s" % cstr(d["data"].value)
        if ty in ("Characters", "SpaceCharacters"):
            if set(d) != {"data"}:
                raise TErr("character token literal")
            return "%s %s" % ("OChars" if ty == "Characters" else "OSpace", self.sexpr(d["data"], env, pre))
        raise TErr("queued token of type " + ty)

    # ---------- statements ----------
    def state_ref(self, node):
        if not (is_self_attr(node) and node.attr in self.states):
            raise TErr("not a state: " + ast.unparse(node))
        return node.attr

    def stmt(self, s, env):
        """returns list of Gallina lines of the form `let k := ... in` (effects on k)"""
        pre = []
        # self.state = self.X
        if isinstance(s, ast.Assign) and len(s.targets) == 1:
            tgt, val = s.targets[0], s.value
            if is_self_attr(tgt, "state"):
                return ["let k := set_st %s k in" % self.state_ref(val)]
            if is_self_attr(tgt, "temporaryBuffer"):
                e = self.sexpr(val, env, pre)
                return pre + ["let k := set_tmp %s k in" % e]
            if is_self_attr(tgt, "currentToken"):
                e = self.new_token(val, env, pre)
                return pre + ["let k := set_cur (%s) k in" % e]
            if isinstance(tgt, ast.Name) and tgt.id == "chars" and is_stream_call(val, "charsUntil"):
                env["chars"] = True
                return ["let '(chars, k) := %s in" % self.chars_until(val)]
            if is_cur_item(tgt):
                key = tgt.slice.value
                if key == "name":
                    # name = name.translate(asciiUpper2Lower)  |  name = <string>
                    if (isinstance(val, ast.Call) and isinstance(val.func, ast.Attribute)
                            and val.func.attr == "translate" and is_cur_item(val.func.value, "name")
                            and len(val.args) == 1 and isinstance(val.args[0], ast.Name)
                            and val.args[0].id == "asciiUpper2Lower"):
                        return ["let k := name_lower k in"]
                    e = self.sexpr(val, env, pre)
                    return pre + ["let k := name_set %s k in" % e]
                if key == "correct" and self.const_is(val, False):
                    return ["let k := set_incorrect k in"]
                if key == "selfClosing" and self.const_is(val, True):
                    return ["let k := set_self_closing k in"]
                if key in ("publicId", "systemId"):
                    e = self.sexpr(val, env, pre)
                    return pre + ["let k := %s %s k in" % ("pub_set" if key == "publicId" else "sys_set", e)]
            raise TErr("unsupported assignment: " + ast.unparse(s))
        if isinstance(s, ast.AugAssign) and isinstance(s.op, ast.Add):
            tgt = s.target
            if is_self_attr(tgt, "temporaryBuffer"):
                e = self.sexpr(s.value, env, pre)
                return pre + ["let k := set_tmp (tmp k ++ %s) k in" % e]
            if is_cur_item(tgt):
                key = tgt.slice.value
                fn = {"name": "name_app", "data": "data_app", "publicId": "pub_app", "systemId": "sys_app"}.get(key)
                if fn:
                    e = self.sexpr(s.value, env, pre)
                    return pre + ["let k := %s %s k in" % (fn, e)]
            # self.currentToken["data"][-1][i] += ...
            if (isinstance(tgt, ast.Subscript) and isinstance(tgt.slice, ast.Constant) and tgt.slice.value in (0, 1)
                    and isinstance(tgt.value, ast.Subscript) and is_cur_item(tgt.value.value, "data")
                    and isinstance(tgt.value.slice, ast.UnaryOp) and isinstance(tgt.value.slice.op, ast.USub)
                    and isinstance(tgt.value.slice.operand, ast.Constant) and tgt.value.slice.operand.value == 1):
                e = self.sexpr(s.value, env, pre)
                return pre + ["let k := %s %s k in" % ("attr_name_app" if tgt.slice.value == 0 else "attr_val_app", e)]
            raise TErr("unsupported augmented assignment: " + ast.unparse(s))
        if isinstance(s, ast.Expr) and isinstance(s.value, ast.Call):
            c = s.value
            f = c.func
            # self.tokenQueue.append(X)
            if isinstance(f, ast.Attribute) and f.attr == "append" and is_self_attr(f.value, "tokenQueue") \
                    and len(c.args) == 1 and not c.keywords:
                q = self.queued_token(c.args[0], env, pre)
                if q is None:
                    return ["let k := emit_cur k in"]
                return pre + ["let k := emit (%s) k in" % q]
            # self.currentToken["data"].append([data, ""])
            if isinstance(f, ast.Attribute) and f.attr == "append" and is_cur_item(f.value, "data") \
                    and len(c.args) == 1 and isinstance(c.args[0], ast.List) and len(c.args[0].elts) == 2 \
                    and self.const_is(c.args[0].elts[1], ""):
                e = self.sexpr(c.args[0].elts[0], env, pre)
                return pre + ["let k := attr_new %s k in" % e]
            if is_stream_call(c, "unget") and len(c.args) == 1 and isinstance(c.args[0], ast.Name) \
                    and c.args[0].id == "data":
                return ["let k := unget data k in"]
            if is_stream_call(c, "charsUntil"):
                return ["let '(_, k) := %s in" % self.chars_until(c)]
            if is_self_attr(f, "emitCurrentToken") and not c.args:
                return ["let k := emit_current_token k in"]
            if is_self_attr(f, "consumeEntity") and not c.args and not c.keywords:
                return ["let k := consume_entity_data k in"]
            if is_self_attr(f, "processEntityInAttribute") and len(c.args) == 1 \
                    and isinstance(c.args[0], ast.Constant) and isinstance(c.args[0].value, str) \
                    and len(c.args[0].value) == 1:
                return ["let k := process_entity_in_attribute %d k in" % ord(c.args[0].value)]
            raise TErr("unsupported call: " + ast.unparse(s))
        if isinstance(s, ast.Pass):
            return []
        raise TErr("unsupported statement: " + ast.unparse(s))

    def block(self, stmts, env, ind):
        """statement list ending (implicitly) in the enclosing continuation -> Gallina expr of type tk * bool.
        The continuation of every block in a state method is `return True`, checked by the caller."""
        pad = "  " * ind
        lines = []
        for i, s in enumerate(stmts):
            if isinstance(s, ast.Return):
                if not (isinstance(s.value, ast.Constant) and isinstance(s.value.value, bool)):
                    raise TErr("return value")
                lines.append(pad + "(k, %s)" % ("true" if s.value.value else "false"))
                return "\n".join(lines)
            if isinstance(s, ast.Assign) and len(s.targets) == 1 and isinstance(s.targets[0], ast.Name) \
                    and s.targets[0].id == "data" and is_stream_call(s.value, "char") and not s.value.args:
                if env.get("has_data"):
                    raise TErr("data read twice")
                env["has_data"] = True
                lines.append(pad + "let data := peek k in")
                lines.append(pad + "let k := advance k in")
                continue
            if isinstance(s, ast.Assign) and len(s.targets) == 1 and isinstance(s.targets[0], ast.Name) \
                    and s.targets[0].id == "appropriate":
                want = ("self.currentToken and self.currentToken['name'].translate(asciiUpper2Lower) == "
                        "self.temporaryBuffer.lower()")
                if ast.unparse(s.value) != want:
                    raise TErr("appropriate-end-tag test changed: " + ast.unparse(s.value))
                lines.append(pad + "let k := if appropriate_bad k then set_bad k else k in")
                lines.append(pad + "let appropriate := is_appropriate k in")
                continue
            if isinstance(s, ast.If):
                rest = stmts[i + 1:]
                lines.append(self.cascade(s, rest, env, ind))
                return "\n".join(lines)
            for ln in self.stmt(s, env):
                lines.append(pad + ln)
        # fell off the end of a block: the continuation
        raise TErr("block without return")

    def cascade(self, node, rest, env, ind):
        """if/elif/else; `rest` (the statements after the if) is appended to every branch"""
        pad = "  " * ind
        test = node.test
        # nested test on the temporary buffer
        if (isinstance(test, ast.Compare) and len(test.ops) == 1 and isinstance(test.ops[0], ast.Eq)
                and ast.unparse(test.left) == "self.temporaryBuffer.lower()"
                and isinstance(test.comparators[0], ast.Constant) and isinstance(test.comparators[0].value, str)):
            g, ne, eoft = "tmp_is k %s" % cstr(test.comparators[0].value), False, False
        else:
            if not env.get("has_data"):
                raise TErr("condition before data is read")
            g, ne, eoft = self.cond(test)
        env_then = dict(env)
        if ne:
            env_then["not_eof"] = True
        env_else = dict(env)
        if eoft:
            env_else["not_eof"] = True
        out = [pad + "if %s then (" % g, self.block(list(node.body) + list(rest), env_then, ind + 1), pad + ") else ("]
        if len(node.orelse) == 1 and isinstance(node.orelse[0], ast.If):
            out.append(self.cascade(node.orelse[0], rest, env_else, ind + 1))
        else:
            out.append(self.block(list(node.orelse) + list(rest), env_else, ind + 1))
        out.append(pad + ")")
        return "\n".join(out)

    def method(self, fn):
        if fn.args.args and [a.arg for a in fn.args.args] != ["self"] or fn.args.vararg or fn.args.kwarg:
            raise TErr("state method with arguments: " + fn.name)
        body = list(fn.body)
        if body and isinstance(body[0], ast.Expr) and isinstance(body[0].value, ast.Constant):
            body = body[1:]
        env = {"not_eof": False}
        expr = self.block(body, env, 1)
        return "Definition step_%s (k : tk) : tk * bool :=\n%s.\n" % (fn.name, expr)


HEADER = """(* GENERATED by tools/tr_tokenizer.py from html5lib/_tokenizer.py -- do not edit. *)
From Coq Require Import NArith List Bool.
From Verif Require Import Sx Str.
From Verif.Model Require Import CharRef TokBase TokHand.
Import ListNotations.
Local Open Scope N_scope.

"""


def generate(parse_file, find_def, import_repo):
    tree = parse_file("html5lib/_tokenizer.py")
    cls = find_def(tree, "HTMLTokenizer")
    consts = import_repo("html5lib.constants")
    methods = [f for f in cls.body if isinstance(f, ast.FunctionDef)]
    extra = [n for n in cls.body if not isinstance(n, ast.FunctionDef)
             and not (isinstance(n, ast.Expr) and isinstance(n.value, ast.Constant))]
    if extra:
        raise TErr("unexpected class-level statement in HTMLTokenizer")
    names = [f.name for f in methods]
    for h in HAND_HELPERS | HAND_STATES:
        if h not in names:
            raise TErr("hand-modelled method %s is gone" % h)
    states = [n for n in names if n not in HAND_HELPERS]
    tr = StateTranslator(set(states), consts)
    out = [HEADER]
    for f in methods:
        if f.name in HAND_HELPERS or f.name in HAND_STATES:
            continue
        out.append(tr.method(f))
    # the dispatcher:  while self.state(): ...
    out.append("Definition step (k : tk) : tk * bool :=\n  match st k with")
    for n in states:
        out.append("  | %s => step_%s k" % (n, n))
    for n in SPEC_ONLY_STATES:
        out.append("  | %s => (set_bad k, false)" % n)
    out.append("  end.\n")
    out.append("Definition impl_states : list tstate := [%s].\n" % "; ".join(states))
    # asciiUpper2Lower is what lower_str implements
    a2l = consts.asciiUpper2Lower
    if a2l != {ord(c): ord(c.lower()) for c in "ABCDEFGHIJKLMNOPQRSTUVWXYZ"}:
        raise TErr("asciiUpper2Lower changed")
    toks = import_repo("html5lib._tokenizer")
    if toks.attributeMap is not dict:
        raise TErr("attributeMap is not dict")
    return "\n".join(out)
