"""Canonical wire encoding of walker/serializer tokens (mirrors coq/Base/Tok.v)."""
from sexp import opt

KINDS = {"Doctype": 0, "Characters": 1, "SpaceCharacters": 2, "StartTag": 3,
         "EndTag": 4, "EmptyTag": 5, "Comment": 6, "Entity": 7, "SerializeError": 8}


def enc_attrs(d):
    return [[[opt(k[0]), k[1]], v] for k, v in d.items()]


def enc_token(t):
    ty = t["type"]
    if ty == "Doctype":
        return [0, opt(t.get("name")), opt(t.get("publicId")), opt(t.get("systemId"))]
    if ty in ("Characters", "SpaceCharacters"):
        return [KINDS[ty], t["data"]]
    if ty in ("StartTag", "EmptyTag"):
        return [KINDS[ty], opt(t.get("namespace")), t["name"], enc_attrs(t["data"])]
    if ty == "EndTag":
        return [4, opt(t.get("namespace")), t["name"]]
    if ty == "Comment":
        return [6, t["data"]]
    if ty == "Entity":
        return [7, t["name"]]
    if ty == "SerializeError":
        return [8, t["data"]]
    return [9, ty]


def enc_tokens(ts):
    return [enc_token(t) for t in ts]


def mk(kind, **kw):
    d = {"type": kind}
    d.update(kw)
    return d


# ---- JSON-able form of tokens (attribute dicts as ordered lists) ----
def to_json(t):
    t = dict(t)
    if t["type"] in ("StartTag", "EmptyTag") and isinstance(t.get("data"), dict):
        t["data"] = [[[k[0], k[1]], v] for k, v in t["data"].items()]
    return t


def from_json(t):
    from collections import OrderedDict
    t = dict(t)
    if t["type"] in ("StartTag", "EmptyTag"):
        t["data"] = OrderedDict(((k[0], k[1]), v) for k, v in t["data"])
    return t


def walk(markup, tree="etree", fragment=False, **kw):
    """parse + tree walker -> list of JSON-able tokens"""
    import html5lib
    p = html5lib.HTMLParser(tree=html5lib.getTreeBuilder(tree), **kw)
    doc = p.parseFragment(markup) if fragment else p.parse(markup)
    return [to_json(t) for t in html5lib.getTreeWalker(tree)(doc)]
