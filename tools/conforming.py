"""Generator of conforming HTML document trees (abstract forests, see trees.py) from a grammar of the content model.

Only nestings the HTML content model allows are produced, so a conforming parser must rebuild exactly the same
tree from any faithful serialization.  Text avoids NUL and CR only; attribute values are arbitrary."""
HTML = "http://www.w3.org/1999/xhtml"
SVG = "http://www.w3.org/2000/svg"
MATH = "http://www.w3.org/1998/Math/MathML"
XLINK = "http://www.w3.org/1999/xlink"

CHARS = list("abcxyz AZ09<>&\"'`=/-!?;#\n\t") + ["\x0c", "é", "\xa0", " ", "\U0001F600", "&amp;", "&lt;", "&#38;", "</", "<!--",
                                               "-->", "]]>", "&notit;", "&amp", "  "]
ATTR_NAMES = ["id", "class", "title", "lang", "dir", "data-x", "style", "hidden", "tabindex", "accesskey", "x-y", "aria-label"]
BOOL_GLOBAL = ["hidden", "irrelevant", "itemscope"]
PHRASING_EL = ["b", "i", "em", "strong", "span", "code", "u", "s", "small", "sub", "sup", "mark", "q", "cite", "kbd", "abbr",
               "font", "big", "tt", "strike", "var", "samp", "dfn", "bdo", "time", "label", "output"]
VOID_PHRASING = ["br", "img", "wbr", "input", "embed", "keygen"]
FLOW_CONTAINERS = ["div", "section", "article", "aside", "nav", "blockquote", "main", "header", "footer", "figure", "center",
                   "address", "fieldset"]


class Gen(object):
    def __init__(self, rng, text_chars=None, pre_newline=False, bool_values=False, foreign=True, xlink=False):
        self.rng = rng
        self.chars = text_chars or CHARS
        self.pre_newline = pre_newline
        self.bool_values = bool_values
        self.foreign = foreign
        self.xlink = xlink

    def text(self, maxlen=8, raw=False, nonempty=True):
        r = self.rng
        n = r.randint(1 if nonempty else 0, maxlen)
        s = "".join(r.choice(self.chars) for _ in range(n))
        if raw:
            s = s.replace("</", "< /").replace("<!--", "<!-").replace("<", "< ")
        return s

    def attrs(self, elem=None, extra=()):
        r = self.rng
        out = []
        names = set()
        for _ in range(r.choice([0, 0, 1, 1, 2, 3])):
            n = r.choice(ATTR_NAMES + list(extra))
            if n in names:
                continue
            names.add(n)
            if n in BOOL_GLOBAL or n in ("disabled", "checked", "selected", "multiple", "readonly", "required", "ismap",
                                          "autofocus", "open", "async", "defer", "noshade", "nowrap", "compact"):
                v = n if (self.bool_values and r.random() < 0.3) else ""
            else:
                v = r.choice(["", "v", "a b", self.text(6), self.text(3), "x\"y", "x'y", "\"'", "a=b", "a>b", "a`b", "&amp;", " "])
            out.append([[None, n], v])
        return out

    def E(self, name, kids, extra=(), ns=HTML, attrs=None):
        return ["E", ns, name, self.attrs(name, extra) if attrs is None else attrs, self.coalesce(kids)]

    @staticmethod
    def coalesce(kids):
        out = []
        for k in kids:
            if k[0] == "T" and not k[1]:
                continue
            if k[0] == "T" and out and out[-1][0] == "T":
                out[-1] = ["T", out[-1][1] + k[1]]
            else:
                out.append(k)
        return out

    def comment(self):
        return ["C", self.rng.choice(["c", "", " x ", "a-b", "<b>", "x>", "!", "[if IE]"])]

    # ---------------------------------------------------------------- phrasing
    def phrasing(self, d, ctx):
        """ctx: set of excluded element names (a inside a, interactive inside button, ...)"""
        r = self.rng
        kids = []
        for _ in range(r.choice([0, 1, 1, 2, 3])):
            x = r.random()
            if x < 0.4 or d <= 0:
                kids.append(["T", self.text()])
            elif x < 0.45:
                kids.append(self.comment())
            elif x < 0.55:
                n = r.choice(VOID_PHRASING)
                kids.append(self.E(n, [], extra=("disabled", "checked", "ismap") if n in ("input", "img") else ()))
            elif x < 0.62 and "a" not in ctx and "button" not in ctx:
                kids.append(self.E("a", self.phrasing(d - 1, ctx | {"a"}), extra=("href",)))
            elif x < 0.66 and "button" not in ctx and "a" not in ctx:
                kids.append(self.E("button", self.phrasing(d - 1, ctx | {"button", "a", "select", "textarea"}), extra=("disabled",)))
            elif x < 0.70 and "select" not in ctx:
                kids.append(self.select())
            elif x < 0.73 and "textarea" not in ctx:
                t = self.text(6, nonempty=False)
                if not self.pre_newline:
                    t = t.lstrip("\n")
                kids.append(self.E("textarea", [["T", t]] if t else [], extra=("disabled", "readonly")))
            elif x < 0.76:
                kids.append(self.E("ruby", self.phrasing(0, ctx) + [self.E("rt", self.phrasing(0, ctx))]
                                   + ([self.E("rp", [["T", "("]])] if r.random() < 0.3 else [])))
            elif x < 0.80 and self.foreign:
                kids.append(self.foreign_el())
            else:
                n = r.choice(PHRASING_EL)
                if sum(1 for c in ctx if c == "fmt:" + n):
                    kids.append(["T", self.text()])
                else:
                    kids.append(self.E(n, self.phrasing(d - 1, ctx | {"fmt:" + n})))
        return self.coalesce(kids)

    def select(self):
        r = self.rng
        kids = []
        for _ in range(r.randint(0, 3)):
            if r.random() < 0.3:
                kids.append(self.E("optgroup", [self.option() for _ in range(r.randint(0, 2))], extra=("disabled",)))
            else:
                kids.append(self.option())
        return self.E("select", kids, extra=("multiple", "disabled"))

    def option(self):
        t = self.text(5, nonempty=False)
        return self.E("option", [["T", t]] if t else [], extra=("selected", "disabled"))

    def foreign_el(self):
        r = self.rng
        if r.random() < 0.6:
            kids = []
            for _ in range(r.randint(0, 2)):
                a = [[[None, "d"], "M0 0"]] if r.random() < 0.5 else []
                if self.xlink and r.random() < 0.3:
                    a.append([[XLINK, "href"], "#a"])
                kids.append(["E", SVG, r.choice(["g", "path", "circle", "clipPath", "text", "linearGradient"]), a,
                             [["T", self.text(4)]] if r.random() < 0.4 else []])
            return ["E", SVG, "svg", [[[None, "viewBox"], "0 0 1 1"]] if r.random() < 0.5 else [], self.coalesce(kids)]
        kids = [["E", MATH, r.choice(["mi", "mo", "mn", "mtext", "ms"]), [], [["T", self.text(3)]]] for _ in range(r.randint(0, 2))]
        return ["E", MATH, "math", [], kids]

    # ---------------------------------------------------------------- flow
    def flow(self, d, ctx):
        r = self.rng
        kids = []
        for _ in range(r.choice([0, 1, 1, 2, 3])):
            x = r.random()
            if x < 0.25 or d <= 0:
                kids += self.phrasing(min(d, 1), ctx)
            elif x < 0.35:
                kids.append(self.E("p", self.phrasing(d - 1, ctx)))
            elif x < 0.45:
                kids.append(self.E(r.choice(FLOW_CONTAINERS), self.flow(d - 1, ctx)))
            elif x < 0.50 and "heading" not in ctx:
                kids.append(self.E(r.choice(["h1", "h2", "h3", "h6"]), self.phrasing(d - 1, ctx | {"heading"})))
            elif x < 0.58:
                lis = []
                for _ in range(r.randint(0, 3)):
                    lis.append(self.E("li", self.flow(d - 1, ctx)))
                    if r.random() < 0.2:
                        lis.append(["T", r.choice([" ", "\n", "\n  "])])
                kids.append(self.E(r.choice(["ul", "ol"]), lis))
            elif x < 0.63:
                items = []
                for _ in range(r.randint(0, 3)):
                    items.append(self.E(r.choice(["dt", "dd"]), self.flow(d - 1, ctx) if r.random() < 0.5 else self.phrasing(1, ctx)))
                kids.append(self.E("dl", items))
            elif x < 0.72 and "table" not in ctx:
                kids.append(self.table(d - 1, ctx))
            elif x < 0.76:
                t = self.phrasing(d - 1, ctx)
                if t and t[0][0] == "T" and not self.pre_newline:
                    t[0] = ["T", t[0][1].lstrip("\n")]
                kids.append(self.E(r.choice(["pre", "listing"]), t))
            elif x < 0.80 and "form" not in ctx:
                kids.append(self.E("form", self.flow(d - 1, ctx | {"form"})))
            elif x < 0.84:
                kids.append(self.E("details", [self.E("summary", self.phrasing(1, ctx))] + self.flow(d - 1, ctx), extra=("open",)))
            elif x < 0.88:
                kids.append(self.E("hr", []))
            elif x < 0.91:
                kids.append(self.comment())
            elif x < 0.94:
                kids.append(self.E("script", [["T", self.text(6, raw=True)]] if r.random() < 0.7 else [], extra=("async", "defer")))
            elif x < 0.96:
                kids.append(self.E("style", [["T", self.text(6, raw=True)]] if r.random() < 0.7 else []))
            else:
                kids.append(self.E("menu", [self.E("li", self.phrasing(1, ctx)) for _ in range(r.randint(0, 2))]))
        return self.coalesce(kids)

    def table(self, d, ctx):
        r = self.rng
        ctx = ctx | {"table"}
        kids = []
        ws = lambda: [["T", r.choice([" ", "\n"])]] if r.random() < 0.15 else []
        if r.random() < 0.3:
            kids.append(self.E("caption", self.flow(d - 1, ctx)))
        if r.random() < 0.3:
            kids.append(self.E("colgroup", [self.E("col", []) for _ in range(r.randint(0, 2))]))
        def rows():
            out = []
            for _ in range(r.randint(0, 2)):
                cells = []
                for _ in range(r.randint(0, 3)):
                    cells.append(self.E(r.choice(["td", "th"]), self.flow(d - 1, ctx) if r.random() < 0.6 else self.phrasing(1, ctx),
                                        extra=("nowrap",)))
                out.append(self.E("tr", cells))
                out += ws()
            return out
        if r.random() < 0.3:
            kids.append(self.E("thead", rows()))
        for _ in range(r.randint(1, 2)):
            kids.append(self.E("tbody", rows()))
            kids += ws()
        if r.random() < 0.3:
            kids.append(self.E("tfoot", rows()))
        return self.E("table", kids)

    # ---------------------------------------------------------------- document
    def document(self, depth=3):
        r = self.rng
        head = []
        if r.random() < 0.7:
            t = self.text(6, nonempty=False)
            head.append(self.E("title", [["T", t]] if t else []))
        for _ in range(r.randint(0, 2)):
            x = r.random()
            if x < 0.3:
                head.append(self.E("meta", [], attrs=[[[None, "name"], "x"], [[None, "content"], self.text(4)]]))
            elif x < 0.5:
                head.append(self.E("link", [], extra=("href", "rel")))
            elif x < 0.65:
                head.append(self.E("style", [["T", self.text(5, raw=True)]]))
            elif x < 0.8:
                head.append(self.E("script", [["T", self.text(5, raw=True)]]))
            elif x < 0.9:
                head.append(self.comment())
            else:
                head.append(self.E("base", [], extra=("href",)))
        body = self.flow(depth, frozenset())
        forest = []
        if True:      # a conforming document has a doctype (without one the reader is in quirks mode)
            forest.append(["D", "html", None, None] if r.random() < 0.7 else
                          ["D", "html", "-//W3C//DTD HTML 4.01//EN", r.choice([None, "http://www.w3.org/TR/html4/strict.dtd"])])
        if r.random() < 0.1:
            forest.append(self.comment())
        forest.append(self.E("html", [self.E("head", head), self.E("body", body)], extra=("lang",)))
        if r.random() < 0.1:
            forest.append(self.comment())
        return forest
