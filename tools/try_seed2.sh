#!/bin/bash
# tools/try_seed2.sh <seed-id> <property> <clone-dir> <N>   -- confirm seeded change N (patchN.diff/demoN.py) of a
# scratch clone, keep it under seeded/<seed-id>/, run the check against it in /repo and undo it straight afterwards
set -u
sid=$1; prop=$2; wt=$3; n=$4
d=/verif/seeded/$sid; mkdir -p $d
cp $wt/patch$n.diff $d/patch.diff
cp $wt/demo$n.py $d/demo.py
cd $wt && git checkout -q -- html5lib && git apply --check $d/patch.diff || { echo "PATCH DOES NOT APPLY"; exit 2; }
echo "== demo on unchanged tree"; PYTHONPATH=$wt PYTHONHASHSEED=0 /venv/bin/python $d/demo.py > $d/demo_unchanged.out 2>&1; r0=$?; tail -2 $d/demo_unchanged.out | cut -c1-200; echo "exit=$r0"
git apply $d/patch.diff
echo "== demo with change"; PYTHONPATH=$wt PYTHONHASHSEED=0 /venv/bin/python $d/demo.py > $d/demo_changed.out 2>&1; r1=$?; tail -3 $d/demo_changed.out | cut -c1-200; echo "exit=$r1"
echo "== baseline tests with change"; PYTHONPATH=$wt /venv/bin/python -m pytest -q -p no:cacheprovider --timeout=900 2>&1 | tail -1 | tee $d/tests_changed.out
git checkout -q -- html5lib
cd /verif
git -C /repo apply $d/patch.diff || { echo "PATCH DOES NOT APPLY TO /repo"; exit 2; }
echo "== ./check $prop quick with change applied to /repo"
./check $prop quick > $d/check_quick.out 2>&1; rc=$?
git -C /repo checkout -- .
grep -E "^VIOLATION|KNOWN-FINDING|broken|failed|disagree" $d/check_quick.out | grep -v "^KNOWN" | cut -c1-300 | head -8
echo "check exit=$rc   (demo unchanged=$r0 changed=$r1)"
