"""Shared generators of markup (tag soup biased to the interesting constructs)."""

INLINE = ["a", "b", "i", "em", "span", "font", "nobr", "code", "u", "s", "big", "small", "strong", "tt"]
BLOCK = ["div", "p", "ul", "ol", "li", "dl", "dt", "dd", "h1", "h2", "blockquote", "pre", "form", "address",
         "center", "section", "article", "listing", "button", "fieldset", "details", "summary", "marquee",
         "object", "applet"]
TABLE = ["table", "caption", "colgroup", "col", "thead", "tbody", "tfoot", "tr", "td", "th"]
VOID = ["br", "img", "hr", "input", "meta", "link", "base", "area", "embed", "param", "source", "track", "wbr",
        "command", "event-source", "keygen", "basefont", "bgsound", "frame"]
RAW = ["script", "style", "title", "textarea", "xmp", "iframe", "noembed", "noframes", "noscript", "plaintext"]
STRUCT = ["html", "head", "body", "frameset", "select", "option", "optgroup", "ruby", "rt", "rp", "rb", "rtc",
          "menu", "dir", "nav", "main", "template", "image", "isindex", "math", "svg"]
FOREIGN = ["svg", "math", "foreignObject", "desc", "title", "mi", "mo", "mn", "ms", "mtext", "annotation-xml",
           "g", "path", "circle", "mglyph", "malignmark", "font", "clipPath", "foreignobject", "altGlyph"]
ATTRS = [' id=x', ' class="a b"', " href='u'", ' xlink:href=#a', ' xml:lang=en', ' xmlns:xlink=x', ' a=1 a=2',
         ' checked', ' encoding=text/html', ' encoding="application/xhtml+xml"', ' definitionurl=u', ' type=hidden',
         ' color=red', ' xmlns="http://www.w3.org/2000/svg"', ' é=ü', ' selected', ' viewbox=1']
TEXT = ["x", "a b", " ", "\n", "&amp;", "&lt;", "&#32;", "&nbsp;", "é", "\U0001f600", "&notin;", "\x00", "\r\n",
        "text", "<", ">", "&", "]]>", "-->", "\t", "\x0c"]
MISC = ["<!--c-->", "<!-->", "<!--->x-->", "<!DOCTYPE html>", "<!doctype html public \"-//W3C//DTD HTML 4.01//EN\">",
        "<![CDATA[x]]>", "<?pi?>", "</>", "< ", "<!x>", "<!DOCTYPE html SYSTEM \"about:legacy-compat\">"]

ALL = INLINE + BLOCK + TABLE + VOID + RAW + STRUCT + FOREIGN


def soup(rng, n, names=None, p_close=0.35, p_text=0.2, p_misc=0.04, attrs=0.15):
    names = names or ALL
    out = []
    for _ in range(n):
        r = rng.random()
        if r < p_text:
            out.append(rng.choice(TEXT))
        elif r < p_text + p_misc:
            out.append(rng.choice(MISC))
        elif r < p_text + p_misc + p_close:
            # end tags may carry attributes and a solidus (parse errors, but the token has them)
            extra = rng.choice(ATTRS) if rng.random() < 0.08 else ("/" if rng.random() < 0.03 else "")
            out.append("</%s%s>" % (rng.choice(names), extra))
        else:
            a = "".join(rng.choice(ATTRS) for _ in range(rng.choice([1, 1, 2]))) if rng.random() < attrs else ""
            sc = "/" if rng.random() < 0.05 else ""
            out.append("<%s%s%s>" % (rng.choice(names), a, sc))
    return "".join(out)


def nested(rng, depth, names=None):
    """mostly well-nested markup"""
    names = names or (INLINE + BLOCK + TABLE + STRUCT + FOREIGN)
    if depth <= 0 or rng.random() < 0.25:
        return rng.choice(TEXT + ["<br>", "<img>", "<!--c-->"])
    n = rng.choice(names)
    inner = "".join(nested(rng, depth - 1, names) for _ in range(rng.randint(0, 3)))
    a = rng.choice(ATTRS) if rng.random() < 0.2 else ""
    close = "</%s>" % n if rng.random() < 0.85 else ""
    return "<%s%s>%s%s" % (n, a, inner, close)


def document(rng, size=12):
    r = rng.random()
    if r < 0.5:
        return soup(rng, rng.randint(1, size))
    if r < 0.8:
        return "".join(nested(rng, 4) for _ in range(rng.randint(1, 3)))
    return soup(rng, rng.randint(1, size // 2)) + nested(rng, 3) + soup(rng, rng.randint(0, 4))


# ---- phase-directed inputs: a prefix that leaves the tree constructor in a given insertion mode ----
PHASE_PREFIXES = {
    "initial": [""],
    "beforeHtml": ["<!DOCTYPE html>"],
    "beforeHead": ["<html>"],
    "inHead": ["<head>", "<head><meta>"],
    "inHeadNoscript": ["<head><noscript>"],
    "afterHead": ["<head></head>", "<head></head> "],
    "inBody": ["<body>", "<p>", "<b><p>", "<div><b class=a><b class=b>", "<ul><li>", "<dl><dt>", "<button>", "<a href=1>", "<h1>",
               "<form>", "<ruby><rb>", "<pre>", "<applet><b>", "<nobr>", "<select><option>x</select><option>"],
    "text": ["<title>", "<textarea>", "<style>", "<script>", "<body><xmp>"],
    "inTable": ["<table>", "<table> ", "<b><table>", "<p><table>", "<table><tr></tr></tbody>"],
    "inCaption": ["<table><caption>", "<table><caption><b>"],
    "inColumnGroup": ["<table><colgroup>", "<table><col>"],
    "inTableBody": ["<table><tbody>", "<table><thead>", "<table><tbody><tr></tr>"],
    "inRow": ["<table><tr>", "<table><tbody><tr><td>a</td>", "<table><thead><tr><th>h</th>"],
    "inCell": ["<table><tr><td>", "<table><tr><th><b>", "<table><tr><td><p>"],
    "inSelect": ["<select>", "<select><option>", "<select><optgroup><option>"],
    "inSelectInTable": ["<table><tr><td><select>", "<table><select>", "<table><caption><select><option>"],
    "inForeignContent": ["<svg>", "<math>", "<svg><g>", "<math><mi>", "<svg><foreignObject>", "<svg><desc>", "<svg><title>",
                         "<math><annotation-xml encoding=text/html>", "<math><annotation-xml>", "<table><svg>", "<select><svg>"],
    "afterBody": ["<body></body>", "<p></body>"],
    "inFrameset": ["<frameset>", "<frameset><frameset>"],
    "afterFrameset": ["<frameset></frameset>"],
    "afterAfterBody": ["<body></body></html>", "</html>"],
    "afterAfterFrameset": ["<frameset></frameset></html>"],
}
FOLLOW = ["", "x", " ", "<td>b", "</table>", "<p>y", "</b>z", "<!--c-->"]


def phase_directed(dispatch_keys, extra=("div", "span", "b", "a", "p", "li", "td", "tr", "table", "svg", "math", "option", "input")):
    """every (prefix, start/end tag) pair, each with two different continuations"""
    out = []
    i = 0
    for phase, prefixes in PHASE_PREFIXES.items():
        names = sorted(set(dispatch_keys.get(phase, ())) | set(extra))
        for pre in prefixes:
            for n in names:
                for kind in ("<%s>", "</%s>"):
                    if "able" in phase or phase in ("inRow", "inCell", "inCaption", "inColumnGroup"):
                        follows = ["", "x", "<td>b", "</table>y", "<tr><td>c"]
                    else:
                        follows = [FOLLOW[(i + k * 3) % len(FOLLOW)] for k in range(2)]
                    for f in follows:
                        out.append(pre + kind % n + f)
                    i += 1
    return out


def dispatch_keys():
    from html5lib import html5parser
    d = {}
    for key, cls in html5parser._phases.items():
        ks = set()
        for nm in ("startTagHandler", "endTagHandler"):
            if nm in cls.__dict__:
                ks |= set(cls.__dict__[nm].keys())
        d[key] = ks
    # foreign content consults breakoutElements
    d["inForeignContent"] = set(html5parser.InForeignContentPhase.breakoutElements) | {"font", "svg", "math", "mglyph", "malignmark",
                                                                                      "foreignobject", "desc", "title", "mi", "mo",
                                                                                      "annotation-xml", "script", "style"}
    allk = set().union(*d.values())
    d["inBody"] |= allk
    return d


FRAGMENT_CONTAINERS = ["table", "tbody", "tr", "td", "caption", "colgroup", "select", "html", "head", "body", "frameset", "svg",
                       "math", "title", "template", "option"]


def fragment_directed(keys):
    """(container, markup): every start/end tag right at the start of a fragment in the contexts that matter, plus
    formatting/adoption-agency shapes inside table contexts"""
    out = []
    names = sorted(set().union(*keys.values()))
    i = 0
    for c in FRAGMENT_CONTAINERS:
        for n in names:
            for kind in ("<%s>", "</%s>"):
                out.append((c, kind % n + FOLLOW[i % len(FOLLOW)]))
                i += 1
        for sec in ("tbody", "tfoot", "tr", "td", "caption", "colgroup", "option", "p"):
            for f in ("b", "a", "small", "nobr"):
                out.append((c, "<%s><%s><p>x</%s>y" % (sec, f, f)))
                out.append((c, "<%s><%s><div><%s>x</%s>y</div>z" % (sec, f, f, f)))
    return out


# ---- foreign elements that carry HTML element names, then an HTML integration point, then HTML markup --------
# (every name-only test in the tree builder meets an element of the same name in another namespace)
FOREIGN_HTML_NAMES = ["html", "head", "select", "colgroup", "col", "tbody", "thead", "tfoot", "tr", "td", "th", "caption",
                      "frameset", "frame", "option", "optgroup", "button", "form", "a", "nobr", "applet", "marquee", "object",
                      "template", "title", "style", "script", "textarea", "input", "address", "rp", "rt", "noscript",
                      "noframes", "plaintext", "xmp", "iframe", "area", "base", "link", "source", "event-source"]
FOREIGN_ROOTS = [("<svg>", ["<desc>", "<title>", "<foreignObject>", ""]),
                 ("<math>", ["<mi>", "<mtext>", "<annotation-xml encoding=text/html>", ""])]
FOREIGN_PREFIXES = ["", "<table>", "<table><tbody>", "<table><tr>", "<table><tr><td>", "<table><caption>", "<table><colgroup>",
                    "<select>", "<frameset>", "<p>", "<b>", "<button>", "<ruby>", "<li>"]
FOREIGN_FOLLOW = ["<table></table>", "<tr>", "<td>x", "</table>", "</tbody>x", "</tr>", "</td>", "<tbody>", "<caption>", "</caption>",
                  "<colgroup>", "<col>", "<select></select>", "</select>", "<option>", "<frameset>", "</frameset>", "<body>", "</body>",
                  "</html>", "<html a=1>", "<head>", "<p>x", "</p>", "<li>", "<dd>", "<button>", "</button>", "<form>", "</form>", "<a>",
                  "</a>", "<b>x</b>", "<nobr>", "<h1>", "</h1>", "<input>", "</br>", "<textarea>", "<plaintext>", "<marquee>", "</marquee>",
                  "<template>", "</template>", "<svg>", "<math>", "<div>", "</div>", "x", " ", "<!--c-->", "<rp>", "<image>", "<isindex>",
                  "<table><tr><td>", "</table></p>", "<font color=red></table></h1>", "<tr><td>a</td></tr>x", "<caption>a</caption>b"]


def foreign_directed(per=3):
    out = []
    i = 0
    for pre in FOREIGN_PREFIXES:
        for root, ips in FOREIGN_ROOTS:
            for nm in FOREIGN_HTML_NAMES:
                for ip in ips:
                    for k in range(per):
                        f = FOREIGN_FOLLOW[(i * 7 + k * 19) % len(FOREIGN_FOLLOW)]
                        g = FOREIGN_FOLLOW[(i * 11 + k * 5 + 3) % len(FOREIGN_FOLLOW)] if k == 2 else ""
                        out.append(pre + root + "<" + nm + ">" + ip + f + g)
                    i += 1
    return out


# ---- end tags that carry attributes; scope closers with a special element in between; namespaced attributes -------
def closers_directed(keys):
    out = []
    names = sorted(set().union(*keys.values()) | {"br", "p", "div", "span", "svg", "math", "g", "mi"})
    for i, n in enumerate(names):
        for pre in ("", "<div>", "<table>", "<svg>", "<select>", "<p><b>")[i % 2::2]:
            out.append(pre + "a</%s clear=all>b" % n)
        out.append("</%s a=1 b=2/>x" % n)
    return out


REOPEN = ["button", "p", "li", "dd", "dt", "a", "nobr", "form", "h1", "option", "optgroup", "select", "table", "caption", "td", "th",
          "tr", "tbody", "body", "html", "head", "ruby", "rt", "rp", "applet", "marquee", "object", "b", "font", "dialog", "pre",
          "textarea", "title", "frameset", "colgroup"]
BLOCKERS = ["div", "p", "ul", "li", "table", "td", "h1", "address", "blockquote", "button", "span", "svg", "math", "marquee", "b",
            "select", "form", "dl", "fieldset", "caption", "tr"]


def reopen_directed():
    """<X> ... <X> and <X> ... </X> with one or two other elements open in between"""
    out = []
    for i, x in enumerate(REOPEN):
        for j, b in enumerate(BLOCKERS):
            b2 = BLOCKERS[(i + j * 3 + 1) % len(BLOCKERS)]
            out.append("<%s><%s><%s>y" % (x, b, x))
            out.append("<%s><%s>t</%s>y" % (x, b, x))
            if (i + j) % 3 == 0:
                out.append("<%s><%s><%s><%s>y</%s>z" % (x, b, b2, x, b))
                out.append("<table><tr><td><%s><%s><%s>" % (x, b, x))
    return out


def foreign_attrs_directed():
    out = []
    at = [' xmlns="http://www.w3.org/2000/svg"', ' xmlns="http://www.w3.org/1998/Math/MathML"', ' xmlns=x',
          ' xmlns:xlink="http://www.w3.org/1999/xlink"', " xlink:href=#a", " xml:lang=en", " xml:space=preserve", " xlink:title=t",
          " xmlns:foo=bar", " foo:bar=1", " definitionurl=u", " viewbox=1", " xml:base=b", " xlink:foo=x", " xmlns:xlink=y",
          # plain namesakes of adjusted attributes on the same element
          " href=#new", " lang=fr", " title=t", " space=default", " base=c"]
    # breakout start tags that carry foreign-adjustable attributes while an SVG/MathML element is the current node
    for root in ("<svg>", "<math>", "<p>a<svg><g>", "<table><svg>", "<svg><desc>", "<math><mi>"):
        for tag in ("body", "html", "p", "div", "b", "table", "font color=red", "head", "br", "img"):
            for a in (" xlink:href=x", " xml:space=preserve class=c", " xmlns:xlink=u", " xmlns=v id=i"):
                out.append("%s<%s%s>b" % (root, tag, a))
    for root in ("svg", "math", "div", "svg><g", "math><mi", "svg><foreignObject><p", "table><svg", "svg><use", "math><mi"):
        for i in range(len(at)):
            a = at[i] + at[(i * 5 + 3) % len(at)]
            out.append("<%s%s>x" % (root, a))
            out.append("<%s%s%s><b>y" % (root, at[(i + 7) % len(at)], at[i]))
    # every adjusted attribute next to its plain namesake, in both orders (one of the two is lost if a builder keys
    # attributes by local name only)
    pairs = [("xlink:href", "href"), ("xlink:title", "title"), ("xml:lang", "lang"), ("xml:space", "space"),
             ("xlink:type", "type"), ("xlink:role", "role"), ("xlink:show", "show"), ("xlink:actuate", "actuate"),
             ("xlink:arcrole", "arcrole"), ("xmlns:xlink", "xlink")]
    for root in ("svg", "math", "svg><a", "math><mi", "table><svg"):
        for q, pl in pairs:
            out.append("<%s %s=1 %s=2>x" % (root, q, pl))
            out.append("<%s %s=2 %s=1><b>y" % (root, pl, q))
    return out
