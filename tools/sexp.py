"""S-expressions over non-negative integers (DESIGN A.6)."""


def dumps(x):
    if isinstance(x, bool):
        return "1" if x else "0"
    if isinstance(x, int):
        assert x >= 0
        return str(x)
    if isinstance(x, str):
        return "(" + " ".join(str(ord(c)) for c in x) + ")"
    if x is None:
        return "()"
    return "(" + " ".join(dumps(y) for y in x) + ")"


def opt(x):
    """Python None / value -> option"""
    return [] if x is None else [x]


def loads(s):
    pos = 0
    n = len(s)
    stack = [[]]
    while pos < n:
        c = s[pos]
        if c == "(":
            stack.append([])
            pos += 1
        elif c == ")":
            top = stack.pop()
            stack[-1].append(top)
            pos += 1
        elif c.isdigit():
            st = pos
            while pos < n and s[pos].isdigit():
                pos += 1
            stack[-1].append(int(s[st:pos]))
        elif c in " \t\r\n":
            pos += 1
        else:
            raise ValueError("bad sexp: %r" % s[:80])
    assert len(stack) == 1 and len(stack[0]) == 1, s[:80]
    return stack[0][0]


def to_str(x):
    return "".join(chr(c) for c in x)


def to_coq(x):
    """Render as a Gallina literal of type sx (N_scope, list_scope open)."""
    if isinstance(x, int):
        return "A %d" % x
    return "L [" + "; ".join(to_coq(y) for y in x) + "]"
