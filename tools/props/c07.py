"""C07 -- serialize then parse is the identity on conforming documents.

A conforming document tree is generated from a grammar of the content model (tools/conforming.py), built as a real
ElementTree / minidom tree, walked, serialized with a random option set (optional-tag omission, attribute
sorting, quoting modes, ...) and parsed again; the result must be the original tree.
The same run ties the pipeline model (AA ; OT ; Ser) to HTMLSerializer.render by exact agreement."""
import json
import random

import conforming
import realtrees
import tokens as T
import trees
from framework import Plugin


def rnd_opts(rng):
    return {"quote_attr_values": rng.choice(["always", "spec", "legacy"]),
            "quote_char": rng.choice(['"', "'"]) if rng.random() < 0.4 else None,
            "minimize_boolean_attributes": rng.random() < 0.6,
            "use_trailing_solidus": rng.random() < 0.3,
            "space_before_trailing_solidus": rng.random() < 0.5,
            "escape_lt_in_attrs": rng.random() < 0.3,
            "escape_rcdata": False,
            "resolve_entities": rng.random() < 0.5,
            "alphabetical_attributes": rng.random() < 0.4,
            "omit_optional_tags": rng.random() < 0.7}


def enc_opts(o):
    qc = o.get("quote_char")
    return [{"always": 0, "spec": 1, "legacy": 2}[o["quote_attr_values"]], ord(qc) if qc else ord('"'),
            0 if qc else 1, int(o["minimize_boolean_attributes"]), int(o["use_trailing_solidus"]),
            int(o["space_before_trailing_solidus"]), int(o["escape_lt_in_attrs"]), int(o["escape_rcdata"]),
            int(o["resolve_entities"])]


def norm(forest):
    """comparison form: attributes as sorted lists, doctype ids None == ''"""
    out = []
    for n in forest:
        if n[0] == "E":
            out.append(["E", n[1], n[2], sorted([[list(k), v] for k, v in n[3]], key=lambda kv: (kv[0][0] or "", kv[0][1])), norm(n[4])])
        elif n[0] == "D":
            out.append(["D", n[1], n[2] or "", n[3] or ""])
        else:
            out.append(list(n))
    return out


def first_diff(a, b, path="/"):
    if len(a) != len(b):
        for i, (x, y) in enumerate(zip(a, b)):
            if x != y:
                break
        else:
            i = min(len(a), len(b))
        return path, "children differ from index %d: %r... vs %r..." % (
            i, json.dumps(a[i:i + 2])[:160], json.dumps(b[i:i + 2])[:160])
    for i, (x, y) in enumerate(zip(a, b)):
        if x == y:
            continue
        if x[0] == "E" and y[0] == "E" and x[1:4] == y[1:4]:
            return first_diff(x[4], y[4], "%s%s[%d]/" % (path, x[2], i))
        return path, "node %d: %r vs %r" % (i, json.dumps(x)[:200], json.dumps(y)[:200])
    return path, "?"


class C07(Plugin):
    id = "C07"
    gen = ["Consts", "Entities", "Serializer", "OptionalTags", "AlphaAttrs"]
    n_quick = 2500
    n_thorough = 60000
    case_timeout = 30
    model_chunk = 1500
    rule = ("conforming document trees from a content-model grammar (flow/phrasing nesting, lists, definition lists, "
            "tables with caption/colgroup/thead/tbody/tfoot, select, ruby, details, forms, pre/listing/textarea, "
            "script/style, svg/math leaves, comments anywhere, inter-element whitespace in lists and tables; text over "
            "markup-significant characters, astral and NBSP; arbitrary attribute values) x random option sets "
            "(3 quoting modes x quote char x best-quote x minimisation x solidus x escape_lt x resolve_entities x "
            "attribute sorting x optional-tag omission) x walker in {etree, dom}; each case both ties the pipeline "
            "model to render() and checks parse(render(tree)) == tree")
    trusted_base = ["tools/conforming.py: the content-model grammar (what counts as a conforming tree)",
                    "tools/realtrees.py / tools/trees.py: tree construction and direct traversal, independent of the "
                    "walkers", "html5lib's own parser as the reader (its conformance is C01)"]

    def cases(self, rng, n, tier):
        for i in range(n):
            yield {"seed": rng.randrange(1 << 40), "opts": rnd_opts(rng), "tree": rng.choice(["etree", "dom"]),
                   "depth": rng.choice([1, 2, 2, 3, 3, 4]), "pre_newline": rng.random() < 0.03,
                   "bool_values": rng.random() < 0.03, "xlink": rng.random() < 0.03,
                   # the encoding option: bytes out, characters the encoding lacks as references (oracle only)
                   "enc": rng.choice(["ascii", "koi8-r", "iso-8859-7"]) if rng.random() < 0.15 else None}

    def corpus(self):
        """explicit conforming documents the seeded generator does not reach (independent audit, B.16-B.18)"""
        H, SVG = "http://www.w3.org/1999/xhtml", "http://www.w3.org/2000/svg"
        E = lambda name, kids, ns=H: ["E", ns, name, [], kids]
        doc = lambda body, head=(): [["D", "html", None, None], E("html", [E("head", list(head)), E("body", body)])]
        base = {"quote_attr_values": "legacy", "quote_char": None, "minimize_boolean_attributes": True,
                "use_trailing_solidus": False, "space_before_trailing_solidus": True, "escape_lt_in_attrs": False,
                "escape_rcdata": False, "resolve_entities": True, "alphabetical_attributes": False,
                "omit_optional_tags": True}
        forests = [
            ("", doc([E("noscript", [["T", "a"]])])),
            ("", doc([E("noscript", [E("p", [["T", "a"]])]), E("p", [["T", "b"]])], head=[E("title", [["T", "t"]])])),
            ("", doc([E("p", [["T", "x"]]), E("noscript", [["T", "a"]])])),
            ("p-in-foreign-parent", doc([E("svg", [E("foreignObject", [E("p", [["T", "a"]])], SVG), E("circle", [], SVG)], SVG),
                                         E("p", [["T", "x"]])])),
            ("p-in-custom-element", doc([E("my-card", [E("p", [["T", "a"]])]), ["T", "tail"]])),
        ]
        out = []
        for tag, f in forests:
            for tree in ("etree", "dom"):
                for omit in (True, False):
                    out.append({"seed": 0, "opts": dict(base, omit_optional_tags=omit), "tree": tree, "depth": 0,
                                "pre_newline": False, "bool_values": False, "xlink": False, "forest": f, "expect": tag})
        return out

    def known_witnesses(self):
        base = {"quote_attr_values": "legacy", "quote_char": None, "minimize_boolean_attributes": True,
                "use_trailing_solidus": False, "space_before_trailing_solidus": True, "escape_lt_in_attrs": False,
                "escape_rcdata": False, "resolve_entities": True, "alphabetical_attributes": False,
                "omit_optional_tags": True}
        w = lambda seed, **kw: dict({"seed": seed, "opts": base, "tree": "etree", "depth": 2, "pre_newline": False,
                                     "bool_values": False, "xlink": False}, **kw)
        return {"C07-leading-newline-in-pre-textarea": w(494, pre_newline=True),
                "C07-boolean-attribute-value-dropped": w(433, bool_values=True),
                "C07-namespaced-attribute-prefix-dropped": w(887, xlink=True),
                "C07-p-end-tag-omitted-in-non-html-parent": [c for c in self.corpus() if c["expect"] == "p-in-foreign-parent"][0]}

    def forest(self, case):
        if case.get("forest") is not None:
            return case["forest"]
        chars = conforming.CHARS + list("ÉÀÖÑÚÆÇÝÞÐØéñ©Ω") if case.get("enc") else None
        g = conforming.Gen(random.Random(case["seed"]), text_chars=chars, pre_newline=case["pre_newline"],
                           bool_values=case["bool_values"], xlink=case.get("xlink", False))
        return g.document(case["depth"])

    def real_tree(self, case, forest):
        if case["tree"] == "dom":
            return realtrees.dom_from_forest(forest)
        return realtrees.et_from_forest(forest)

    def stream(self, case):
        import html5lib
        forest = self.forest(case)
        doc = self.real_tree(case, forest)
        return forest, [T.to_json(t) for t in html5lib.getTreeWalker(case["tree"])(doc)]

    def encode(self, case):
        if case.get("enc"):
            return None           # the pipeline model has no encoding step
        forest, stream = self.stream(case)
        o = case["opts"]
        return [enc_opts(o), int(o["alphabetical_attributes"]), int(o["omit_optional_tags"]),
                T.enc_tokens([T.from_json(t) for t in stream])]

    def serializer(self, case):
        from html5lib.serializer import HTMLSerializer
        kw = dict(case["opts"])
        if kw.get("quote_char") is None:
            kw.pop("quote_char", None)
        return HTMLSerializer(inject_meta_charset=False, **kw)

    def impl(self, case):
        forest, stream = self.stream(case)
        s = self.serializer(case)
        if case.get("enc"):
            txt = s.render([T.from_json(t) for t in stream], case["enc"])
            self._last = (forest, txt, list(s.errors))
            return [0, txt.decode("latin-1"), list(s.errors)]
        txt = s.render([T.from_json(t) for t in stream])
        self._last = (forest, txt, list(s.errors))
        return [0, txt, list(s.errors)]

    def oracle(self, case, out):
        import html5lib
        forest, txt, errs = self._last
        tb = html5lib.getTreeBuilder("etree", fullTree=True) if case["tree"] == "etree" else html5lib.getTreeBuilder("dom")
        p = html5lib.HTMLParser(tree=tb)
        doc = p.parse(txt, transport_encoding=case["enc"]) if case.get("enc") else p.parse(txt)
        back = trees.dom_forest(doc) if case["tree"] == "dom" else trees.et_forest(doc)
        a, b = norm(forest), norm(trees.coalesce(back))
        if a == b:
            return []
        path, what = first_diff(a, b)
        cls = self.diff_class(case, forest, txt, errs, path, what)
        return [(cls, "at %s: %s\nserialized: %r" % (path, what, txt[:1500]))]

    def diff_class(self, case, forest, txt, errs, path, what):
        if case.get("expect") and case["opts"]["omit_optional_tags"]:
            return case["expect"]
        if case.get("pre_newline") and any(("/%s[" % n) in path or path.rstrip("/").split("[")[0].endswith(n)
                                           for n in ("pre", "listing", "textarea")):
            return "leading-newline-in-pre-textarea"
        if case.get("bool_values") and case["opts"]["minimize_boolean_attributes"]:
            return "boolean-attribute-value-dropped"
        if case.get("xlink"):
            return "namespaced-attribute-prefix-dropped"
        if case.get("enc") and any(("/%s[" % n) in path for n in ("script", "style", "xmp", "iframe", "noembed", "noframes",
                                                                  "noscript", "plaintext")):
            return "unencodable-in-rawtext-element"
        return "tree-differs-after-roundtrip"

    def classify(self, cls, case, detail):
        return {"leading-newline-in-pre-textarea": "C07-leading-newline-in-pre-textarea",
                "boolean-attribute-value-dropped": "C07-boolean-attribute-value-dropped",
                "namespaced-attribute-prefix-dropped": "C07-namespaced-attribute-prefix-dropped",
                "unencodable-in-rawtext-element": "C07-unencodable-in-rawtext-element",
                "p-in-foreign-parent": "C07-p-end-tag-omitted-in-non-html-parent",
                "p-in-custom-element": "C07-p-end-tag-omitted-in-non-html-parent"}.get(cls)

    def nontrivial_key(self, case, out):
        return "%d|%s" % (case["seed"], json.dumps(case["opts"], sort_keys=True)) if out and len(out[1]) > 60 else None

    def describe(self, case):
        d = dict(case)
        try:
            d["forest"] = self.forest(case)
        except Exception:
            pass
        return d


PLUGIN = C07()
