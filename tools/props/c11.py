"""C11 -- tree walkers: model of the non-recursive traversal (zipper and ElementTree cursors), text split, Lint."""
from framework import Plugin
from tokens import enc_tokens, to_json, from_json
import trees
import realtrees
import gen_markup

VOID = None


def lint_accepts(toks):
    from html5lib.filters.lint import Filter
    try:
        list(Filter(toks))
        return True
    except (AssertionError, IndexError, KeyError, TypeError):
        return False


def coalesce_chars(enc):
    out = []
    for t in enc:
        if t[0] in (1, 2):
            if out and out[-1][0] == "txt":
                out[-1] = ["txt", out[-1][1] + t[1]]
            else:
                out.append(["txt", t[1]])
        else:
            out.append(t)
    return out


def rebuild(enc):
    """tokens -> forest (elements, text, comments, doctype); None if unbalanced"""
    stack = [[]]
    names = []
    for t in enc:
        k = t[0]
        if k == 3:
            names.append((t[1], t[2]))
            stack.append([t])
        elif k == 4:
            if not names or names[-1] != (t[1], t[2]):
                return None
            names.pop()
            fr = stack.pop()
            st = fr[0]
            stack[-1].append(["E", (st[1] or [None])[0], st[2],
                              [[[(a[0][0] or [None])[0], a[0][1]], a[1]] for a in st[3]], fr[1:]])
        elif k == 5:
            stack[-1].append(["E", (t[1] or [None])[0], t[2],
                              [[[(a[0][0] or [None])[0], a[0][1]], a[1]] for a in t[3]], []])
        elif k in (1, 2):
            if stack[-1] and isinstance(stack[-1][-1], list) and stack[-1][-1][0] == "T":
                stack[-1][-1] = ["T", stack[-1][-1][1] + t[1]]
            else:
                stack[-1].append(["T", t[1]])
        elif k == 6:
            stack[-1].append(["C", t[1]])
        elif k == 0:
            stack[-1].append(["D", (t[1] or [None])[0], (t[2] or [None])[0], (t[3] or [None])[0]])
    if names:
        return None
    return stack[0]


def has_void_with_children(forest):
    from html5lib.constants import voidElements
    for n in forest:
        if n[0] == "E":
            if (not n[1] or n[1] == realtrees.HTML) and n[2] in voidElements and n[4]:
                return True
            if has_void_with_children(n[4]):
                return True
    return False


class C11(Plugin):
    id = "C11"
    gen = ["Consts", "Sax"]
    n_quick = 3000
    n_thorough = 100000
    rule = ("trees built directly through the minidom / ElementTree APIs from random abstract forests (text around "
            "every node incl. whitespace-only and non-ASCII-space text, comments and doctype at document level, "
            "foreign namespaces and attributes, void elements with and without children) and trees parsed from "
            "generated markup; walked by the real dom and etree walkers from the document, a fragment and the first "
            "element; plus the text split on random strings and the Lint filter on random streams; non-trivial = "
            "distinct tree with at least one element")
    trusted_base = ["xml.dom.minidom / xml.etree.ElementTree as containers (children lists, text/tail)"]

    def known_witnesses(self):
        return {"C11-void-element-with-children":
                {"k": 1, "forest": [["E", realtrees.HTML, "event-source", [], [["T", "x"]]]], "frag": True, "w": "dom",
                 "src": "<event-source>x</event-source>"}}

    def cases(self, rng, n, tier):
        import html5lib
        for _ in range(n):
            r = rng.random()
            if r < 0.08:
                yield {"k": 0, "s": "".join(rng.choice(["a", " ", "\t", "\n", "\x0c", "\r", "\xa0", "é", " ",
                                                        "\x0b", "\x1f"]) for _ in range(rng.randint(0, 7)))}
            elif r < 0.16:
                from props.c17 import PLUGIN as c17
                c = next(iter(c17.cases(rng, 1, tier)))
                yield {"k": 5, "toks": c["toks"]}
            else:
                frag = rng.random() < 0.3
                w = rng.choice(["dom", "etree"])
                if rng.random() < 0.6:
                    forest = realtrees.random_forest(rng, depth=3, doc_level=(True if frag else "document"))
                    if frag:
                        forest = [n for n in forest if n[0] != "D"]
                    src = None
                else:
                    src = gen_markup.document(rng)
                    p = html5lib.HTMLParser(tree=html5lib.getTreeBuilder("dom"))
                    doc = p.parseFragment(src) if frag else p.parse(src)
                    forest = trees.dom_forest(doc)
                if w == "etree":
                    forest = trees.coalesce(forest)
                elem = rng.random() < 0.25 and any(n[0] == "E" for n in forest)
                yield {"k": 2 if elem else 1, "forest": forest, "frag": frag, "w": w, "src": src}

    def encode(self, case):
        k = case["k"]
        if k == 0:
            return [0, case["s"]]
        if k == 5:
            return [5, enc_tokens([from_json(t) for t in case["toks"]])]
        if k == 1:
            return [1 if case["w"] == "dom" else 3, trees.enc_forest(case["forest"])]
        el = [n for n in case["forest"] if n[0] == "E"][0]
        return [2 if case["w"] == "dom" else 4, trees.enc_node(el)]

    def _walk(self, case):
        import html5lib
        forest, w = case["forest"], case["w"]
        if w == "dom":
            root = realtrees.dom_from_forest(forest, case["frag"])
            if case["k"] == 2:
                root = [c for c in root.childNodes if c.nodeType == c.ELEMENT_NODE][0]
        else:
            root = realtrees.et_from_forest(forest, case["frag"])
            if case["k"] == 2:
                root = [c for c in root if isinstance(c.tag, str) and c.tag != "<!DOCTYPE>"][0]
                root.tail = None
        walker = html5lib.getTreeWalker(w)(root)
        first = list(walker)
        self._second_same = enc_tokens(list(walker)) == enc_tokens(first)      # a walker can be iterated again
        return first

    def impl(self, case):
        k = case["k"]
        if k == 0:
            from html5lib.treewalkers.base import TreeWalker
            return enc_tokens(list(TreeWalker([]).text(case["s"])))
        if k == 5:
            return lint_accepts([from_json(t) for t in case["toks"]])
        toks = self._walk(case)
        self._toks = toks
        return [1, enc_tokens(toks)]

    def oracle(self, case, out):
        k = case["k"]
        v = []
        if k not in (0, 5) and not getattr(self, "_second_same", True):
            v.append(("second-iteration-differs", "walking the same TreeWalker object again yields another stream"))
        if k == 0:
            s = case["s"]
            if "".join(t[1] for t in out) != s or len(out) > 3:
                v.append(("text-split-not-a-partition", repr((s, out))))
            ws = "\t\n\x0c\r "
            for t in out:
                if not t[1]:
                    v.append(("empty-text-token", repr(s)))
                if t[0] == 2 and any(c not in ws for c in t[1]):
                    v.append(("space-token-with-non-whitespace", repr((s, out))))
                if t[0] == 1 and (t[1][0] in ws or t[1][-1] in ws):
                    v.append(("characters-token-not-trimmed", repr((s, out))))
            return v
        if k == 5:
            return v
        enc = out[1]
        forest = case["forest"]
        want = forest if k == 1 else [[n for n in forest if n[0] == "E"][0]]
        voidkids = has_void_with_children(want)
        # well-formedness + Lint
        toks = [dict(type={0: "Doctype", 1: "Characters", 2: "SpaceCharacters", 3: "StartTag", 4: "EndTag",
                           5: "EmptyTag", 6: "Comment", 7: "Entity", 8: "SerializeError"}.get(t[0], "?")) for t in enc]
        import html5lib
        real = self._walk(case)
        if not lint_accepts(real):
            v.append(("lint-rejects-walker-stream", ""))
        from html5lib.constants import voidElements
        for t in enc:
            if t[0] in (3, 4) and (not t[1] or t[1] == [realtrees.HTML]) and t[2] in voidElements:
                v.append(("void-element-as-start-or-end-tag", t[2]))
            if t[0] in (3, 4, 5) and not t[2]:
                v.append(("empty-name", ""))
        if voidkids and case.get("src") is None:
            return v      # only API-built trees put children under br/img/...: outside the property's quantifier
        rb = rebuild(enc)
        if rb is None:
            v.append(("unbalanced-stream", ""))
        elif trees.coalesce(rb) != trees.coalesce(want):
            v.append(("void-element-with-children" if voidkids else "rebuilt-tree-differs", repr(case.get("src"))))
        elif any(t[0] == 8 for t in enc):
            v.append(("void-element-with-children", ""))
        # the other walker on the same abstract tree
        other = dict(case)
        other["w"] = "etree" if case["w"] == "dom" else "dom"
        other["forest"] = trees.coalesce(forest)
        if coalesce_chars(enc_tokens(self._walk(other))) != coalesce_chars(enc_tokens(
                self._walk(dict(case, forest=trees.coalesce(forest))))):
            v.append(("walkers-disagree", ""))
        return v

    def classify(self, cls, case, detail):
        if cls == "void-element-with-children":
            return "C11-void-element-with-children"
        return None

    def nontrivial_key(self, case, out):
        if case["k"] in (1, 2) and any(n[0] == "E" for n in case["forest"]):
            return repr((case["forest"], case["w"], case["k"], case["frag"]))
        if case["k"] in (0, 5):
            return repr(sorted(case.items(), key=str))
        return None

    def describe(self, case):
        return {k: v for k, v in case.items()}


PLUGIN = C11()
