"""C08 -- serializer output is lexically faithful or an error is reported.

k=0: HTMLSerializer.render (text output, no filters) vs the model Ser on walker streams x option combinations.
k=1: the property: a tree parsed from arbitrary markup is walked and serialized (omit_optional_tags off); either
     the serializer reports an error, or the output re-tokenized by S_tok (the WHATWG machine, steered by the
     element context known from the stream) gives back exactly the tags, attributes, text, comments, doctype."""
import json

import gen_markup
import trees
import tokens as T
from framework import Plugin

HTML = "http://www.w3.org/1999/xhtml"
RCDATA = {"title", "textarea"}
RAWTEXT = {"style", "xmp", "iframe", "noembed", "noframes"}
PREFIX = {"http://www.w3.org/1999/xlink": "xlink", "http://www.w3.org/XML/1998/namespace": "xml",
          "http://www.w3.org/2000/xmlns/": "xmlns"}

EXTRA_TEXT = ["a<b", "x&y", "&amp;", "1 < 2 > 0", "\"q\"", "'s'", "`", "a=b", "</p>", "</script>", "</title>",
              "<!--", "-->", "--", "->", "--!>", "-", "]]>", "<![CDATA[", "\r", "a\rb", "é", "\U0001F600", "&#38;",
              "&lt;", "&notit;", "&amp", "&#x3C;", "<", ">", "&", "\x0b", "\xa0", " ", "=", "/", " /", "a b",
              "<!--<script>", "<!-- <SCRIPT x", "<!--<script></script>-->", "<!-x", "<!",
              # the element's own end tag in another case, and other end tags, inside raw text
              "</SCRIPT>", "</Style >", "</XMP>x", "</sCRIPT", "</iframe\n>", "</b>", "a</STYLE>b", "</NOFRAMES>", "</Noembed>"]


def rnd_opts(rng):
    return {"quote_attr_values": rng.choice(["always", "spec", "legacy"]),
            "quote_char": rng.choice(['"', "'"]) if rng.random() < 0.5 else None,
            "minimize_boolean_attributes": rng.random() < 0.5,
            "use_trailing_solidus": rng.random() < 0.5,
            "space_before_trailing_solidus": rng.random() < 0.5,
            "escape_lt_in_attrs": rng.random() < 0.4,
            "escape_rcdata": rng.random() < 0.3,
            "resolve_entities": rng.random() < 0.5}


def mk_serializer(o):
    from html5lib.serializer import HTMLSerializer
    kw = dict(o)
    if kw.get("quote_char") is None:
        kw.pop("quote_char", None)
    return HTMLSerializer(omit_optional_tags=False, inject_meta_charset=False, **kw)


def enc_opts(o):
    qc = o.get("quote_char")
    return [{"always": 0, "spec": 1, "legacy": 2}[o["quote_attr_values"]], ord(qc) if qc else ord('"'),
            0 if qc else 1, int(o["minimize_boolean_attributes"]), int(o["use_trailing_solidus"]),
            int(o["space_before_trailing_solidus"]), int(o["escape_lt_in_attrs"]), int(o["escape_rcdata"]),
            int(o["resolve_entities"])]


def rnd_stream(rng):
    """a token stream as a walker could produce it (not necessarily from a parsed tree)"""
    out = []
    stack = []
    for _ in range(rng.randint(1, 10)):
        r = rng.random()
        closed = stack and stack[-1][1] in ("title", "textarea", "style", "script", "xmp", "noscript", "plaintext")
        if closed and not (0.3 <= r < 0.8):
            r = 0.6 if r > 0.5 else 0.4
        if r < 0.3:
            name = rng.choice(["p", "div", "a", "b", "title", "textarea", "style", "script", "xmp", "noscript", "svg",
                               "input", "br", "option", "td", "plaintext", "pre", "img", "select"])
            ns = rng.choice([HTML, HTML, HTML, "http://www.w3.org/2000/svg", None])
            attrs = []
            seen = set()
            for _ in range(rng.choice([0, 0, 1, 2, 3])):
                k = (rng.choice([None, None, None, "http://www.w3.org/1999/xlink"]),
                     rng.choice(["href", "class", "checked", "disabled", "selected", "title", "a", "irrelevant", "x:y"]))
                if k[1] in seen:
                    continue
                seen.add(k[1])
                attrs.append([[k[0], k[1]], rng.choice(EXTRA_TEXT + ["", "v", "checked", "a b", "x\"y'z", "'", "\""])])
            if name in ("input", "br", "img"):
                out.append({"type": "EmptyTag", "namespace": ns, "name": name, "data": attrs})
            else:
                out.append({"type": "StartTag", "namespace": ns, "name": name, "data": attrs})
                stack.append((ns, name))
        elif r < 0.5 and stack:
            ns, name = stack.pop()
            out.append({"type": "EndTag", "namespace": ns, "name": name})
        elif r < 0.8:
            if rng.random() < 0.25:
                out.append({"type": "SpaceCharacters", "data": rng.choice([" ", "\n", "\t ", "  ", "\x0c"])})
            else:
                out.append({"type": "Characters",
                            "data": rng.choice(EXTRA_TEXT + [" ", "\n", "text"]) + rng.choice(["", "", "x", "</"])})
        elif r < 0.87:
            out.append({"type": "Comment", "data": rng.choice(["c", "", "-", "--", "a--b", ">", "->", "x-", "--!>", "<!--"])})
        elif r < 0.93:
            name = rng.choice(["html", "HTML", "x", "html", None, ""])
            # a doctype without a name ('<!DOCTYPE>': name '' in etree, None in minidom) never has identifiers in a tree
            # html5lib builds: the tokenizer emits it at once
            out.append({"type": "Doctype", "name": name,
                        "publicId": rng.choice([None, "", "-//W3C//DTD HTML 4.01//EN", "a\"b"]) if name else rng.choice([None, ""]),
                        "systemId": rng.choice([None, "", "about:legacy-compat", "a\"b", "a'b", "a\"b'c"]) if name else rng.choice([None, ""])})
        elif r < 0.97:
            out.append({"type": "Entity", "name": rng.choice(["amp", "lt", "nbsp", "eacute", "quot", "apos", "notin", "bogus", "AMP"])})
        else:
            out.append({"type": "SerializeError", "data": "walker error"})
    while stack and rng.random() < 0.8:
        ns, name = stack.pop()
        out.append({"type": "EndTag", "namespace": ns, "name": name})
    return out


def guide_and_expected(stream, strip=False):
    """per tag token: (state switch, CDATA allowed afterwards); and the token list a faithful re-read gives"""
    guide = []
    exp = []
    stack = []            # namespaces of open elements

    def foreign():
        return bool(stack) and stack[-1] not in (HTML, None)

    for t in stream:
        ty = t["type"]
        if ty == "Doctype":
            exp.append([6, (t["name"] or "").lower(), t["publicId"] or "", t["systemId"] or ""])
        elif ty in ("Characters", "SpaceCharacters"):
            if t["data"]:
                if exp and exp[-1][0] == 1:
                    exp[-1][1] += t["data"]
                else:
                    exp.append([1, t["data"]])
        elif ty in ("StartTag", "EmptyTag"):
            ns, name = t["namespace"], t["name"]
            attrs = []
            for (ans, an), av in t["data"]:
                q = an if (ans is None or strip) else "%s:%s" % (PREFIX.get(ans, ans), an)
                attrs.append([q.lower(), av])
            # the self-closing flag means something only outside the HTML namespace: there a start tag written with
            # a solidus closes the element at once (None = not compared)
            # (a foreign StartTag must not come back self-closing; EmptyTag tokens are only produced for HTML void elements)
            exp.append([3, name.lower(), attrs, 0 if (ns not in (HTML, None) and ty == "StartTag") else None])
            sw = 0
            if ns in (HTML, None):
                if name in RCDATA:
                    sw = 1
                elif name in RAWTEXT:
                    sw = 2
                elif name == "script":
                    sw = 3
                elif name == "plaintext":
                    sw = 4
            if ty == "StartTag":
                stack.append(ns)
            guide.append([sw, int(foreign())])
        elif ty == "EndTag":
            exp.append([4, t["name"].lower()])
            if stack:
                stack.pop()
            guide.append([0, int(foreign())])
        elif ty == "Comment":
            exp.append([5, t["data"]])
        else:
            exp.append([9, ty])
    return guide, exp


def norm_retok(toks):
    """flattened S_tok tokens -> the comparison form"""
    import sexp
    out = []
    for t in toks:
        k = t[0]
        s = sexp.to_str
        if k == 1:
            if out and out[-1][0] == 1:
                out[-1][1] += s(t[1])
            else:
                out.append([1, s(t[1])])
        elif k == 3:
            out.append([3, s(t[1]), [[s(a), s(b)] for a, b in t[2]], int(t[3]) if len(t) > 3 else 0])
        elif k == 4:
            out.append([4, s(t[1])])
        elif k == 5:
            out.append([5, s(t[1])])
        elif k == 6:
            out.append([6, s(t[1]), s(t[2][0]) if t[2] else "", s(t[3][0]) if t[3] else ""])
        else:
            out.append([k])
    return out


class C08(Plugin):
    id = "C08"
    gen = ["Consts", "Entities", "Serializer", "Tokenizer"]
    n_quick = 3000
    n_thorough = 60000
    case_timeout = 30
    model_chunk = 2000
    rule = ("k=0: random walker-shaped streams (HTML/SVG/no namespace, raw-text and RCDATA elements, void elements, "
            "boolean attributes, namespaced attributes, values with quotes/&/</=/`/spaces/controls, comments with "
            "dashes, doctypes with quotes, entities, walker errors) x random option sets: Ser vs render, exact "
            "agreement incl. the error list; k=1: tag soup / nested markup incl. foreign content and raw-text "
            "elements, parsed (etree and dom), walked, serialized with random options, omit_optional_tags off; "
            "oracle: errors reported, or S_tok re-reads exactly the stream")
    trusted_base = ["coq/Model/Ser.v: hand model of HTMLSerializer.serialize's token loop (hash-pinned)",
                    "coq/Spec/TokSpec.v as the reference tokenizer; tools/props/c08.py:guide_and_expected "
                    "(which elements switch the tokenizer, how a faithful token looks)"]

    def cases(self, rng, n, tier):
        for i in range(n):
            if i % 2 == 0:
                yield {"k": 0, "opts": rnd_opts(rng), "stream": rnd_stream(rng)}
            else:
                m = gen_markup.document(rng, 10)
                if rng.random() < 0.5:
                    m = m + rng.choice(["<p>", "<div title='%s'>" % rng.choice(EXTRA_TEXT).replace("'", ""), "<svg><style>",
                                        "<textarea>", "<title>", "<script>", "<style>", "<xmp>", "<svg><title>",
                                        "<math><mi>", "<noscript>", "<iframe>", "<pre>", "<!--"]) \
                        + rng.choice(EXTRA_TEXT) + rng.choice(["", "</p>", "-->", "</svg>", "</script>"])
                yield {"k": 1, "opts": rnd_opts(rng), "markup": m, "tree": rng.choice(["etree", "dom"]),
                       "fragment": rng.random() < 0.3}

    def corpus(self):
        out = []
        base = {"quote_attr_values": "legacy", "quote_char": None, "minimize_boolean_attributes": True,
                "use_trailing_solidus": False, "space_before_trailing_solidus": True, "escape_lt_in_attrs": False,
                "escape_rcdata": False, "resolve_entities": True}
        for m in ["<!-->x-->", "<!--->x-->", "<!--x--!>", "<p title='a\"b'>", "<svg><a xlink:href=x>", "<svg><style>a<b</style>",
                  "<svg><title>a&amp;b</title>", "<noscript><p>x</noscript>", "<textarea>\n\nx</textarea>", "<pre>\n\nx</pre>",
                  "<!DOCTYPE html PUBLIC \"a'b\" 'c\"d'>", "<plaintext>a<b", "<script>a</scrıpt>", "<p>a&#13;b",
                  "<div a=\"\" b=' ' c=`>", "<title>&lt;/title></title>", "<style>&lt;/style>", "<math><annotation-xml encoding=text/html><style>x<y"]:
            for tb in ("etree", "dom"):
                out.append({"k": 1, "opts": base, "markup": m, "tree": tb, "fragment": False})
        # SVG/MathML elements that carry the NAME of a void or raw-text HTML element, with children, under both
        # solidus settings (the walkers emit StartTag for them; the serializer decides on the bare name)
        sol = dict(base, use_trailing_solidus=True)
        sol2 = dict(base, use_trailing_solidus=True, space_before_trailing_solidus=False, quote_attr_values="always")
        i = 0
        for root in ("svg", "math"):
            for nm in ("param", "input", "link", "col", "area", "base", "source", "track", "wbr", "command", "frame", "keygen"):
                for body in ("inner", "<g>x</g>y", ""):
                    m = "<%s><%s a=b>%s</%s>after</%s>" % (root, nm, body, nm, root)
                    for o in (base, sol, sol2):
                        out.append({"k": 1, "opts": o, "markup": m, "tree": "dom" if i % 2 else "etree", "fragment": i % 3 == 0,
                                    "reparse": True})
                        i += 1
        return out

    def known_witnesses(self):
        base = {"quote_attr_values": "legacy", "quote_char": None, "minimize_boolean_attributes": True,
                "use_trailing_solidus": False, "space_before_trailing_solidus": True, "escape_lt_in_attrs": False,
                "escape_rcdata": False, "resolve_entities": True}
        w = lambda m, **kw: {"k": 1, "opts": dict(base, **kw), "markup": m, "tree": "etree", "fragment": True}
        return {"C08-namespaced-attribute-prefix-dropped": w("<svg><a xlink:href=x>"),
                "C08-carriage-return-not-escaped": w("<p>a&#13;b"),
                "C08-boolean-attribute-value-dropped": w("<input disabled=foo>"),
                "C08-plaintext-element": w("<plaintext>a<b"),
                "C08-escape-rcdata-option": w("<script>a<b</script>", escape_rcdata=True),
                "C08-noscript-raw-text": w("<noscript>&lt;b&gt;</noscript>"),
                "C08-foreign-raw-text-element": w("<svg><style>a&lt;b</style></svg>"),
                "C08-script-comment-like-text": w("<script><!--<script>")}

    def encode(self, case):
        return [0, enc_opts(case["opts"]), T.enc_tokens([T.from_json(t) for t in self.stream_of(case)])]

    def stream_of(self, case):
        if case["k"] == 0:
            return case["stream"]
        import html5lib
        p = html5lib.HTMLParser(tree=html5lib.getTreeBuilder(case["tree"]))
        doc = p.parseFragment(case["markup"]) if case["fragment"] else p.parse(case["markup"])
        return [T.to_json(t) for t in html5lib.getTreeWalker(case["tree"])(doc)]

    def impl(self, case):
        stream = self.stream_of(case)
        s = mk_serializer(case["opts"])
        try:
            txt = s.render([T.from_json(t) for t in stream])
        except KeyError:
            return [1]
        if case.get("reparse") and not s.errors:
            # these corpus shapes must also survive a re-parse: the tree of the output equals the tree that was written
            import html5lib
            from html5lib.serializer import HTMLSerializer

            def dump(src):
                p = html5lib.HTMLParser(tree=html5lib.getTreeBuilder("dom"))
                d = p.parseFragment(src) if case["fragment"] else p.parse(src)
                return repr(trees.sort_attrs(trees.coalesce(trees.dom_forest(d))))      # direct traversal, no walker
            self._reparse = (dump(case["markup"]), dump(txt))
        else:
            self._reparse = None
        return [0, txt, list(s.errors)]

    def oracle(self, case, out):
        r = getattr(self, "_reparse", None)
        if r is not None and r[0] != r[1]:
            return [("reparse-tree-differs", "written from %r, read back as %r" % r)]
        return []

    def batch_oracle(self, cases, results, run_model):
        import sexp
        idx, inputs, exps = [], [], []
        for i, c in enumerate(cases):
            if results[i][0] is None:
                continue
            r = sexp.loads(results[i][0])
            if r[0] != 0:
                continue
            txt = sexp.to_str(r[1])
            errs = r[2]
            stream = self.stream_of(c)
            if errs:
                continue                       # an error was reported: the property is satisfied
            if any(t["type"] in ("Entity", "SerializeError") for t in stream):
                continue
            guide, exp = guide_and_expected(stream)
            idx.append(i)
            inputs.append([1, guide, txt.replace("\r\n", "\n").replace("\r", "\n")])
            exps.append((exp, txt, stream))
        outs = run_model(inputs)
        v = []
        for i, o, (exp, txt, stream) in zip(idx, outs, exps):
            r = sexp.loads(o)
            if len(r) != 2 or r[0] != 0:
                v.append((cases[i], "retokenizer-failed", o[:200], txt))
                continue
            got = norm_retok(r[1])
            for g, e in zip(got, exp):
                if g[0] == 3 and e[0] == 3 and e[3] is None:
                    g[3] = None
            if got != exp:
                v.append((cases[i], self.diff_class(stream, exp, got, txt, cases[i]["opts"]),
                          "serialized: %r\nexpected tokens: %r\nre-read tokens:  %r" % (txt, exp[:40], got[:40]), txt))
        return v

    def diff_class(self, stream, exp, got, txt, opts=None):
        """name the known ways the serializer cannot be faithful; anything else is 'reread-differs'"""
        from html5lib.constants import booleanAttributes, rcdataElements
        opts = opts or {}

        exp_stripped = []
        for t in guide_and_expected(stream, strip=True)[1]:
            if t[0] == 3:          # two attributes that now share a name: the tokenizer keeps the first
                seen, attrs = set(), []
                for k, v in t[2]:
                    if k not in seen:
                        seen.add(k)
                        attrs.append([k, v])
                t = [3, t[1], attrs] + t[3:]
            exp_stripped.append(t)

        def relax(toks, strip_prefix=False, bool_values=False, cr=False):
            if strip_prefix:
                toks = exp_stripped
            out = []
            for t in toks:
                if t[0] == 3:
                    attrs = []
                    for k, v in t[2]:
                        if bool_values and (k in booleanAttributes.get(t[1], ()) or k in booleanAttributes.get("", ())):
                            v = ""
                        if cr:
                            v = v.replace("\r\n", "\n").replace("\r", "\n")
                        attrs.append([k, v])
                    out.append([3, t[1], attrs] + t[3:])
                elif t[0] == 1 and cr:
                    out.append([1, t[1].replace("\r\n", "\n").replace("\r", "\n")])
                else:
                    out.append(t)
            return out
        import itertools
        kinds = [("carriage-return-not-escaped", {"cr": True}),
                 ("namespaced-attribute-prefix-dropped", {"strip_prefix": True}),
                 ("boolean-attribute-value-dropped", {"bool_values": True})]
        if not opts.get("minimize_boolean_attributes"):
            kinds = kinds[:2]
        for n in (1, 2, 3):
            for combo in itertools.combinations(kinds, n):
                kw = {}
                for _, k in combo:
                    kw.update(k)
                if relax(exp, **kw) == relax(got, **{k: v for k, v in kw.items() if k != "strip_prefix"}):
                    return combo[0][0]
        names = [t["name"] for t in stream if t["type"] == "StartTag" and t["namespace"] in (HTML, None)]
        st = []
        for t in stream:
            if t["type"] == "StartTag":
                st.append((t["namespace"], t["name"]))
            elif t["type"] == "EndTag" and st:
                st.pop()
            elif t["type"] == "Characters" and st and st[-1][1] in rcdataElements and \
                    ("<" in t["data"] or "&" in t["data"]) and not opts.get("escape_rcdata"):
                if st[-1][0] not in (HTML, None):
                    return "foreign-raw-text-element"
                if st[-1][1] == "noscript":
                    return "noscript-raw-text"
        # the text of an HTML script element that enters the double-escaped state ("<!--" ... "<script"): the end tag the
        # serializer writes after it does not end the element
        st, acc = [], None
        for t in stream:
            if t["type"] == "StartTag":
                st.append((t["namespace"], t["name"]))
                if st[-1] in ((HTML, "script"), (None, "script")) and len([x for x in st if x[1] == "script"]) == 1:
                    acc = ""
            elif t["type"] == "EndTag" and st:
                if acc is not None and st[-1][1] == "script":
                    low = acc.lower()
                    i = low.find("<!--")
                    if i >= 0 and "<script" in low[i:]:
                        return "script-comment-like-text"
                    acc = None
                st.pop()
            elif t["type"] in ("Characters", "SpaceCharacters") and acc is not None:
                acc += t["data"]
        if "plaintext" in names:
            return "plaintext-element"
        if opts.get("escape_rcdata") and any(n in rcdataElements for n in names):
            return "escape-rcdata-option"
        return "reread-differs"

    def classify(self, cls, case, detail):
        return {"namespaced-attribute-prefix-dropped": "C08-namespaced-attribute-prefix-dropped",
                "carriage-return-not-escaped": "C08-carriage-return-not-escaped",
                "boolean-attribute-value-dropped": "C08-boolean-attribute-value-dropped",
                "plaintext-element": "C08-plaintext-element",
                "escape-rcdata-option": "C08-escape-rcdata-option",
                "noscript-raw-text": "C08-noscript-raw-text",
                "foreign-raw-text-element": "C08-foreign-raw-text-element",
                "script-comment-like-text": "C08-script-comment-like-text"}.get(cls)

    def nontrivial_key(self, case, out):
        if out and out[0] == 0 and len(out[1]) > 8:
            return json.dumps(case, sort_keys=True)[:400]
        return None

    def describe(self, case):
        return case


PLUGIN = C08()
