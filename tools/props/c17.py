"""C17 -- whitespace filter: correspondence of Model/C17.v and the property evaluated on the real filter."""
from framework import Plugin
from tokens import enc_tokens, from_json, walk

WS = "\t\n\x0c\r "
TEXT = ["a", "b", "x", "é", " ", " ", "　", "\x0b", "\x1f", "\U0001f600"] + list(WS) * 3
NAMES = ["pre", "textarea", "script", "style", "xmp", "iframe", "noembed", "noframes", "noscript", "p", "div",
         "b", "svg", "PRE", "pre ", "title", "plaintext", "listing", ""]
MARKUP = ["<pre>", "</pre>", "<textarea>", "</textarea>", "<p>", "</p>", "<b>", "</b>", "<div>", "<svg>", "<style>",
          "</style>", "<script>", "</script>", "<table>", "<td>", "&#32;", "&#9;", "&nbsp;", "<br>", "<!--c-->",
          "<title>", "</title>"]


def rtext(rng, n):
    return "".join(rng.choice(TEXT) for _ in range(n))


def is_ws(c):
    return c in WS


class C17(Plugin):
    id = "C17"
    gen = ["Whitespace", "Consts"]
    n_quick = 5000
    n_thorough = 200000
    rule = ("70% random token streams (balanced and unbalanced preserve/other elements, all five whitespace "
            "characters, non-ASCII spaces, EmptyTags, empty texts), 30% walker streams (etree and dom) of parsed "
            "random markup incl. character references that split text nodes; non-trivial = distinct stream "
            "containing a text token with whitespace")
    trusted_base = ["re.sub('[\\t\\n\\x0c\\r ]+', ' ', s) modelled by a one-pass scanner (pattern shape and class "
                    "checked by the translator; behaviour by correspondence)"]

    def known_witnesses(self):
        return {"C17-run-split-across-text-tokens":
                {"toks": walk("a &#32; b", "dom", True), "src": "a &#32; b (dom, fragment)"}}

    def cases(self, rng, n, tier):
        for i in range(n):
            if rng.random() < 0.7:
                toks = []
                for _ in range(rng.randint(1, 10)):
                    r = rng.random()
                    if r < 0.25:
                        toks.append({"type": "StartTag", "namespace": rng.choice([None, "http://www.w3.org/1999/xhtml",
                                                                                  "http://www.w3.org/2000/svg"]),
                                     "name": rng.choice(NAMES), "data": []})
                    elif r < 0.45:
                        toks.append({"type": "EndTag", "namespace": None, "name": rng.choice(NAMES)})
                    elif r < 0.5:
                        toks.append({"type": "EmptyTag", "namespace": None, "name": rng.choice(NAMES + ["br"]),
                                     "data": []})
                    elif r < 0.8:
                        toks.append({"type": "Characters", "data": rtext(rng, rng.randint(0, 8))})
                    elif r < 0.92:
                        toks.append({"type": "SpaceCharacters",
                                     "data": "".join(rng.choice(WS) for _ in range(rng.randint(0, 3)))})
                    elif r < 0.96:
                        toks.append({"type": "Comment", "data": rtext(rng, 3)})
                    else:
                        toks.append({"type": "Doctype", "name": "html", "publicId": None, "systemId": None})
                yield {"toks": toks}
            else:
                src = "".join(rng.choice(MARKUP) if rng.random() < 0.4 else rtext(rng, rng.randint(1, 4))
                              for _ in range(rng.randint(1, 8)))
                tree = rng.choice(["etree", "dom"])
                yield {"toks": walk(src, tree, rng.random() < 0.5), "src": src + " (%s)" % tree}

    def encode(self, case):
        return enc_tokens([from_json(t) for t in case["toks"]])

    def impl(self, case):
        from html5lib.filters.whitespace import Filter
        f = Filter([from_json(t) for t in case["toks"]])
        first = enc_tokens(list(f))
        self._second_same = enc_tokens(list(f)) == first      # iterating the same filter again gives the same stream
        return first

    def oracle(self, case, out):
        from html5lib.constants import rcdataElements
        preserve_names = {"pre", "textarea"} | set(rcdataElements)
        tin = enc_tokens([from_json(t) for t in case["toks"]])
        if not getattr(self, "_second_same", True):
            return [("second-iteration-differs", "")]
        if len(tin) != len(out):
            return [("token-count", "")]
        v = []
        stack = []          # open element names; "inside pre/textarea/raw-text" = some open ancestor in the set
        run = ""            # output text since the last non-text token, outside preserve regions
        boundary = []
        for a, b in zip(tin, out):
            inside = any(n in preserve_names for n in stack)
            if a[0] in (1, 2):
                if b[0] != a[0]:
                    v.append(("text-kind-changed", ""))
                    continue
                if [c for c in a[1] if not is_ws(c)] != [c for c in b[1] if not is_ws(c)]:
                    # (also when the walker has put a non-ASCII space into a SpaceCharacters token:
                    # on streams from parsed input every non-whitespace character must survive)
                    v.append(("non-whitespace-altered", repr((a[1], b[1]))))
                if inside:
                    if a != b:
                        v.append(("text-altered-inside-preserve", repr((a[1], b[1]))))
                else:
                    boundary.append(len(run))
                    run += b[1]
            else:
                if a != b:
                    v.append(("non-text-token-altered", repr((a, b))))
                v.extend(self._check_run(run, boundary))
                run, boundary = "", []
                if a[0] == 3:
                    stack.append(a[2])
                elif a[0] == 4 and stack:
                    stack.pop()
        v.extend(self._check_run(run, boundary))
        return v

    @staticmethod
    def _check_run(run, boundary):
        v = []
        for i, c in enumerate(run):
            if is_ws(c) and c != " ":
                v.append(("whitespace-not-u0020", repr(run)))
                break
        for i in range(1, len(run)):
            if is_ws(run[i]) and is_ws(run[i - 1]):
                cls = "run-split-across-text-tokens" if i in boundary else "run-not-collapsed-inside-token"
                v.append((cls, repr(run)))
                break
        return v

    def classify(self, cls, case, detail):
        if cls == "run-split-across-text-tokens":
            return "C17-run-split-across-text-tokens"
        return None

    def nontrivial_key(self, case, out):
        if any(t["type"] in ("Characters", "SpaceCharacters") and any(is_ws(c) for c in t["data"])
               for t in case["toks"]):
            return repr(case["toks"])
        return None

    def describe(self, case):
        return {"src": case.get("src"), "toks": case["toks"]}


PLUGIN = C17()
