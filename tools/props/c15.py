"""C15 -- inject_meta_charset model correspondence + end-to-end: encoded serializations declare their encoding and
decode to the same tree."""
from framework import Plugin
from tokens import enc_tokens, from_json, to_json
import trees
import gen_markup

HTML = "http://www.w3.org/1999/xhtml"
HEADS = ["", "<head>", "<head></head>", "<head><title>t</title>", "<head><meta charset=x>", "<head><meta charset=x><meta charset=y>",
         "<head><meta http-equiv=content-type content='text/html; charset=x'>", "<head><meta content='text/html; charset=x' http-equiv=Content-Type>",
         "<head><meta name=a content=b>", "<head><meta http-equiv=refresh content=1>", "<head><title>é€𝔄</title><link>",
         "<title>" + "x" * 1100 + "</title><meta charset=koi8-r>", "<head><meta CHARSET=x>", "<svg><head></head></svg>",
         "<head><meta http-equiv=content-type>", "<head><script>var a='<meta charset=x>'</script>"] + \
        ["<head><title>t</title><style>" + "p{color:red} " * 110 + "</style><meta http-equiv=%s content='text/html; charset=iso-8859-1'>" % h
         for h in ("Content-Type", "CONTENT-TYPE", "content-type", "cOnTeNt-TyPe")] + \
        ["<head><meta http-equiv=Content-Type content='text/html; charset=utf-8'><meta name=description content='Café 𝔸 &amp; more'>"
         "<title>tête</title><meta name=viewport content='width=device-width'>",
         "<head><meta charset=x><meta name=a content=b><meta http-equiv=refresh content=1><meta property=og:title content=c>",
         "<head><meta content='text/html; charset=x' http-equiv=content-type><meta name=keywords content='é, ü'><link rel=x>"] + \
        ["<head><title>" + "y" * 1200 + "</title><meta content='text/html; charset=x' http-equiv=%s>" % h for h in ("Content-Type", "CONTENT-type")]
BODIES = ["<p>é€𝔄 text", "<p a='é€'>x", "plain", "<p>\x85\x9f", "<table><td>☃", "<!--é-->", "",
          # characters whose entity name is stored without ";" (upper-case Latin-1 letters), followed by what decides
          # whether an unterminated reference is decoded: a letter, a digit, "=", ";" -- in text and in attribute values
          "<p title='Écran É; À=1 Ö2 Ñ-x'>Écran É; À=1 Ö2", "<p title='MENÚ2 qÑ=1 ÆÇÐÞÝ'>ÆÇÐÞÝx;", "<a href='?É=1&Àb=2'>Øre</a>",
          "<p title='Привет É'>Привет, мир Ü;", "<p>ÁÂÃÄÅÈÊËÌÍÎÏÒÓÔÕÙÛÜ;x"]


def tok(rng):
    r = rng.random()
    ns = rng.choice([HTML, None])
    if r < 0.18:
        return {"type": "StartTag", "namespace": ns, "name": rng.choice(["head", "HEAD", "html", "title", "body", "Head"]), "data": []}
    if r < 0.36:
        return {"type": "EndTag", "namespace": ns, "name": rng.choice(["head", "HEAD", "html", "title", "body"])}
    if r < 0.75:
        name = rng.choice(["meta", "meta", "META", "link", "head", "br"])
        attrs = []
        for k in rng.sample([[None, "charset"], [None, "CHARSET"], [None, "http-equiv"], [None, "content"], [None, "name"],
                             ["http://www.w3.org/1999/xlink", "charset"], [None, "Http-Equiv"]], rng.randint(0, 4)):
            v = rng.choice(["utf-8", "Content-Type", "content-type", "text/html; charset=x", "x", ""])
            attrs.append([k, v])
        return {"type": "EmptyTag", "namespace": ns, "name": name, "data": attrs}
    if r < 0.9:
        return {"type": "Characters", "data": "x"}
    return {"type": "Comment", "data": "c"}


class C15(Plugin):
    id = "C15"
    gen = []
    n_quick = 3000
    n_thorough = 100000
    case_timeout = 60
    rule = ("50% random token streams (head/meta/other tags in any order and case, metas with charset / http-equiv / "
            "content / namespaced attributes in every order, unclosed and repeated heads) x encoding against the model; "
            "50% documents (heads with zero/one/several declarations at any position, long content before the "
            "declaration, non-ASCII and astral text/attributes, C1 controls) serialized with every codec of "
            "webencodings.LABELS x optional-tag omission on/off, decoded again with no hints; non-trivial = distinct case")
    trusted_base = ["codecs (encoders/decoders as opaque functions)"]

    def known_witnesses(self):
        return {"C15-non-ascii-compatible-encoding": {"k": 1, "src": "<head><title>é</title></head><p>x", "enc": "utf-16le", "omit": False},
                "C15-unencodable-in-rawtext-element": {"k": 1, "src": "<style>😀</style>", "enc": "windows-1257", "omit": False},
                "C15-unencodable-c1-control": {"k": 1, "src": "<p>a\x85b", "enc": "us-ascii", "omit": False},
                "C15-label-codec-mismatch": {"k": 1, "src": "<p>Привет", "enc": "big5", "omit": False}}

    def cases(self, rng, n, tier):
        import webencodings
        codecs_ = sorted(set(webencodings.LABELS.values()))
        for _ in range(n):
            if rng.random() < 0.5:
                yield {"k": 0, "enc": rng.choice(["utf-8", "koi8-r", "é", ""]), "toks": [tok(rng) for _ in range(rng.randint(1, 9))]}
            else:
                src = rng.choice(HEADS) + rng.choice(BODIES)
                if rng.random() < 0.2:
                    src = gen_markup.document(rng, 8)
                yield {"k": 1, "src": src, "enc": rng.choice(codecs_), "omit": rng.random() < 0.5}

    def encode(self, case):
        if case["k"] == 0:
            return [case["enc"], enc_tokens([from_json(t) for t in case["toks"]])]
        return None

    def impl(self, case):
        import html5lib
        if case["k"] == 0:
            from html5lib.filters.inject_meta_charset import Filter
            f = Filter([from_json(t) for t in case["toks"]], case["enc"])
            out = list(f)
            for t in out:
                t.setdefault("namespace", None)
            first = enc_tokens(out)
            # the same filter object iterated again (its source now holds the rewritten metas): the same stream
            again = list(f)
            for t in again:
                t.setdefault("namespace", None)
            self._second_same = enc_tokens(again) == first
            return first
        from html5lib.serializer import HTMLSerializer
        doc = html5lib.parse(case["src"], treebuilder="dom")
        walker = html5lib.getTreeWalker("dom")
        s = HTMLSerializer(omit_optional_tags=case["omit"])
        try:
            b = b"".join(s.serialize(walker(doc), encoding=case["enc"]))
        except (LookupError, UnicodeError) as e:
            return ["encode-error", type(e).__name__]
        text = "".join(HTMLSerializer(omit_optional_tags=case["omit"]).serialize(walker(doc)))
        p = html5lib.HTMLParser(tree=html5lib.getTreeBuilder("dom"))
        d2 = p.parse(b, useChardet=False)
        ref = html5lib.parse(text, treebuilder="dom")
        enc2 = p.documentEncoding
        t2 = trees.sort_attrs(trees.coalesce(trees.dom_forest(d2)))
        tr = trees.sort_attrs(trees.coalesce(trees.dom_forest(ref)))

        def mask(f):
            """encoding declarations (a charset attribute, or content next to http-equiv=content-type) have their value
            masked; every other element -- ordinary meta elements included -- is compared as it is"""
            out = []
            for n in f:
                if n[0] == "E":
                    attrs = n[3]
                    if n[2] == "meta":
                        d = {(tuple(k) if isinstance(k, list) else k): v for k, v in attrs}
                        names = [k[1] for k in d if k[0] is None]
                        if "charset" in names:
                            attrs = [[k, "*" if (k[0] is None and k[1] == "charset") else v] for k, v in attrs]
                        elif any(k == (None, "http-equiv") and v.lower() == "content-type" for k, v in d.items()) and "content" in names:
                            attrs = [[k, "*" if (k[0] is None and k[1] == "content") else v] for k, v in attrs]
                    out.append(["E", n[1], n[2], attrs, mask(n[4])])
                else:
                    out.append(n)
            return out

        def uninject(f):
            """without the declaration the filter adds when it found none: the first child of head, charset only"""
            out = []
            for n in f:
                if n[0] == "E":
                    kids = n[4]
                    if n[2] == "head" and kids and kids[0][0] == "E" and kids[0][2] == "meta" and \
                            [k[1] for k, _ in kids[0][3]] == ["charset"] and not kids[0][4]:
                        out.append(["E", n[1], n[2], n[3], kids[1:]])
                        continue
                    out.append(["E", n[1], n[2], n[3], uninject(kids)])
                else:
                    out.append(n)
            return out
        m2, mr = mask(t2), mask(tr)
        same = m2 == mr or uninject(m2) == mr
        return [enc2, same, b[:120].decode("latin-1")]

    def oracle(self, case, out):
        if case["k"] == 0 and not getattr(self, "_second_same", True):
            return [("second-iteration-differs", "")]
        if case["k"] != 1 or out[0] == "encode-error":
            return []
        import webencodings
        v = []
        want = webencodings.lookup(case["enc"]).name
        bad_c1 = any(0x80 <= ord(c) <= 0x9F or ord(c) in (0, 13) for c in case["src"])
        noncompat = want.startswith("utf-16") or want in ("replacement", "x-user-defined", "iso-2022-jp")
        if out[0] != want:
            v.append(("non-ascii-compatible-encoding" if noncompat else "encoding-not-declared-or-not-found", repr((case, out[0]))))
        elif not out[1]:
            if noncompat:
                v.append(("non-ascii-compatible-encoding", repr(case)))
            elif bad_c1:
                v.append(("unencodable-c1-control-roundtrip", repr(case)))
            elif self._rawtext_unencodable(case):
                v.append(("unencodable-in-rawtext-element", repr(case)))
            elif self._label_codec_mismatch(case):
                v.append(("label-codec-mismatch", repr(case)))
            else:
                v.append(("decoded-tree-differs", repr((case, out[2]))))
        return v

    @staticmethod
    def _label_codec_mismatch(case):
        """the serializer encodes with PYTHON's codec of that name, the parser decodes with the codec the label means
        in HTML (webencodings): do the two disagree on some character of this document?"""
        import codecs
        import webencodings
        try:
            py = codecs.lookup(case["enc"])
            web = webencodings.lookup(case["enc"]).codec_info
        except LookupError:
            return False
        if py.name == web.name:
            return False
        for ch in set(case["src"]):
            try:
                if web.decode(py.encode(ch)[0])[0] != ch:
                    return True
            except UnicodeError:
                continue
        return False

    @staticmethod
    def _rawtext_unencodable(case):
        """the document has a raw-text element (no character references there) whose text the encoding cannot express"""
        import html5lib
        doc = html5lib.parse(case["src"], treebuilder="dom")
        raw = ("script", "style", "xmp", "iframe", "noembed", "noframes", "noscript", "plaintext")

        def walk(n):
            for c in n.childNodes:
                if c.nodeType == c.ELEMENT_NODE:
                    if c.nodeName in raw:
                        txt = "".join(t.nodeValue for t in c.childNodes if t.nodeType == t.TEXT_NODE)
                        try:
                            txt.encode(case["enc"])
                        except (UnicodeError, LookupError):
                            return True
                    if walk(c):
                        return True
            return False
        return walk(doc)

    def classify(self, cls, case, detail):
        if cls == "unencodable-in-rawtext-element":
            return "C15-unencodable-in-rawtext-element"
        if cls == "unencodable-c1-control-roundtrip":
            return "C15-unencodable-c1-control"
        if cls == "label-codec-mismatch":
            return "C15-label-codec-mismatch"
        if cls == "non-ascii-compatible-encoding":
            return "C15-non-ascii-compatible-encoding"
        return None

    def nontrivial_key(self, case, out):
        return repr(sorted(case.items(), key=str))


PLUGIN = C15()
