"""C10 -- sanitized markup stays safe when it is parsed again.

k=0: the pipeline model Ser . San (Model/C10.v) vs HTMLSerializer(sanitize=True).render on walker streams.
k=1: the property: markup -> parseFragment -> serialize(sanitize=True, options) -> parse again (document, and
     fragment in several contexts, scripting on/off) -> every element, attribute, URL of the result passes the
     sanitizer's allow-lists, there is no comment, and every element stems from a tag the sanitizer let through."""
import json
import re
import warnings

import gen_markup
import tokens as T
from framework import Plugin
from props.c09 import browser_scheme
from props.c08 import rnd_opts, enc_opts

HTML = "http://www.w3.org/1999/xhtml"
SVG = "http://www.w3.org/2000/svg"
MATHML = "http://www.w3.org/1998/Math/MathML"

MXSS = ["<svg>", "</svg>", "<math>", "</math>", "<foreignObject>", "<desc>", "<title>", "<mi>", "<mtext>", "<annotation-xml encoding=text/html>",
        "<style>", "</style>", "<script>", "</script>", "<noscript>", "</noscript>", "<textarea>", "</textarea>", "<xmp>", "<iframe>",
        "<table>", "<tr>", "<td>", "</table>", "<select>", "<option>", "</select>", "<form>", "</form>", "<button>", "<p>", "</p>",
        "<a href=javascript:alert(1)>", "<a href='jav&#x09;ascript:x'>", "<img src=x onerror=alert(1)>", "<img src='data:text/html,x'>",
        "<b title='</b><script>'>", "<b title=\"--><img src=x onerror=y>\">", "<!--", "-->", "--!>", "<!--><img src=x onerror=y>",
        "<![CDATA[", "]]>", "&lt;script&gt;", "&lt;/style&gt;", "&lt;img src=x onerror=y&gt;", "<plaintext>", "<listing>", "<pre>",
        "<template>", "<frameset>", "<body onload=x>", "<html xmlns:x=y>", "<base href=javascript:x>", "<object data=x>",
        "<embed src=x>", "<use xlink:href='javascript:x'>", "<a xlink:href=javascript:x>", "<set attributeName=href to=javascript:x>",
        "<font color=red>", "<div style='x:expression(y)'>", "<br>", "<hr>", "x", " ", "\n", "&", "<", ">", "\"", "'", "`", "=",
        "<b>", "</b>", "<i>", "</i>", "<nobr>", "<a>", "</a>", "<em>", "<caption>", "<col>", "<optgroup>", "<rt>", "<li>", "<dd>",
        "</br>", "</div>", "</td>", "</tr>", "</select>", "</body>", "</html>", "</h1>", "</li>", "</title>", "<g>", "</g>", "</desc>",
        "</foreignObject>", "</mi>", "</annotation-xml>", "<html>", "<tbody>", "<colgroup>"] + \
       ["<a href=\"javascript&amp;colon;alert(1)\">", "<a href=\"java&amp;Tab;script:alert(1)\">", "<p title='AT&amp;amp;T'>",
        "<b class=&amp;copy>", "<a href=&amp;#106;avascript:x>", "<a href=\"h://]\" ping=\"javascript:alert(1)\">",
        "<a ping=\"h://]\" href=\"javascript:alert(1)\">", "<img src=\"//[::1\" longdesc=\"javascript:x\">",
        "<a href=\"http://[x\" xlink:href=\"javascript:y\">", "<form action=\"//]\"><button formaction=\"javascript:z\">"] + \
       ["<a title=\"</%s><img src=x onerror=alert(1)>\">" % r for r in
        ("title", "style", "textarea", "xmp", "iframe", "noscript", "noembed", "noframes", "script", "plaintext")]
RAWLIKE = ["title", "style", "textarea", "xmp", "iframe", "noscript", "noembed", "noframes", "script", "listing", "plaintext"]
CLOSERS = ["p", "br", "div", "span", "b", "a", "table", "tr", "td", "select", "option", "body", "html", "head", "h1", "li", "dd", "form",
           "button", "template", "svg", "math", "g", "desc", "title", "foreignObject", "mi", "mtext", "annotation-xml", "font", "nobr",
           "applet", "marquee", "object", "caption", "colgroup", "tbody", "frameset", "style", "script", "textarea"]
CONTEXTS = [None, "div", "td", "select", "svg", "math", "title", "textarea", "table", "template", "noscript", "style"]


def walk_dom(node, out):
    from xml.dom import Node
    for c in node.childNodes:
        if c.nodeType == Node.ELEMENT_NODE:
            attrs = []
            for k in list(c.attributes.keys()):
                a = c.getAttributeNode(k)
                attrs.append(((a.namespaceURI or None, a.localName if a.namespaceURI else a.name), a.value))
            out.append(("E", c.namespaceURI, c.localName or c.nodeName, attrs))
            walk_dom(c, out)
        elif c.nodeType == Node.COMMENT_NODE:
            out.append(("C", c.nodeValue))
    return out


class C10(Plugin):
    id = "C10"
    gen = ["Consts", "Entities", "Serializer", "Sanitizer", "Sax"]
    n_quick = 2500
    n_thorough = 80000
    case_timeout = 30
    model_chunk = 1500
    rule = ("k=0: walker streams of parsed mutation-XSS-shaped markup x serializer options: Ser . San vs "
            "HTMLSerializer(sanitize=True).render; k=1: the same markup (raw-text elements, foreign content with "
            "integration points, tables, select, noscript, comments, forbidden URLs and handlers, entity-encoded "
            "markup) -> parseFragment -> serialize(sanitize=True) -> re-parse as document and as fragment in 11 "
            "contexts, scripting on/off; oracle: allow-lists on the re-parsed tree + provenance of every element")
    trusted_base = ["tools/props/c09.py:browser_scheme (URL standard's scheme parser)",
                    "html5lib's own parser as the second reader"]

    def markup(self, rng):
        parts = []
        for _ in range(rng.randint(1, 9)):
            parts.append(rng.choice(MXSS) if rng.random() < 0.8 else gen_markup.soup(rng, rng.randint(1, 3)))
        return "".join(parts)

    def cases(self, rng, n, tier):
        for i in range(n):
            o = rnd_opts(rng)
            o["escape_rcdata"] = rng.random() < 0.1
            yield {"k": i % 2, "opts": o, "markup": self.markup(rng), "tree": rng.choice(["etree", "dom"]),
                   "omit": rng.random() < 0.5, "ctx": rng.choice(CONTEXTS), "scripting": rng.random() < 0.3}

    def corpus(self):
        base = {"quote_attr_values": "legacy", "quote_char": None, "minimize_boolean_attributes": True,
                "use_trailing_solidus": False, "space_before_trailing_solidus": True, "escape_lt_in_attrs": False,
                "escape_rcdata": False, "resolve_entities": True}
        out = []
        for m in ["<button><svg><foreignObject><form><input name=x></form>", "<math> </p><mtext><b>x", "<svg><desc><b>x</b></desc>",
                  "<noscript>&lt;img src=x onerror=y&gt;</noscript>", "<svg><style>&lt;img src=x onerror=y&gt;</style>",
                  "<textarea>&lt;/textarea&gt;&lt;script&gt;</textarea>", "<a href='java\tscript:x'>y</a>", "<!--><script>x</script>-->",
                  "<table><b><tr><td>x</td></tr></b></table>", "<select><option><svg><script>x", "<p title='&#34;&gt;&lt;script&gt;'>",
                  "<listing>&lt;script&gt;</listing>", "<svg><title><b onclick=x>y"]:
            for ctx in (None, "div", "svg", "select"):
                out.append({"k": 1, "opts": base, "markup": m, "tree": "dom", "omit": True, "ctx": ctx, "scripting": False})
                out.append({"k": 0, "opts": base, "markup": m, "tree": "etree", "omit": False, "ctx": None, "scripting": False})
        # the same local name in two namespaces with different verdicts, in one document, in both orders
        for n in ("title", "audio", "video", "desc", "text", "a", "font", "image", "mi", "set", "style", "script", "switch", "details"):
            for m in ("<svg><%s>x</%s></svg><%s>y</%s>" % (n, n, n, n), "<%s>y</%s><svg><%s>x</%s></svg>" % (n, n, n, n),
                      "<math><%s>x</%s></math><div><%s>y</%s></div>" % (n, n, n, n), "<div><%s>y</%s></div><math><%s>x</%s></math>" % (n, n, n, n)):
                out.append({"k": 1, "opts": base, "markup": m, "tree": "dom", "omit": False, "ctx": "div", "scripting": False})
                out.append({"k": 1, "opts": base, "markup": m, "tree": "etree", "omit": True, "ctx": None, "scripting": False})
        # trees that cannot be written back: an end tag inside foreign content, then a raw-text-like element whose
        # attribute value carries markup (if the end tag misplaces an HTML element, the re-parse reads that markup)
        i = 0
        for root in ("<svg>", "<math>", "<svg><g>", "<math><mi>", "<svg><desc>", "<table><svg>", "<select><svg>", "<svg><title>"):
            for cl in CLOSERS:
                r = RAWLIKE[i % len(RAWLIKE)]
                i += 1
                m = "%s</%s><%s><a title=\"</%s><img src=x onerror=alert(1)>\">" % (root, cl, r, r)
                out.append({"k": 1, "opts": base, "markup": m, "tree": "etree" if i % 2 else "dom", "omit": bool(i % 3), "ctx": None,
                            "scripting": False})
                out.append({"k": 1, "opts": base, "markup": m, "tree": "dom", "omit": False, "ctx": "div", "scripting": i % 4 == 0})
        return out

    def known_witnesses(self):
        base = {"quote_attr_values": "legacy", "quote_char": None, "minimize_boolean_attributes": True,
                "use_trailing_solidus": False, "space_before_trailing_solidus": True, "escape_lt_in_attrs": False,
                "escape_rcdata": False, "resolve_entities": True}
        return {"C10-allowed-tag-changes-namespace":
                {"k": 1, "opts": base, "markup": "<button><svg><foreignObject><form><input name=x></form>", "tree": "dom",
                 "omit": False, "ctx": "div", "scripting": False}}

    # ------------------------------------------------------------------
    def stream(self, case):
        import html5lib
        p = html5lib.HTMLParser(tree=html5lib.getTreeBuilder(case["tree"]))
        doc = p.parseFragment(case["markup"])
        return [T.to_json(t) for t in html5lib.getTreeWalker(case["tree"])(doc)]

    def has_style_attr(self, stream):
        return any(t["type"] in ("StartTag", "EmptyTag") and any(k[1] == "style" and k[0] is None for k, _ in t["data"])
                   for t in stream)

    def encode(self, case):
        if case["k"] != 0:
            return None
        stream = self.stream(case)
        if self.has_style_attr(stream):
            return [1]            # sanitize_css is not modelled
        return [0, enc_opts(case["opts"]), T.enc_tokens([T.from_json(t) for t in stream])]

    def serializer(self, case, omit):
        from html5lib.serializer import HTMLSerializer
        kw = dict(case["opts"])
        if kw.get("quote_char") is None:
            kw.pop("quote_char", None)
        return HTMLSerializer(omit_optional_tags=omit, inject_meta_charset=False, sanitize=True, **kw)

    def impl(self, case):
        stream = self.stream(case)
        with warnings.catch_warnings():
            warnings.simplefilter("ignore")
            if case["k"] == 0:
                s = self.serializer(case, False)
                try:
                    txt = s.render([T.from_json(t) for t in stream])
                except KeyError:
                    return [1]
                return [0, txt, list(s.errors)]
            s = self.serializer(case, case["omit"])
            txt = s.render([T.from_json(t) for t in stream])
            # what the sanitizer let through (for provenance)
            from html5lib.filters.sanitizer import Filter
            passed = [t for t in Filter([T.from_json(t) for t in stream])]
        self._last = (txt, passed)
        return [0, txt, list(s.errors)]

    def oracle(self, case, out):
        if case["k"] != 1:
            return []
        import html5lib
        import html5lib.filters.sanitizer as S
        txt, passed = self._last
        p = html5lib.HTMLParser(tree=html5lib.getTreeBuilder("dom"))
        doc = p.parse(txt, scripting=case["scripting"]) if case["ctx"] is None else \
            p.parseFragment(txt, container=case["ctx"], scripting=case["scripting"])
        nodes = walk_dom(doc, [])
        emitted = set()
        for t in passed:
            if t["type"] in ("StartTag", "EmptyTag"):
                emitted.add(t["name"].lower())
        v = []
        # "corresponds to a tag the sanitizer let through": what it let through is itself on the allow-lists
        for t in passed:
            if t["type"] in ("StartTag", "EmptyTag", "EndTag"):
                ns, nm = t.get("namespace"), t["name"]
                if not ((ns, nm) in S.allowed_elements or (ns is None and (HTML, nm) in S.allowed_elements)):
                    v.append(("sanitizer-let-a-forbidden-tag-through", repr((ns, nm))))
                    break
        implied = {"html", "head", "body"} if case["ctx"] is None else set()
        for n in nodes:
            if n[0] == "C":
                v.append(("comment-after-reparse", repr(n[1][:80])))
                continue
            _, ns, name, attrs = n
            if ns == HTML and name in implied:
                continue
            ok = (ns, name) in S.allowed_elements
            payload = False
            for (ans, an), val in attrs:
                if (ans, an) not in S.allowed_attributes:
                    v.append(("forbidden-attribute-after-reparse", repr((ns, name, ans, an, val[:60]))))
                    payload = True
                elif (ans, an) in S.attr_val_is_uri:
                    sch = browser_scheme(val)
                    if sch is not None and sch not in S.allowed_protocols:
                        v.append(("forbidden-scheme-after-reparse", repr((name, an, val[:60]))))
                        payload = True
            if not ok:
                if name.lower() in emitted and not payload and \
                        any((x, name) in S.allowed_elements or (x, name.lower()) in S.allowed_elements for x in (HTML, SVG, MATHML)):
                    v.append(("allowed-tag-changes-namespace", repr((ns, name))))
                else:
                    v.append(("forbidden-element-after-reparse", repr((ns, name))))
            elif name.lower() not in emitted and name not in ("tbody", "tr", "colgroup", "html", "head", "body"):
                v.append(("element-without-provenance", repr((ns, name))))
        seen = set()
        res = []
        for cls, d in v:
            if cls not in seen:
                seen.add(cls)
                res.append((cls, d + "\nsanitized: %r\nre-parsed as %s, scripting=%s" % (txt[:800], case["ctx"], case["scripting"])))
        return res

    def classify(self, cls, case, detail):
        return {"allowed-tag-changes-namespace": "C10-allowed-tag-changes-namespace"}.get(cls)

    def nontrivial_key(self, case, out):
        return json.dumps(case, sort_keys=True)[:300] if out and out[0] == 0 and len(out[1]) > 10 else None

    def describe(self, case):
        return case


PLUGIN = C10()
