"""C16 -- strict mode: parseError model correspondence + strict/non-strict comparison on the real parser."""
import re

from framework import Plugin
import gen_markup

TAGS = ['<a b="c" d=\'e\' f=g h>', "<!DOCTYPE html PUBLIC \"-//W3C//DTD HTML 4.01//EN\" \"http://x\">",
        "<!--comment-->", "</p >", "<br/>", "<![CDATA[x]]>", "<svg><![CDATA[x]]></svg>", "&amp;&#x41;&#65;&bogus;",
        "<script><!--<script></script>--></script>", "<title>a</title>", "<textarea>&lt;</textarea>",
        "<!DOCTYPE html SYSTEM 'x'>", "<p a=\"&amp;\" b='&lt;' c=&gt;>", "<plaintext>x", "<a/ b>", "<a =b>",
        "<a b==c>", "<a \"b\">", "<!DOCTYPEhtml>", "<!DOCTYPE>", "<!doctype html bogus>", "<?php ?>", "</>", "<1>",
        "&#;", "&#x;", "&#1234567890;", "\x00", "<a b=\x00>", "<table><td>x", "<select><table>"]


class StubStream(object):
    def position(self):
        return (1, 0)


class StubTok(object):
    stream = StubStream()


# conforming documents (content-model grammar of tools/conforming.py, every tag written out, values quoted) under every
# conforming spelling of the doctype: "conforming documents record no errors"
DOCTYPES = ["<!DOCTYPE html>", "<!doctype html>", "<!DOCTYPE HTML>", "<!DOCTYPE html >", "<!DOCTYPE HTML >", "<!DocType Html\n>",
            "<!DOCTYPE html SYSTEM \"about:legacy-compat\">", "<!DOCTYPE HTML SYSTEM 'about:legacy-compat'>",
            "<!doctype hTmL  system 'about:legacy-compat' >", "<!DOCTYPE\thtml>"]


def conforming_source(seed, dt):
    import random
    import conforming
    import realtrees
    import html5lib
    from html5lib.serializer import HTMLSerializer
    while True:
        g = conforming.Gen(random.Random(seed), foreign=False)
        doc = realtrees.et_from_forest(g.document(2))
        txt = HTMLSerializer(omit_optional_tags=False, quote_attr_values="always", inject_meta_charset=False,
                             minimize_boolean_attributes=False).render(html5lib.getTreeWalker("etree")(doc))
        if "<keygen" not in txt:      # the grammar still knows keygen (removed from HTML; the serializer writes </keygen>)
            break
        seed += 1
    assert txt.startswith("<!DOCTYPE "), txt[:40]
    return DOCTYPES[dt] + txt[txt.index(">") + 1:]


class C16(Plugin):
    id = "C16"
    gen = ["Errors"]
    n_quick = 4000
    n_thorough = 150000
    rule = ("40% sequences of parseError calls (codes from E and bogus codes, supplied variables complete/"
            "incomplete) against the model; 60% inputs parsed strict and non-strict (document and fragment): "
            "generated markup, every prefix of a set of tags/doctypes/comments/references (EOF inside every "
            "tokenizer state), random truncations; non-trivial = distinct case that records at least one error")
    trusted_base = ["Python %-formatting of a template with a dict raises KeyError exactly when a %(name) is "
                    "missing (modelled by format_ok)"]

    def corpus(self):
        out = []
        for t in TAGS:
            for i in range(1, len(t) + 1):
                out.append({"k": 1, "src": t[:i], "frag": False})
        # conforming documents with foreign content: mixed-case SVG element and attribute names, explicit end tags,
        # self-closing syntax, integration points, MathML
        for body in ("<svg viewBox=\"0 0 1 1\"><defs><linearGradient id=\"g\"><stop offset=\"0\"/></linearGradient>"
                     "<clipPath id=\"c\"><rect width=\"1\" height=\"1\"/></clipPath></defs><text><textPath href=\"#p\">t</textPath></text>"
                     "<foreignObject width=\"1\" height=\"1\"><p>x</p></foreignObject></svg>",
                     "<svg><filter id=\"f\"><feGaussianBlur stdDeviation=\"1\"></feGaussianBlur><feColorMatrix/></filter>"
                     "<radialGradient id=\"r\"></radialGradient><title>t</title><desc>d</desc></svg>",
                     "<p><math><mrow><mi>x</mi><mo>+</mo><mn>1</mn></mrow><annotation-xml encoding=\"text/html\"><b>y</b></annotation-xml></math></p>",
                     "<table><tbody><tr><td><svg><g><circle r=\"1\"></circle></g></svg></td></tr></tbody></table>"):
            out.append({"k": 1, "src": "<!DOCTYPE html><html><head><title>t</title></head><body>" + body + "</body></html>",
                        "frag": False, "conforming": True})
        out += [{"k": 1, "src": "<a b ", "frag": f} for f in (False, True)]
        out += [{"k": 1, "src": '<a b="c"', "frag": f} for f in (False, True)]
        return out

    def cases(self, rng, n, tier):
        from html5lib.constants import E
        codes = sorted(E)
        for _ in range(n):
            if rng.random() < 0.4:
                calls = []
                for _ in range(rng.randint(0, 4)):
                    code = rng.choice(codes) if rng.random() < 0.9 else rng.choice(["bogus-code", "", "eof-in-x"])
                    need = sorted(set(re.findall(r"%\((\w+)\)", E.get(code, ""))))
                    keys = [[k, rng.random() < 0.5] for k in need]
                    r = rng.random()
                    if r < 0.15 and keys:
                        keys.pop(rng.randrange(len(keys)))
                    elif r < 0.3:
                        keys.append(["extra", False])
                    calls.append([code, keys])
                yield {"k": 0, "strict": rng.randint(0, 1), "calls": calls}
            elif rng.random() < 0.25:
                # a third of them on a parser that has parsed a (conforming) fragment before: the clauses hold for every
                # call on a parser object, not only the first
                yield {"k": 1, "src": conforming_source(rng.randrange(10 ** 6), rng.randrange(len(DOCTYPES))), "frag": False,
                       "conforming": True, "after_fragment": rng.random() < 0.34}
            else:
                src = gen_markup.document(rng)
                if rng.random() < 0.4:
                    src = src[:rng.randint(0, len(src))]
                yield {"k": 1, "src": src, "frag": rng.random() < 0.3}

    def encode(self, case):
        if case["k"] == 0:
            return [case["strict"], case["calls"]]
        return None

    def impl(self, case):
        import html5lib
        from html5lib.html5parser import ParseError
        if case["k"] == 0:
            p = html5lib.HTMLParser(strict=bool(case["strict"]))
            p.tokenizer = StubTok()
            p.errors = []
            ex = []
            for code, keys in case["calls"]:
                try:
                    p.parseError(code, {k: (7 if i else "v") for k, i in keys})
                except ParseError:
                    ex = [1, [code, keys]]
                    break
                except (KeyError, TypeError):
                    ex = [2, [code, keys]]
                    break
            return [[[c, [[k, isinstance(v, int)] for k, v in d.items()]] for (_, c, d) in p.errors], ex]
        src, frag = case["src"], case["frag"]
        p = html5lib.HTMLParser()
        ps = html5lib.HTMLParser(strict=True)
        if case.get("after_fragment"):
            # ... one with parse errors of its own: they belong to that call, not to the next one
            p.parseFragment("<b>x</p></i> y&#x80;<table><b>")
            try:
                ps.parseFragment("<b>x</b> y")
            except ParseError:
                pass
        (p.parseFragment if frag else p.parse)(src)
        errs = [[list(pos), code, sorted(dv)] for pos, code, dv in p.errors]
        fmt_fail = []
        from html5lib.constants import E
        for pos, code, dv in p.errors:
            try:
                E[code] % dv
            except Exception as e:
                fmt_fail.append([code, type(e).__name__])
        exc = []
        try:
            (ps.parseFragment if frag else ps.parse)(src)
        except ParseError as e:
            exc = ["ParseError", str(e)]
        except Exception as e:
            exc = [type(e).__name__, str(e)[:100]]
        first_msg = []
        if p.errors and not fmt_fail:
            first_msg = [E[p.errors[0][1]] % p.errors[0][2]]
        return [errs, fmt_fail, exc, first_msg, [list(ps.errors[0][0]), ps.errors[0][1]] if ps.errors else []]

    def oracle(self, case, out):
        if case["k"] == 0:
            return []
        errs, fmt_fail, exc, first_msg, strict_first = out
        v = []
        for code, kind in fmt_fail:
            v.append(("recorded-error-does-not-format", "%s: %s" % (code, kind)))
        if errs and not exc:
            v.append(("strict-did-not-raise", repr(errs[0])))
        if exc and not errs:
            v.append(("strict-raised-without-error", repr(exc)))
        if exc and exc[0] != "ParseError":
            v.append(("strict-raised-other-exception", repr(exc)))
        if exc and exc[0] == "ParseError" and first_msg and exc[1] != first_msg[0]:
            v.append(("strict-error-is-not-the-first-recorded", repr((exc, first_msg))))
        if exc and errs and strict_first and strict_first != [errs[0][0], errs[0][1]]:
            v.append(("strict-first-error-differs", repr((strict_first, errs[0]))))
        if case.get("conforming") and errs:
            v.append(("conforming-document-records-error", repr((errs[0], case["src"][:300]))))
        src = case["src"]
        nlines = 1 + src.replace("\r\n", "\n").replace("\r", "\n").count("\n")
        for pos, code, dv in errs:
            if not (1 <= pos[0] <= nlines and pos[1] >= 0 and pos[1] <= len(src)):
                v.append(("error-position-outside-input", repr((pos, code))))
        return v

    def nontrivial_key(self, case, out):
        if case["k"] == 0 and case["calls"]:
            return repr(case)
        if case["k"] == 1 and out[0]:
            return case["src"] + str(case["frag"])
        return None

    def extra_coverage(self, cases, results):
        import sexp
        from html5lib.constants import E
        seen = set()
        for c, (out, _, _) in zip(cases, results):
            if c["k"] == 1 and out:
                for e in sexp.loads(out)[0]:
                    seen.add(sexp.to_str(e[1]))
        return {"error_codes_reached": len(seen), "error_codes_total": len(E),
                "error_codes_not_reached_sample": sorted(set(E) - seen)[:25]}


PLUGIN = C16()
