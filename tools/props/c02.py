"""C02 -- the tokenizer: html5lib's HTMLTokenizer vs the generated model M_tok (token for token, parse errors
included, from ANY state with any current token / temporary buffer) and vs S_tok, the transcription of the
WHATWG tokenizer (from the five start states, tokens flattened as the property says)."""
import ast

from framework import Plugin

START = ["dataState", "rcdataState", "rawtextState", "scriptDataState", "plaintextState"]
ALPHA = list("<>/!-?=\"'&#;xaZsScCrRiIpPtT0 \t\n\x0c]\x00[") + ["\r", "é", "\U0001F600", "\ud800", "`", "D", "O", "Y",
                                                             "E", "U", "B", "L", "M", "K", "b", "q"]
LAST = ["title", "textarea", "script", "style", "xmp", "a", "s", "script-x", "aé", "\u212a", "a\u0130"]
SNIPPETS = ["<!--", "-->", "--!>", "<!DOCTYPE", "<!doctype html", " PUBLIC", " SYSTEM", "public", "system", "\"-//W3C//DTD\"",
            "'about:legacy-compat'", "<![CDATA[", "]]>", "]]", "</script", "</title", "</textarea>", "</style >",
            "</xmp/", "<script", "<a ", "<b>", "</b>", "<br/>", " href=", "=\"x\"", "='y'", "=z", "&amp;", "&lt", "&#",
            "&#x41;", "&#65", "&notit;", "&noti", "&AMP", "&ampx", "&amp=", "<!-", "<!", "<?", "</", "</>", "<>",
            "a=a a=b", " A=1 a=2", "<!--<script>", "<!-->", "<!--->", "\x00", "<p/ >", "=", "\"", "'", "&#x80;",
            "&#0;", "&#xD800;", "&#x110000;", "&#9999999999;", "<!--\x00", "<!---\x00", "--\x00", "--!\x00", "--!-",
            "<!DOCTYPE\x00", "<!DOCTYPE a\x00", "<s\x00", "<s \x00", "<s a\x00", "<s a=\x00", "<s a='\x00",
            "<s a=\"\x00", "<s a=b\x00", "scr", "ipt", "SCRIPT", " "]


def states():
    import html5lib._tokenizer as T
    src = open(T.__file__.replace(".pyc", ".py"), encoding="utf-8").read()
    cls = [n for n in ast.parse(src).body if isinstance(n, ast.ClassDef) and n.name == "HTMLTokenizer"][0]
    helpers = {"__init__", "__iter__", "consumeNumberEntity", "consumeEntity", "processEntityInAttribute",
               "emitCurrentToken"}
    return [f.name for f in cls.body if isinstance(f, ast.FunctionDef) and f.name not in helpers]


TAG_STATES = {"tagNameState", "beforeAttributeNameState", "attributeNameState", "afterAttributeNameState",
              "beforeAttributeValueState", "attributeValueDoubleQuotedState", "attributeValueSingleQuotedState",
              "attributeValueUnQuotedState", "afterAttributeValueState", "selfClosingStartTagState"}
NEEDS_ATTR = {"attributeNameState", "afterAttributeNameState", "beforeAttributeValueState",
              "attributeValueDoubleQuotedState", "attributeValueSingleQuotedState", "attributeValueUnQuotedState",
              "afterAttributeValueState"}
COMMENT_STATES = {"commentStartState", "commentStartDashState", "commentState", "commentEndDashState",
                  "commentEndState", "commentEndBangState"}


def normalise(text):
    return text.replace("\r\n", "\n").replace("\r", "\n")


def enc_tok(t):
    from html5lib.constants import tokenTypes as TT
    ty = t["type"]
    if ty == TT["ParseError"]:
        return [0, t["data"]]
    if ty == TT["Characters"]:
        return [1, t["data"]]
    if ty == TT["SpaceCharacters"]:
        return [2, t["data"]]
    if ty in (TT["StartTag"], TT["EndTag"]):
        d = t["data"]
        pairs = [[k, v] for k, v in (d.items() if isinstance(d, dict) else d)]
        return [3 if ty == TT["StartTag"] else 4, t["name"], pairs, 1 if t["selfClosing"] else 0]
    if ty == TT["Comment"]:
        return [5, t["data"]]
    if ty == TT["Doctype"]:
        return [6, t["name"], [] if t["publicId"] is None else [t["publicId"]],
                [] if t["systemId"] is None else [t["systemId"]], 1 if t["correct"] else 0]
    raise ValueError("unknown token %r" % (t,))


def flatten(toks):
    """what the property compares (Python twin of Model/C02.v flat + coalesce)"""
    out = []
    for t in toks:
        k = t[0]
        if k == 0:
            continue
        if k in (1, 2):
            if not t[1]:
                continue
            if out and out[-1][0] == 1:
                out[-1] = [1, out[-1][1] + t[1]]
            else:
                out.append([1, t[1]])
        elif k == 4:
            out.append([4, t[1], [], 0])
        else:
            out.append(t)
    return out


class _Sink(list):
    def append(self, x):
        pass


class _Node(object):
    def __init__(self, ns):
        self.namespace = ns


class _Tree(object):
    defaultNamespace = "http://www.w3.org/1999/xhtml"

    def __init__(self, foreign):
        self.openElements = [_Node("http://www.w3.org/2000/svg" if foreign else self.defaultNamespace)]


class _Parser(object):
    def __init__(self, foreign):
        self.tree = _Tree(foreign)


class C02(Plugin):
    id = "C02"
    gen = ["Entities", "Tokenizer"]
    n_quick = 6000
    n_thorough = 150000
    case_timeout = 20
    model_chunk = 3000
    rule = ("inputs: random strings over a 50-symbol alphabet of markup-significant characters (incl. NUL, CR, FF, an "
            "astral character, a lone surrogate) mixed with ~90 markup fragments (comments, doctypes with "
            "PUBLIC/SYSTEM, CDATA, script escapes, references, duplicate attributes); k=0: ANY of the 68 state "
            "methods as start state with a current token of the kind that state expects and a temporary buffer, model "
            "vs implementation token for token incl. parse errors; k=1: the five start states x last start tag x "
            "CDATA allowed, implementation vs S_tok after flattening; plus exhaustive strings of length <= 3 "
            "(thorough: <= 4) over a 14-symbol alphabet from every start state")
    trusted_base = ["coq/Spec/TokSpec.v: S_tok, hand transcription of the WHATWG tokenizer with the six normalisations "
                    "listed at its head", "coq/Model/TokHand.v: hand models of the irregular methods (hash-pinned)",
                    "tools/tr_tokenizer.py: translator of the regular state methods"]

    def __init__(self):
        self._states = None

    def st(self):
        if self._states is None:
            self._states = states()
        return self._states

    # ---------------------------------------------------------------- generation
    def rnd_text(self, rng, maxlen=40):
        parts = []
        n = rng.randint(0, 8)
        for _ in range(n):
            r = rng.random()
            if r < 0.45:
                parts.append(rng.choice(SNIPPETS))
            elif r < 0.9:
                parts.append("".join(rng.choice(ALPHA) for _ in range(rng.randint(1, 6))))
            else:
                parts.append(rng.choice(["<a href='x' title=\"y\" z>", "<!DOCTYPE html PUBLIC \"a\" 'b'>",
                                         "<!doctype x system 'y'>", "<!-- c -- d -->", "<![CDATA[ x ]] y ]]>"]))
        return "".join(parts)[:maxlen * 3]

    def rnd_cur(self, rng, state):
        if state in TAG_STATES:
            attrs = [[rng.choice(["a", "b", "A", "href"]), rng.choice(["", "v"])] for _ in range(rng.randint(0, 2))]
            if state in NEEDS_ATTR and not attrs:
                attrs = [["a", ""]]
            return ["tag", rng.randint(0, 1), rng.choice(["a", "DIV", "s"]), attrs, rng.randint(0, 1)]
        if state in COMMENT_STATES:
            return ["comment", rng.choice(["", "x", "-"])]
        if "octype" in state:
            return ["doctype", rng.choice(["", "html", "H"]), rng.choice([None, "", "p"]), rng.choice([None, "", "s"]),
                    rng.randint(0, 1)]
        if "EndTagName" in state or state in START or "script" in state.lower():
            return rng.choice([None, ["tag", 0, rng.choice(LAST), [], 0]])
        return None

    def cases(self, rng, n, tier):
        sts = self.st()
        for i in range(n):
            text = self.rnd_text(rng)
            if rng.random() < 0.5:
                s = rng.choice(sts)
                yield {"k": 0, "state": s, "cur": self.rnd_cur(rng, s),
                       "tmp": rng.choice(["", "", "script", "scr", "SCRIPT", "title", "a"]),
                       "cdata": rng.randint(0, 1), "text": text}
            else:
                s = rng.choice(START)
                last = rng.choice([None, None] + LAST) if s != "dataState" else rng.choice([None, None, "a"])
                if s != "dataState" and rng.random() < 0.6 and last:
                    text = text[:rng.randint(0, len(text))] + rng.choice(["</%s>", "</%s ", "</%s/>", "</%sx>", "</%s"]) \
                        % rng.choice([last, last.upper(), last[:-1]]) + self.rnd_text(rng, 10)
                yield {"k": 1, "state": s, "cur": None if last is None else ["tag", 0, last, [], 0], "tmp": "",
                       "cdata": rng.randint(0, 1), "text": text}

    def corpus(self):
        out = []
        small = list("<>/!-a= \"&;\x00]") + ["[CDATA[", "DOCTYPE"]
        import itertools
        for s in START:
            for ln in range(0, 4):
                for combo in itertools.product(small[:9] if ln == 3 else small, repeat=ln):
                    out.append({"k": 1, "state": s, "cur": None if s == "dataState" else ["tag", 0, "a", [], 0],
                                "tmp": "", "cdata": 1, "text": "".join(combo)})
        for t in SNIPPETS:
            for s in START:
                out.append({"k": 1, "state": s, "cur": ["tag", 0, "script", [], 0], "tmp": "", "cdata": 0,
                            "text": t + ">x"})
        # script data: every string of up to five pieces over the characters the escape/double-escape states
        # distinguish, then a nested <script>...</script> (which state the prefix left the tokenizer in decides whether
        # that end tag is recognised)
        pieces = ["<", "!", "-", ">", "/", "x", "script"]
        for ln in range(0, 6):
            for combo in itertools.product(pieces, repeat=ln):
                out.append({"k": 1, "state": "scriptDataState", "cur": ["tag", 0, "script", [], 0], "tmp": "", "cdata": 0,
                            "text": "".join(combo) + "<script>a</script>b"})
        # doctypes: every shape of name / PUBLIC / SYSTEM / identifiers, each followed by junk, a quote, EOF (force-quirks)
        heads = ["<!DOCTYPE", "<!doctype html", "<!DOCTYPE html PUBLIC", "<!DOCTYPE html PUBLIC \"p\"", "<!DOCTYPE html PUBLIC 'p' \"s\"",
                 "<!DOCTYPE html SYSTEM", "<!DOCTYPE html SYSTEM 's'", "<!DOCTYPE html SYSTEM \"about:legacy-compat\"", "<!DOCTYPE html PUBLIC\"p\"'s'",
                 "<!DOCTYPE html PUBLIC 'p", "<!DOCTYPE html SYSTEM \"s", "<!DOCTYPE HTML PUBLIC \"-//W3C//DTD HTML 4.01//EN\" \"http://x\""]
        for h in heads:
            for tail in ("", ">", " >", " x>", "x>", " [ ]>", " 'q'>", "\x00>", " \x00", " x", ">y", " PUBLIC>", " SYSTEM 'z'>"):
                out.append({"k": 1, "state": "dataState", "cur": None, "tmp": "", "cdata": 0, "text": h + tail})
        # the markup declaration open state: "[CDATA[" is matched case-sensitively (and only when CDATA sections are
        # allowed), "DOCTYPE" ASCII case-insensitively; every prefix, other casings, near misses
        for kw in ("[CDATA[", "[cdata[", "[CData[", "[CDATa[", "[cDATA[", "[CDATA", "[CDAT[", "[CDATA [", "DOCTYPE", "doctype", "DocType",
                   "DOCTYP", "DOCTYPEx", "--", "-", "[", "[C", "D", "doc"):
            for tail in ("x]]>y", "x<y>]]>", " html>z", "", ">", "]]>", "x"):
                for cd in (0, 1):
                    out.append({"k": 1, "state": "dataState", "cur": None, "tmp": "", "cdata": cd, "text": "a<!" + kw + tail})
        # an incomplete PUBLIC / SYSTEM keyword after the doctype name, ended by ">" or something else
        for kwd in ("p", "P", "PU", "PUB", "publi", "PUBLIC", "s", "S", "sy", "SYST", "syste", "SYSTEM", "x", "PUBLIX", "pS", "sP"):
            for tail in (">A<b>B", " >A", "x>A", "", ">", "'q'>A", " 'q' 'r'>A<!--c-->"):
                out.append({"k": 1, "state": "dataState", "cur": None, "tmp": "", "cdata": 0, "text": "<!DOCTYPE html " + kwd + tail})
        # numeric references at the boundaries of every range the standard distinguishes, decimal and hexadecimal
        for v in [0, 1, 9, 10, 13, 31, 32, 127, 128, 129, 159, 160, 0xD7FF, 0xD800, 0xDFFF, 0xE000, 0xFDD0, 0xFFFE, 0xFFFF,
                  0x10000, 99999, 100000, 999999, 1000000, 1114109, 1114111, 1114112, 9999999, 10000000, 0xFFFFF,
                  0x100000, 0xFFFFFF, 0x1000000, 0xFFFFFFF, 0x10000000, 2 ** 32]:
            for ref in ("&#%d;" % v, "&#x%x;" % v, "&#%d" % v, "&#X%X " % v, "&#000%d;" % v):
                out.append({"k": 1, "state": "dataState", "cur": None, "tmp": "", "cdata": 0, "text": "a" + ref + "b"})
                out.append({"k": 1, "state": "rcdataState", "cur": None, "tmp": "", "cdata": 0,
                            "text": "<p t=\"" + ref + "\">"})
                out.append({"k": 0, "state": "attributeValueUnQuotedState", "cur": ["tag", 0, "p", [["t", ""]], 0],
                            "tmp": "", "cdata": 0, "text": ref + ">"})
        # every state once on every single character of the alphabet (model vs implementation)
        rng_cur = __import__("random").Random(5)
        for s in self.st():
            for ch in ALPHA + [""]:
                out.append({"k": 0, "state": s, "cur": self.rnd_cur(rng_cur, s), "tmp": "scripT", "cdata": 1,
                            "text": ch + "x>"})
        return out

    def known_witnesses(self):
        return {
            "C02-cdata-nul-replaced-in-tokenizer":
                {"k": 1, "state": "dataState", "cur": None, "tmp": "", "cdata": 1, "text": "<![CDATA[a\x00b]]>"},
        }

    # ---------------------------------------------------------------- model input
    def enc_cur(self, cur):
        if cur is None:
            return []
        if cur[0] == "tag":
            return [0, cur[1], cur[2], [[a, b] for a, b in cur[3]], cur[4]]
        if cur[0] == "comment":
            return [1, cur[1]]
        return [2, cur[1], [] if cur[2] is None else [cur[2]], [] if cur[3] is None else [cur[3]], cur[4]]

    def enc_mode(self, case, mode):
        return [mode, self.st().index(case["state"]), self.enc_cur(case["cur"]), case["cdata"],
                normalise(case["text"]), case["tmp"]]

    def encode(self, case):
        return self.enc_mode(case, 0) if case["k"] == 0 else self.enc_mode(case, 2)

    # ---------------------------------------------------------------- implementation
    def run_tokenizer(self, case):
        from html5lib._tokenizer import HTMLTokenizer
        from html5lib.constants import tokenTypes as TT
        tok = HTMLTokenizer(case["text"], parser=_Parser(bool(case["cdata"])))
        tok.stream.errors = _Sink()
        tok.state = getattr(tok, case["state"])
        cur = case["cur"]
        if cur is not None:
            if cur[0] == "tag":
                tok.currentToken = {"type": TT["EndTag"] if cur[1] else TT["StartTag"], "name": cur[2],
                                    "data": [[a, b] for a, b in cur[3]], "selfClosing": bool(cur[4])}
                if not cur[1]:
                    tok.currentToken["selfClosingAcknowledged"] = False
            elif cur[0] == "comment":
                tok.currentToken = {"type": TT["Comment"], "data": cur[1]}
            else:
                tok.currentToken = {"type": TT["Doctype"], "name": cur[1], "publicId": cur[2], "systemId": cur[3],
                                    "correct": bool(cur[4])}
        tok.temporaryBuffer = case["tmp"]
        out = []
        try:
            for t in tok:
                out.append(enc_tok(t))
        except (TypeError, KeyError, IndexError, AttributeError):
            return None
        return out

    def impl(self, case):
        toks = self.run_tokenizer(case)
        if toks is None:
            return [1, []]
        return [0, toks if case["k"] == 0 else flatten(toks)]

    # ---------------------------------------------------------------- the property: S_tok
    def batch_oracle(self, cases, results, run_model):
        import sexp
        idx = [i for i, c in enumerate(cases) if c["k"] == 1]
        outs = run_model([self.enc_mode(cases[i], 1) for i in idx])
        v = []
        for i, o in zip(idx, outs):
            got = results[i][0]
            if got is None or got == o:
                continue
            cls = self.diff_class(cases[i], got, o)
            v.append((cases[i], cls, "implementation: %s\nWHATWG (S_tok): %s" % (self.show(got), self.show(o)), got))
        return v

    @staticmethod
    def show(s):
        import sexp
        try:
            x = sexp.loads(s)
            def tok(t):
                k = t[0]
                sx = lambda z: sexp.to_str(z)
                if k == 1:
                    return "Chars(%r)" % sx(t[1])
                if k in (3, 4):
                    return "%s(%r,%r,%d)" % ("Start" if k == 3 else "End", sx(t[1]),
                                             [(sx(a), sx(b)) for a, b in t[2]], t[3])
                if k == 5:
                    return "Comment(%r)" % sx(t[1])
                if k == 6:
                    return "Doctype(%r,%r,%r,%d)" % (sx(t[1]), [sx(z) for z in t[2]], [sx(z) for z in t[3]], t[4])
                return repr(t)
            if len(x) == 2:
                return ("BAD " if x[0] else "") + " ".join(tok(t) for t in x[1])
        except Exception:
            pass
        return s[:600]

    def diff_class(self, case, got, want):
        t = normalise(case["text"])
        if case["cdata"] and "[CDATA[" in t and "\x00" in t:
            import sexp
            g, w = sexp.loads(got), sexp.loads(want)
            def fix(x):
                return [[tk[0]] + [[0xFFFD if (isinstance(c, int) and c == 0) else c for c in tk[1]]] + tk[2:]
                        if tk[0] == 1 else tk for tk in x[1]]
            if g[0] == w[0] and fix(g) == fix(w):
                return "cdata-nul-replaced-in-tokenizer"
        return "tokens-differ-from-whatwg"

    def classify(self, cls, case, detail):
        if cls == "cdata-nul-replaced-in-tokenizer":
            return "C02-cdata-nul-replaced-in-tokenizer"
        return None

    def nontrivial_key(self, case, out):
        if out and len(out[1]) >= 1 and len(case["text"]) >= 1:
            return "%d|%s|%s|%s" % (case["k"], case["state"], case["cur"], case["text"])
        return None

    def describe(self, case):
        return case


PLUGIN = C02()
