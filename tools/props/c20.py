"""C20 -- InfosetFilter: XML-name coercion, comments, public identifiers."""
import warnings

from framework import Plugin

INTERESTING = ["a", "b", "U", "0", "9", "A", "F", "G", ":", "-", ".", "_", " ", "<", "\x00", "\x0c", "é", "·", "ʹ",
               "٠", "๐", "Ĳ", "〇", "￿", "\ud800", "\U00010000", "\U0001f600", "'", '"',
               "--", "U0003A", "U00041", "U00055", "U0005500041", "U٠٠٠٤١", "xlink:href",
               "xml:lang", "0a", "-a", "1", "aU0", "UU00041"]
PUBID = list(" \r\nazAZ09-'()+,./:=?;!*#@$_%") + ['"', "<", "&", "é", "\t", "\x00", "\U0001f600", "[", "~"]


def expat_accepts(name):
    """True iff expat parses <name/> and reports exactly `name` as the element name."""
    import xml.parsers.expat
    p = xml.parsers.expat.ParserCreate()
    seen = []
    p.StartElementHandler = lambda n, a: seen.append(n)
    try:
        p.Parse(("<%s/>" % name).encode("utf-8", "surrogatepass"), True)
    except (xml.parsers.expat.ExpatError, UnicodeError):
        return False
    return seen == [name]


def has_pattern(n):
    from html5lib._ihatexml import InfosetFilter
    return InfosetFilter.replacementRegexp.search(n) is not None


class C20(Plugin):
    id = "C20"
    gen = ["IHateXml"]
    n_quick = 6000
    n_thorough = 100000
    case_timeout = 60
    rule = ("exhaustive: every BMP code point in first and non-first position (classification by the two regexes "
            "vs the model, and the coerced one-/two-character name against expat), in blocks of 256; random names, "
            "comments and public identifiers over an alphabet of boundary characters, escape-like substrings, "
            "colons, non-BMP characters x every flag combination; non-trivial = distinct case whose coercion "
            "changed the input (or any exhaustive block)")
    trusted_base = ["expat (pyexpat) as the oracle for XML 1.0 Name legality", "re: character classes and \\d",
                    "str.replace modelled by per-character substitution (sound because escapes contain no "
                    "replaceable character; exercised by correspondence)"]

    def corpus(self):
        out = [{"k": 6, "block": b} for b in range(256)] + [{"k": 7, "block": b} for b in range(0, 256, 4)]
        out += [{"k": 0, "s": s} for s in INTERESTING]
        out += [{"k": 8, "names": ["1x", "h1"]}, {"k": 8, "names": ["-x", "data-x", "a.b", ".x", "a.b"]},
                {"k": 8, "names": ["é", "h1", "·x", "a·b"], "pubid": "café"}]
        out += [{"k": 1, "s": s} for s in ["U0005500041 U00041", "U00041U00042U00041", "aU0003Ab", "UU00041",
                                           "U٠٠٠٤١"]]
        for dd in (0, 1):
            for e in (0, 1):
                for s in ["", "-", "--", "---", "----", "a--b-", "-----x--", "- -", "a-"]:
                    out.append({"k": 2, "s": s, "dd": dd, "end": e})
        return out

    def known_witnesses(self):
        return {"C20-non-bmp-name": {"k": 0, "s": "a\U00010000"}}

    def cases(self, rng, n, tier):
        for _ in range(n):
            r = rng.random()
            s = "".join(rng.choice(INTERESTING) if rng.random() < 0.8 else chr(rng.randrange(0x20, 0xFFFF))
                        for _ in range(rng.randint(1, 6)))
            if r < 0.1:
                # one shared InfosetFilter instance over a history of calls (results must not depend on history)
                yield {"k": 8, "names": ["".join(rng.choice(INTERESTING[:20]) for _ in range(rng.randint(1, 3)))
                                         for _ in range(rng.randint(2, 5))],
                       "pubid": rng.choice([None, "café", "a b", "x·y"])}
            elif r < 0.35:
                yield {"k": 0, "s": s}
            elif r < 0.55:
                from html5lib._ihatexml import InfosetFilter
                with warnings.catch_warnings():
                    warnings.simplefilter("ignore")
                    e = InfosetFilter().toXmlName(s) if rng.random() < 0.6 else s
                yield {"k": 1, "s": e}
            elif r < 0.75:
                c = "".join(rng.choice(["-", "-", "-", " ", "a", "--", ">"]) for _ in range(rng.randint(0, 9)))
                yield {"k": 2, "s": c, "dd": rng.randint(0, 1), "end": rng.randint(0, 1)}
            elif r < 0.9:
                yield {"k": 3, "s": "".join(rng.choice(PUBID) for _ in range(rng.randint(0, 8))),
                       "sq": rng.randint(0, 1)}
            elif r < 0.95:
                yield {"k": 4, "s": s.replace("U", "\x0c"), "ff": rng.randint(0, 1)}
            else:
                yield {"k": 5, "s": s}

    def _order(self, s):
        from html5lib._ihatexml import InfosetFilter
        return list(set(InfosetFilter.replacementRegexp.findall(s)))

    def encode(self, case):
        k = case["k"]
        if k == 0:
            return [0, case["s"]]
        if k == 1:
            return [1, case["s"], self._order(case["s"])]
        if k == 2:
            return [2, case["s"], case["dd"], case["end"]]
        if k == 3:
            return [3, case["s"], case["sq"]]
        if k == 4:
            return [4, case["s"], case["ff"]]
        if k == 5:
            return [5, case["s"]]
        if k == 7:
            return [7, list(range(case["block"] * 256, case["block"] * 256 + 1024))]
        if k == 8:
            return [8, case["names"]]
        return None   # k == 6: the implementation against expat (oracle only)

    def impl(self, case):
        from html5lib import _ihatexml
        F = _ihatexml.InfosetFilter
        k = case["k"]
        with warnings.catch_warnings():
            warnings.simplefilter("ignore")
            if k == 0:
                try:
                    return [F().toXmlName(case["s"])]
                except IndexError:
                    return []
            if k == 1:
                return [F().fromXmlName(case["s"])]
            if k == 2:
                return [F(preventDoubleDashComments=bool(case["dd"]),
                          preventDashAtCommentEnd=bool(case["end"])).coerceComment(case["s"])]
            if k == 3:
                return F(preventSingleQuotePubid=bool(case["sq"])).coercePubid(case["s"])
            if k == 4:
                return F(replaceFormFeedCharacters=bool(case["ff"])).coerceCharacters(case["s"])
            if k == 5:
                return F.replacementRegexp.findall(case["s"])
            if k == 8:
                f = F()
                if case.get("pubid"):
                    f.coercePubid(case["pubid"])
                return [[f.toXmlName(n)] for n in case["names"]]
            if k == 7:
                return [[_ihatexml.nonXmlNameFirstBMPRegexp.match(chr(c)) is not None,
                         _ihatexml.nonXmlNameBMPRegexp.match(chr(c)) is not None]
                        for c in range(case["block"] * 256, case["block"] * 256 + 1024)]
            # k == 6: one block of 256 BMP code points, first and non-first position, against expat
            res = []
            f = F()
            for c in range(case["block"] * 256, case["block"] * 256 + 256):
                ch = chr(c)
                bf = _ihatexml.nonXmlNameFirstBMPRegexp.match(ch) is not None
                br = _ihatexml.nonXmlNameBMPRegexp.match(ch) is not None
                if 0xD800 <= c <= 0xDFFF:
                    ef = er = False
                else:
                    ef, er = expat_accepts(ch), expat_accepts("a" + ch)
                cf, cr = f.toXmlName(ch), f.toXmlName("a" + ch)
                res.append([c, bf, br, ef, er, expat_accepts(cf), expat_accepts(cr),
                            f.fromXmlName(cf) == ch, f.fromXmlName(cr) == "a" + ch])
            return res

    def oracle(self, case, out):
        k = case["k"]
        v = []
        if k == 0 and out:
            n, r = case["s"], out[0]
            bmp = all(ord(c) < 0x10000 for c in n)
            sur = any(0xD800 <= ord(c) <= 0xDFFF for c in n)
            if not sur and not expat_accepts(r):
                v.append(("non-bmp-name-illegal" if not bmp else "coerced-name-rejected-by-xml-parser", repr(r)))
            if ":" not in n and not sur and expat_accepts(n) and r != n:
                v.append(("legal-name-changed", repr((n, r))))
            if not has_pattern(n):
                from html5lib._ihatexml import InfosetFilter
                with warnings.catch_warnings():
                    warnings.simplefilter("ignore")
                    back = InfosetFilter().fromXmlName(r)
                if back != n:
                    v.append(("roundtrip-fails", repr((n, r, back))))
        if k == 2:
            r = out[0]
            if case["dd"] and ("--" in r or r.endswith("-")):
                v.append(("comment-still-has-dashes", repr(r)))
            if case["end"] and r.endswith("-"):
                v.append(("comment-ends-in-dash", repr(r)))
            if not case["dd"] and not case["end"] and r != case["s"]:
                v.append(("comment-changed-without-flags", repr(r)))
        if k == 3:
            ok = set(" \r\nabcdefghijklmnopqrstuvwxyzABCDEFGHIJKLMNOPQRSTUVWXYZ0123456789-'()+,./:=?;!*#@$_%")
            if any(c not in ok for c in out) or (case["sq"] and "'" in out):
                v.append(("pubid-illegal-char", repr(out)))
        if k == 8:
            for n, r in zip(case["names"], out):
                sur = any(0xD800 <= ord(c) <= 0xDFFF for c in n)
                if ":" not in n and not sur and all(ord(c) < 0x10000 for c in n) and expat_accepts(n) and r != [n]:
                    v.append(("legal-name-changed", repr((case["names"], case.get("pubid"), n, r))))
        if k == 6:
            for c, bf, br, ef, er, cef, cer, rtf, rtr in out:
                if 0xD800 <= c <= 0xDFFF:
                    continue
                if c == 0x3A:
                    # ':' is an XML 1.0 NameChar; the filter deliberately treats it as illegal (names stay NCNames)
                    if not (bf and br):
                        v.append(("colon-not-coerced", ""))
                    continue
                if bf == ef or br == er:
                    v.append(("regex-disagrees-with-xml-parser", "U+%04X first:%s/%s rest:%s/%s" % (c, bf, ef, br, er)))
                if not cef or not cer:
                    v.append(("coerced-name-rejected-by-xml-parser", "U+%04X" % c))
                if not rtf or not rtr:
                    v.append(("roundtrip-fails", "U+%04X" % c))
        return v

    def classify(self, cls, case, detail):
        if cls == "non-bmp-name-illegal":
            return "C20-non-bmp-name"
        return None

    def nontrivial_key(self, case, out):
        if case["k"] in (6, 7):
            return "block%d-%d" % (case["k"], case["block"])
        if case["k"] in (0, 1, 2, 3, 4) and out not in ([case["s"]], case["s"]):
            return repr(sorted(case.items()))
        return None


PLUGIN = C20()
