"""C14 -- character references: consumeEntity/consumeNumberEntity vs Model/CharRef.v and vs an independent
Python transcription of the standard driven by CPython's own copy of the tables (html.entities)."""
import html
import html.entities
import string

from framework import Plugin

FOLLOW = ["", ";", "=", "a", "Z", "0", "9", " ", "<", "&", "\"", "'", ">", "x", "é", "\t", "-", "#", "\x00"]
ALNUM = set(string.ascii_letters + string.digits)
H5 = html.entities.html5
MAXLEN = max(len(k) for k in H5)


def spec_decode(s, in_attr, allowed=None):
    """WHATWG character reference state on s (s follows the '&').  Returns (text, number of chars consumed)."""
    if not s or s[0] in "\t\n\x0c \r<&" or (allowed is not None and s[0] == allowed):
        return "&", 0
    if s[0] == "#":
        i = 1
        hexa = len(s) > 1 and s[1] in "xX"
        if hexa:
            i = 2
        digs = string.hexdigits if hexa else string.digits
        j = i
        while j < len(s) and s[j] in digs:
            j += 1
        if j == i:
            return "&" + s[:i], i
        n = int(s[i:j].lstrip("0") or "0", 16 if hexa else 10) if len(s[i:j].lstrip("0")) < 20 else 0x110000
        if j < len(s) and s[j] == ";":
            j += 1
        if n == 0 or n > 0x10FFFF or 0xD800 <= n <= 0xDFFF:
            return "�", j
        if n in html._invalid_charrefs:
            return html._invalid_charrefs[n], j
        return chr(n), j
    # named: the longest identifier of the table that is a prefix of s
    for ln in range(min(len(s), MAXLEN), 0, -1):
        name = s[:ln]
        if name in H5:
            if in_attr and name[-1] != ";" and ln < len(s) and (s[ln] in ALNUM or s[ln] == "="):
                return "&" + name, ln
            return H5[name], ln
    return "&", 0


def spec_text(s, in_attr=False, allowed=None):
    """decode every reference of a text that contains no markup-significant characters"""
    out, i = [], 0
    while i < len(s):
        if s[i] == "&":
            t, k = spec_decode(s[i + 1:], in_attr, allowed)
            out.append(t)
            i += 1 + k
        else:
            out.append(s[i])
            i += 1
    return "".join(out)


class C14(Plugin):
    id = "C14"
    gen = ["Entities"]
    n_quick = 4000
    n_thorough = 60000
    case_timeout = 120
    rule = ("quick: every one of the 2231 names once with a follower drawn from 19 character classes, every legacy "
            "(semicolon-less) name x {data, attribute} x every follower class, numeric boundaries and a stride "
            "through 0..0x110000 in decimal/hex, overflow samples, every prefix of a sample of names against the "
            "trie; thorough: every name x every follower x {data, attribute}, every value 0..0x110000; plus "
            "end-to-end parses in data/RCDATA/double-, single-, un-quoted attribute contexts; non-trivial = "
            "distinct case that actually contains a reference")
    trusted_base = ["CPython html.entities.html5 and html._invalid_charrefs as the independent copy of the "
                    "standard's tables", "tools/props/c14.py:spec_decode (transcription of the standard's "
                                         "character reference states, search oracle)"]

    def corpus(self):
        from html5lib.constants import entities
        out = []
        names = sorted(entities)
        legacy = [n for n in names if not n.endswith(";")]
        for i, n in enumerate(names):
            out.append({"k": 0, "s": n + FOLLOW[i % len(FOLLOW)] + "z", "attr": i % 2, "allowed": None})
        for n in legacy:
            for f in FOLLOW:
                for a in (0, 1):
                    out.append({"k": 0, "s": n + f, "attr": a, "allowed": None})
        for v in [0, 1, 8, 9, 0xB, 0xD, 0x1F, 0x20, 0x7F, 0x80, 0x81, 0x9F, 0xA0, 0xD7FF, 0xD800, 0xDFFF, 0xE000,
                  0xFDD0, 0xFDEF, 0xFFFD, 0xFFFE, 0xFFFF, 0x10000, 0x1FFFE, 0x10FFFD, 0x10FFFE, 0x10FFFF, 0x110000,
                  9999999, 10000000, 0xFFFFFF, 0x1000000, 2 ** 32, 2 ** 64]:
            for fmt in ("#%d", "#x%x", "#X%X", "#000%d", "#x000%x"):
                for end in (";", "", "x", " "):
                    out.append({"k": 0, "s": (fmt % v) + end, "attr": 0, "allowed": None})
        out += [{"k": 0, "s": s, "attr": a, "allowed": al} for s in
                ["", "#", "#x", "#X;", "#;", "#xg", "x", " amp;", "<", "&amp;", "\"", "noti", "notit;", "notin;",
                 "not", "ampx", "amp=", "\x00", "#" + "0" * 5000 + "65;", "#" + "9" * 5000 + ";"]
                for a in (0, 1) for al in (None, '"', "'", ">")]
        out += [{"k": 3, "lo": lo, "n": 512} for lo in (0, 0xD700, 0xFD00, 0xFF00, 0x1FE00, 0x10FE00, 0x10FF00)]
        # references whose replacement is a space-like character that is NOT HTML whitespace, where whitespace is ignored
        for ref in ("&nbsp;", "&emsp;", "&thinsp;", "&ThickSpace;", "&#160;", "&#xA0", "&#x3000;", "&#8232;", "&#x1F;", "&#x85;", "&#11;",
                    "&NoBreak;", "&zwnj;", "&#32;", "&Tab;", "&NewLine;"):
            for ctx in ("doc", "afterhead", "data"):
                out.append({"k": 4, "text": ref + "x", "ctx": ctx})
                out.append({"k": 4, "text": " " + ref, "ctx": ctx})
        # the reference written for an unencodable code point: every code point that has a named entity, and boundaries
        from html5lib.serializer import _encode_entity_map
        named = sorted(_encode_entity_map)
        out += [{"k": 6, "cps": named[i:i + 400]} for i in range(0, len(named), 400)]
        out.append({"k": 6, "cps": [1, 9, 0x7F, 0x80, 0x9F, 0xA0, 0xFF, 0x100, 0xFFF, 0x1000, 0xD7FF, 0xE000, 0xFFFF, 0x10000,
                                    0xFFFFF, 0x100000, 0x10FFFF]})
        return out

    def known_witnesses(self):
        return {"C14-unencodable-c1-control-roundtrip": {"k": 5, "text": "a\x80b", "enc": "ascii"}}

    def cases(self, rng, n, tier):
        from html5lib.constants import entities
        names = sorted(entities)
        if tier == "thorough":
            for nm in names:
                for f in FOLLOW:
                    for a in (0, 1):
                        yield {"k": 0, "s": nm + f, "attr": a, "allowed": None}
            for lo in range(0, 0x110400, 1024):
                yield {"k": 3, "lo": lo, "n": 1024}
        for _ in range(n):
            r = rng.random()
            if r < 0.3:
                nm = rng.choice(names)
                cut = rng.choice([len(nm), len(nm), rng.randint(1, len(nm))])
                yield {"k": 0, "s": nm[:cut] + rng.choice(FOLLOW) + rng.choice(["", "q;", "="]),
                       "attr": rng.randint(0, 1), "allowed": rng.choice([None, None, '"', "'", ">"])}
            elif r < 0.45:
                v = rng.choice([rng.randrange(0x110000), rng.randrange(0x300), rng.randrange(2 ** 40)])
                fmt = rng.choice(["#%d", "#x%x", "#X%X", "#0%d", "#x0%X"])
                yield {"k": 0, "s": (fmt % v) + rng.choice([";", "", "g", ";;", "a"]), "attr": rng.randint(0, 1),
                       "allowed": None}
            elif r < 0.6:
                nm = rng.choice(names)
                p = nm[:rng.randint(0, len(nm))] + rng.choice(["", "", "a", ";", "Z", "1"])
                yield {"k": rng.choice([1, 2]), "s": p}
            elif r < 0.62:
                yield {"k": 3, "lo": rng.randrange(0, 0x110000, 64), "n": 64}
            elif r < 0.65:
                cps = [rng.choice([rng.randrange(1, 0x110000), rng.randrange(1, 0x3000)]) for _ in range(40)]
                yield {"k": 6, "cps": [c for c in cps if not 0xD800 <= c <= 0xDFFF]}
            elif r < 0.9:
                parts = []
                for _ in range(rng.randint(1, 4)):
                    q = rng.random()
                    if q < 0.4:
                        nm = rng.choice(names)
                        parts.append("&" + nm[:rng.choice([len(nm), len(nm), max(1, len(nm) - 1)])])
                    elif q < 0.6:
                        parts.append("&#%s%x%s" % (rng.choice(["x", "X"]), rng.randrange(0x110100), rng.choice([";", ""])))
                    elif q < 0.7:
                        parts.append("&#%d%s" % (rng.randrange(0x110100), rng.choice([";", ""])))
                    else:
                        parts.append(rng.choice(["a", "=", "b ", "&", "&#", "&x;", "é", "1", ";"]))
                yield {"k": 4, "text": "".join(parts), "ctx": rng.choice(["data", "rcdata", "dq", "sq", "unq", "doc", "afterhead"])}
            else:
                t = "".join(rng.choice(["a", "<", "&", ">", "\"", "é", "€", "∉", "\U0001d504", "\xa0", "'",
                                        "\x85", "\x9f", "﷐", "\x7f", "\x01"])
                            for _ in range(rng.randint(1, 6)))
                yield {"k": 5, "text": t, "enc": rng.choice(["ascii", "latin-1", "utf-8", "windows-1252", "koi8-r"])}

    def encode(self, case):
        k = case["k"]
        if k == 0:
            return [0, case["s"], [] if case["allowed"] is None else [ord(case["allowed"])], case["attr"]]
        if k in (1, 2):
            return [k, case["s"]]
        if k == 3:
            return [3, list(range(case["lo"], case["lo"] + case["n"]))]
        if k == 6:
            return [4, case["cps"]]
        return None

    @staticmethod
    def _tok(text):
        from html5lib._tokenizer import HTMLTokenizer
        t = HTMLTokenizer(text)
        from collections import deque
        t.tokenQueue = deque([])
        return t

    def impl(self, case):
        from html5lib.constants import tokenTypes
        k = case["k"]
        if k == 0:
            t = self._tok(case["s"])
            t.currentToken = {"type": tokenTypes["StartTag"], "name": "a", "data": [["b", ""]], "selfClosing": False}
            t.consumeEntity(allowedChar=case["allowed"], fromAttribute=bool(case["attr"]))
            errs = [x["data"] for x in t.tokenQueue if x["type"] == tokenTypes["ParseError"]]
            if case["attr"]:
                out = t.currentToken["data"][-1][1]
            else:
                chars = [x for x in t.tokenQueue if x["type"] != tokenTypes["ParseError"]]
                assert len(chars) == 1
                out = chars[0]["data"]
                self._kind = chars[0]["type"]
            rest = []
            while True:
                c = t.stream.char()
                if c is None:
                    break
                rest.append(c)
            return [out, errs, "".join(rest)]
        if k == 1:
            from html5lib._tokenizer import entitiesTrie
            return bool(entitiesTrie.has_keys_with_prefix(case["s"]))
        if k == 2:
            from html5lib._tokenizer import entitiesTrie
            try:
                return [entitiesTrie.longest_prefix(case["s"])]
            except KeyError:
                return []
        if k == 6:
            # serializer.py htmlentityreplace_errors, one code point at a time
            from html5lib.serializer import htmlentityreplace_errors
            res = []
            for cp in case["cps"]:
                ch = chr(cp)
                r, end = htmlentityreplace_errors(UnicodeEncodeError("ascii", ch, 0, 1, "x"))
                assert end == 1
                res.append(r)
            return res
        if k == 3:
            res = []
            for v in range(case["lo"], case["lo"] + case["n"]):
                t = self._tok("%x;" % v)
                ch = t.consumeNumberEntity(True)
                t2 = self._tok("%d;" % v)
                ch2 = t2.consumeNumberEntity(False)
                assert ch == ch2 and len(t.tokenQueue) == len(t2.tokenQueue)
                res.append([ord(ch), len(t.tokenQueue) > 0])
            return res
        if k == 4:
            import html5lib
            text, ctx = case["text"], case["ctx"]
            if ctx == "data":
                d = html5lib.parseFragment("<p>" + text + "</p>", treebuilder="dom")
                return ["".join(c.nodeValue for c in d.firstChild.childNodes)]
            if ctx in ("doc", "afterhead"):
                # text at the very start of a document / right after </head>: the tree builder ignores WHITESPACE
                # there, so a decoded character that is wrongly taken for whitespace disappears
                pre = "" if ctx == "doc" else "<!DOCTYPE html><head><title>t</title></head>"
                d = html5lib.parse(pre + text, treebuilder="dom")
                body = d.getElementsByTagName("body")[0]
                return ["".join(c.nodeValue for c in body.childNodes if c.nodeType == c.TEXT_NODE)]
            if ctx == "rcdata":
                d = html5lib.parseFragment("<textarea>x" + text + "</textarea>", treebuilder="dom")
                d.normalize()
                return [d.firstChild.firstChild.nodeValue[1:]]
            q = {"dq": '"', "sq": "'", "unq": ""}[ctx]
            d = html5lib.parseFragment("<p a=%s%s%s>" % (q, text, q), treebuilder="dom")
            return [d.firstChild.getAttribute("a")]
        # k == 5: serializer entity replacement, decoded again
        import html5lib
        from html5lib.serializer import HTMLSerializer
        toks = [{"type": "Characters", "data": case["text"]}]
        b = b"".join(HTMLSerializer(omit_optional_tags=False).serialize(toks, encoding=case["enc"]))
        s = b.decode(case["enc"])
        d = html5lib.parseFragment(s, treebuilder="dom")
        d.normalize()
        return [s, d.firstChild.nodeValue if d.firstChild is not None else ""]

    def oracle(self, case, out):
        k = case["k"]
        v = []
        if k == 0:
            text, consumed = spec_decode(case["s"], bool(case["attr"]), case["allowed"])
            o, errs, rest = out
            # html5lib may emit extra name characters it has already consumed: out = spec ++ extra, all alphanumeric
            if not (o.startswith(text) and (case["s"][consumed:] == o[len(text):] + rest)
                    and all(c in ALNUM for c in o[len(text):])):
                v.append(("reference-decoded-differently", repr((case["s"], case["attr"], o, rest, text, consumed))))
        if k == 6:
            # "... decodes back to the same text": the reference, followed by anything, decodes to the code point
            import html as _html
            for cp, ref in zip(case["cps"], out):
                for tail in ("", "x", "1;", "="):
                    text, consumed = spec_decode(ref[1:] + tail, False, None)
                    if not (text == chr(cp) and consumed == len(ref) - 1):
                        cls = "c1-control-reference" if (0x80 <= cp <= 0x9F or cp in _html._invalid_charrefs or cp == 0xD) \
                            else "written-reference-decodes-differently"
                        v.append((cls, "U+%04X written %r decodes to %r" % (cp, ref, text)))
                        break
        if k == 3:
            for i, (c, e) in enumerate(out):
                n = case["lo"] + i
                want = 0xFFFD if (n == 0 or n > 0x10FFFF or 0xD800 <= n <= 0xDFFF) else \
                    ord(html._invalid_charrefs[n]) if n in html._invalid_charrefs else n
                if c != want:
                    v.append(("numeric-reference-wrong", "U+%X -> U+%X, standard U+%X" % (n, c, want)))
        if k == 4:
            txt = case["text"]
            if case["ctx"] in ("dq", "sq", "unq"):
                if any(c in txt for c in "\"'<>` \t\n\x0c\r") or (case["ctx"] == "unq" and not txt):
                    return v
            elif "<" in txt:
                return v
            allowed = {"dq": '"', "sq": "'", "unq": ">", "data": None, "rcdata": None, "doc": None, "afterhead": None}[case["ctx"]]
            want = spec_text(txt, case["ctx"] in ("dq", "sq", "unq"), allowed)
            if case["ctx"] in ("doc", "afterhead"):
                want = want.lstrip("\t\n\x0c\r ")          # whitespace before the body is not inserted
                if "\x00" in want or "\r" in want:
                    return v
            if out[0] != want:
                v.append(("reference-decoded-differently", repr((case["ctx"], txt, out[0], want))))
        if k == 5:
            if out[1] != case["text"]:
                bad = [c for c in case["text"] if 0x80 <= ord(c) <= 0x9F or ord(c) in (0x0, 0xD)]
                enc_ok = True
                try:
                    "".join(bad).encode(case["enc"])
                except UnicodeEncodeError:
                    enc_ok = False
                cls = "unencodable-c1-control-roundtrip" if (bad and not enc_ok) else "entity-encoded-text-roundtrip"
                v.append((cls, repr((case["text"], case["enc"], out))))
        return v

    def classify(self, cls, case, detail):
        if cls in ("unencodable-c1-control-roundtrip", "c1-control-reference"):
            return "C14-unencodable-c1-control-roundtrip"
        return None

    def nontrivial_key(self, case, out):
        k = case["k"]
        if k == 3:
            return "num%d" % case["lo"]
        if k in (0, 4) and ("&" in case.get("text", "&") and len(case.get("s", "x")) > 0):
            return repr(sorted(case.items(), key=str))
        if k in (1, 2, 5, 6):
            return repr(sorted(case.items(), key=str))
        return None


PLUGIN = C14()
