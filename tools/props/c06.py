"""C06 -- encoding determination: precedence chain, BOM, label lookup and the meta prescan."""
import io

from framework import Plugin
import trees

LABELS_OK = ["utf-8", "UTF8", " utf-8\n", "koi8-r", "windows-1252", "latin1", "shift_jis", "x-sjis", "gbk", "utf-16le",
             "utf-16be", "utf-16", "iso-8859-2", "big5", "euc-jp", "x-user-defined"]
LABELS_BAD = ["bogus", "", "utf-7", "utf-32", "é", "utf_8", "none"]
PIECES = [b"<meta charset=%s>", b"<meta charset=\"%s\">", b"<meta charset='%s'>", b"<META CHARSET=%s>", b"<meta/charset=%s>",
          b"<meta http-equiv=content-type content=\"text/html; charset=%s\">",
          b"<meta content='text/html;charset=%s' http-equiv=Content-Type>", b"<meta content=\"charset=%s\">",
          b"<meta name=x content=y charset=%s>", b"<meta charset=bogus charset=%s>", b"<meta charset = %s >",
          b"<meta\ncharset=%s\n>", b"<metacharset=%s>", b"<meta charset=%s", b"<meta http-equiv=refresh content='charset=%s'>",
          b"<meta content='charset=%s' http-equiv='content-type'", b"<meta content=charset=%s;x http-equiv=content-type>",
          b"<meta http-equiv=content-type content='text/html; charset = \"%s\"'>",
          # forms from the independent audit (audit/tokenizer-stream-serializer.md, A.2-A.10)
          b"<metax a=\"<meta charset=%s>\">", b"<meta http-equiv=content-type content=\"text/html; charset=%s; foo\">",
          b"<meta http-equiv=content-type content=\"charset charset=%s\">", b"<meta content=\"text/html;charset=%s;x\" http-equiv=content-type>",
          b"<meta charset=bogus content=\"text/html; charset=%s\" http-equiv=content-type>", b"<metadata charset=%s>",
          b"<meta charset=%s<x>", b"<a<meta charset=%s>", b"<!--><title><meta charset=%s></title>"]
NOISE = [b"<!-- <meta charset=koi8-r> -->", b"<!--", b"-->", b"<title>", b"</title>", b"<a href='<meta charset=gbk>'>",
         b"<p ", b">", b"<", b"</x <meta charset=big5>", b"<!x <meta charset=big5>>", b"<?x?>", b"text ", b"\x00", b"=",
         b"<script>", b"'", b"\"", b"</ ", b"<a b=c d='e' f=\"g\" h>", b"x" * 40, b"<1>", b"</>", b"<b/>"]


def spec_get_attr(s, p, lt_ends=False):
    """WHATWG 'get an attribute'; returns (name, value, newpos) or (None, None, newpos)"""
    n = len(s)
    while p < n and s[p] in b"\t\n\x0c\r /":
        p += 1
    if p >= n:
        return None, None, p
    if s[p] == 0x3E:
        return None, None, p
    name, value = bytearray(), bytearray()
    while True:
        if p >= n:
            return None, None, p
        c = s[p]
        if c == 0x3D and name:
            p += 1
            break
        if c in b"\t\n\x0c\r ":
            while p < n and s[p] in b"\t\n\x0c\r ":
                p += 1
            if p >= n or s[p] != 0x3D:
                return bytes(name), b"", p
            p += 1
            break
        if c in b"/>":
            return bytes(name), b"", p
        name.append(c + 32 if 65 <= c <= 90 else c)
        p += 1
    while p < n and s[p] in b"\t\n\x0c\r ":
        p += 1
    if p >= n:
        return None, None, p
    c = s[p]
    if c in b"\"'":
        q = c
        while True:
            p += 1
            if p >= n:
                return None, None, p
            c = s[p]
            if c == q:
                if lt_ends and p + 1 >= n:
                    raise StopIteration      # recorded deviation: a quoted value ending at the very end of the data
                return bytes(name), bytes(value), p + 1
            value.append(c + 32 if 65 <= c <= 90 else c)
    if c == 0x3E:
        return bytes(name), b"", p
    value.append(c + 32 if 65 <= c <= 90 else c)
    p += 1
    while True:
        if p >= n:
            return None, None, p
        c = s[p]
        if c in b"\t\n\x0c\r >" or (lt_ends and c == 0x3C):
            return bytes(name), bytes(value), p
        value.append(c + 32 if 65 <= c <= 90 else c)
        p += 1


def spec_charset_from_content(v):
    """algorithm for extracting a character encoding from a meta element"""
    v = v.lower()
    p = 0
    while True:
        i = v.find(b"charset", p)
        if i < 0:
            return None
        p = i + 7
        while p < len(v) and v[p] in b"\t\n\x0c\r ":
            p += 1
        if p < len(v) and v[p] == 0x3D:
            break
    p += 1
    while p < len(v) and v[p] in b"\t\n\x0c\r ":
        p += 1
    if p >= len(v):
        return None
    if v[p] in b"\"'":
        q = v[p]
        j = v.find(bytes([q]), p + 1)
        return v[p + 1:j] if j >= 0 else None
    j = p
    while j < len(v) and v[j] not in b"\t\n\x0c\r ;":
        j += 1
    return v[p:j]


def dev_content(v):
    """html5lib's ContentAttrParser BEFORE its repair (kept for reference, unused): only the first 'charset' was
    considered and an unquoted value ended at whitespace only"""
    v = v.lower()
    i = v.find(b"charset")
    if i < 0:
        return None
    p = i + 7
    while p < len(v) and v[p] in b"\t\n\x0c\r ":
        p += 1
    if p >= len(v) or v[p] != 0x3D:
        return None
    p += 1
    while p < len(v) and v[p] in b"\t\n\x0c\r ":
        p += 1
    if p >= len(v):
        return None
    if v[p] in b"\"'":
        j = v.find(bytes([v[p]]), p + 1)
        return v[p + 1:j] if j >= 0 else None
    j = p
    while j < len(v) and v[j] not in b"\t\n\x0c\r ":
        j += 1
    return v[p:j]


def fin(name):
    """the prescan's last steps: UTF-16BE/LE means UTF-8, x-user-defined means windows-1252"""
    return "utf-8" if name in ("utf-16le", "utf-16be") else "windows-1252" if name == "x-user-defined" else name


def spec_prescan(s, dev=False):
    """WHATWG 'prescan a byte stream to determine its encoding' (2020), on the first 1024 bytes"""
    import webencodings
    n = len(s)
    p = 0
    while p < n:
        if s.startswith(b"<!--", p):
            j = s.find(b"-->", p + (4 if dev else 2))     # recorded deviation: '<!-->' is not a complete comment
            if j < 0:
                return None
            p = j + 3
            continue
        low = s[p:p + 6].lower()
        if low[:5] == b"<meta" and len(low) == 6 and low[5] in b"\t\n\x0c\r /":
            p += 6
            seen = set()
            got_pragma = False
            need_pragma = None
            charset = None
            while True:
                name, value, p = spec_get_attr(s, p, dev)
                if name is None:
                    break
                if name in seen and not dev:
                    continue
                seen.add(name)
                if dev:
                    # recorded deviation: attributes are acted upon one by one, the first decisive one wins
                    if name == b"http-equiv":
                        got_pragma = value == b"content-type"
                        if got_pragma and charset is not None and need_pragma:
                            return fin(charset.name)
                    elif name == b"charset":
                        try:
                            enc = webencodings.lookup(value.decode("ascii"))
                        except UnicodeDecodeError:
                            enc = None
                        if enc is not None:
                            return fin(enc.name)
                    elif name == b"content":
                        e = spec_charset_from_content(value)
                        if e is not None:
                            try:
                                enc = webencodings.lookup(e.decode("ascii"))
                            except UnicodeDecodeError:
                                enc = None
                            if enc is not None:
                                if got_pragma:
                                    return fin(enc.name)
                                charset, need_pragma = enc, True
                    continue
                if name == b"http-equiv":
                    if value == b"content-type":
                        got_pragma = True
                elif name == b"content":
                    e = spec_charset_from_content(value)
                    if e is not None and charset is None:
                        try:
                            enc = webencodings.lookup(e.decode("ascii"))
                        except UnicodeDecodeError:
                            enc = None
                        if enc is not None:
                            charset = enc
                            need_pragma = True
                elif name == b"charset":
                    try:
                        enc = webencodings.lookup(value.decode("ascii"))
                    except UnicodeDecodeError:
                        enc = None
                    charset = enc
                    need_pragma = False
            if dev or need_pragma is None or (need_pragma and not got_pragma) or charset is None:
                p += 0
                continue
            return fin(charset.name)
        if s[p:p + 1] == b"<" and p + 1 < n and (chr(s[p + 1]).isalpha() and s[p + 1] < 128):
            p += 1
            while p < n and s[p] not in b"\t\n\x0c\r >" and not (dev and s[p] == 0x3C):
                p += 1
            if dev and p < n and s[p] == 0x3C:
                continue
            while True:
                name, value, p = spec_get_attr(s, p, dev)
                if name is None:
                    break
            continue
        if dev and s[p:p + 2] == b"</":
            # recorded deviation: handlePossibleEndTag advances once more before looking at the tag name
            q = p + 3
            if q >= n:
                return None
            if chr(s[q]).isalpha() and s[q] < 128:
                p = q
                while p < n and s[p] not in b"\t\n\x0c\r ><":
                    p += 1
                if p < n and s[p] == 0x3C:
                    continue
                while True:
                    name, value, p = spec_get_attr(s, p, dev)
                    if name is None:
                        break
                continue
            j = s.find(b">", q - 1)
            if j < 0:
                return None
            p = j + 1
            continue
        if s[p:p + 2] == b"</" and p + 2 < n and (chr(s[p + 2]).isalpha() and s[p + 2] < 128):
            p += 2
            while p < n and s[p] not in b"\t\n\x0c\r >" and not (dev and s[p] == 0x3C):
                p += 1
            if dev and p < n and s[p] == 0x3C:
                continue
            while True:
                name, value, p = spec_get_attr(s, p, dev)
                if name is None:
                    break
            continue
        if s[p:p + 2] in (b"<!", b"</", b"<?"):
            j = s.find(b">", p)
            if j < 0:
                return None
            p = j + 1
            continue
        if dev and s[p:p + 1] == b"<":
            p += 1          # html5lib: the byte after a '<' that starts nothing is skipped as well
        p += 1
    return None


class Sched(object):
    def __init__(self, pieces):
        self.pieces = list(pieces)

    def read(self, n=-1):
        if not self.pieces:
            return b""
        p = self.pieces[0]
        if n is not None and 0 <= n < len(p):
            self.pieces[0] = p[n:]
            return p[:n]
        self.pieces.pop(0)
        return p


class C06(Plugin):
    id = "C06"
    gen = ["Encodings"]
    n_quick = 4000
    n_thorough = 150000
    case_timeout = 30
    rule = ("byte strings built from meta declarations in 18 syntactic forms (quoted/unquoted/missing values, "
            "pragma before/after content, duplicate attributes, slash after meta, truncated) x labels (valid, padded, "
            "invalid, utf-16*) placed among comments, tags, attribute values containing markup, NULs, with padding up "
            "to and across the 1024-byte window, with/without BOMs; x all subsets/values of the five *_encoding "
            "arguments; label lookups and content= charset extraction on their own; non-trivial = distinct case")
    trusted_base = ["webencodings.LABELS as the label table (environment)",
                    "tools/props/c06.py:spec_prescan -- my transcription of the standard's prescan (search oracle)"]

    def corpus(self):
        out = []
        for pc in PIECES:
            for lab in (b"koi8-r", b"UTF-16LE", b"bogus"):
                out.append({"k": 0, "b": list(pc % lab)})
        out += [{"k": 0, "b": list(b"x" * n + b"<meta charset=koi8-r>")} for n in (1000, 1003, 1004, 1005, 1010, 1024, 1030)]
        out += [{"k": 3, "b": list(bom + b"<meta charset=koi8-r>x"), "args": [None, None, None, None, None]}
                for bom in (b"\xef\xbb\xbf", b"\xff\xfe", b"\xfe\xff", b"\xff\xfe\x00\x00", b"\x00\x00\xfe\xff", b"\xef\xbb", b"")]
        return out

    def known_witnesses(self):
        return {"C06-prescan-syntactic-deviations": {"k": 0, "b": list(b"<meta charset=bogus charset=utf-8>")},
                "C06-truncated-sequence-at-eof": {"k": 4, "b": list(b"<meta charset=utf-8><p>a\xe2\x82"), "args": [None] * 5}}

    def cases(self, rng, n, tier):
        labs = [x.encode() for x in LABELS_OK] + [x.encode("utf-8") for x in LABELS_BAD]
        for _ in range(n):
            r = rng.random()
            if r < 0.1:
                lab = rng.choice(LABELS_OK + LABELS_BAD)
                if rng.random() < 0.3:
                    lab = lab.upper() + rng.choice(["", " ", "\t", "\x0b"])
                yield {"k": 1, "s": lab}
            elif r < 0.2:
                lab = rng.choice(labs)
                v = rng.choice([b"text/html; charset=%s", b"charset=\"%s\"", b"charset = '%s' x", b"charset", b"charset=",
                                b"xcharset=%s;", b"charset %s", b"CHARSET=%s", b"charset='%s", b"a charset=%s b",
                                b"text/html; charset=%s; foo", b"charset charset=%s", b"charset;charset = %s;", b"charsetcharset=%s",
                                b"charset=%s;charset=utf-8", b"charset x charset y charset=\"%s\""])
                v = v % lab if b"%s" in v else v
                yield {"k": 2, "s": v.decode("latin-1")}
            else:
                parts = []
                for _ in range(rng.randint(0, 4)):
                    parts.append(rng.choice(NOISE))
                for _ in range(rng.randint(1, 2)):
                    parts.append(rng.choice(PIECES) % rng.choice(labs))
                    parts.append(rng.choice(NOISE + [b""]))
                rng.shuffle(parts)
                b = b"".join(parts)
                if rng.random() < 0.15:
                    b = b"y" * rng.choice([900, 990, 1000, 1010, 1020]) + b
                q = rng.random()
                if q < 0.25:
                    # whole parse: one or two declarations, possibly beyond the prescan window, then non-ASCII text
                    labs2 = [x.encode() for x in LABELS_OK[:11] + ["utf-16", "x-user-defined", "bogus"]]
                    body = b"<p>\xf0\xd2\xc9\xd7\xc5\xd4 caf\xc3\xa9</p>"
                    pad = rng.choice([b"", b"", b"<!--" + b"x" * 1100 + b"-->"])
                    metas = b"".join(rng.choice(PIECES[:8] + PIECES[18:23]) % rng.choice(labs2) for _ in range(rng.randint(0, 2)))
                    args = [rng.choice([None, None, None, None] + LABELS_OK[:8]) for _ in range(5)]
                    if rng.random() < 0.7:
                        args[0] = args[1] = None
                    if rng.random() < 0.3:
                        # the declaration directly in table / table body / row context, after rows opened earlier: the
                        # restart happens in the middle of a foster-parenting insertion
                        pre = rng.choice([b"<table><tr>", b"<table><tbody>", b"<table><tr><td>a</td></tr><tr>", b"<table>",
                                          b"<table><tr><td>1</td></tr></table><table><tbody>"])
                        yield {"k": 4, "b": list(pad + pre + metas + b"<td>\xc1\xc2\xd7</td></tr></table>" + body), "args": args}
                        continue
                    tail = rng.choice([b"", b"", b"", metas, b"\xe2\x82", b"\xc3", b"\x81", b"\xf0\x9f\x98"])
                    yield {"k": 4, "b": list(pad + metas + body + tail), "args": args}
                elif q < 0.6:
                    yield {"k": 0, "b": list(b)}
                else:
                    if rng.random() < 0.3:
                        b = rng.choice([b"\xef\xbb\xbf", b"\xff\xfe", b"\xfe\xff"]) + b
                    args = [rng.choice([None, None, None] + LABELS_OK[:10] + LABELS_BAD[:3]) for _ in range(5)]
                    yield {"k": 3, "b": list(b), "args": args}

    @staticmethod
    def _expected_final(b, args):
        """the encoding the documented mechanism must end with: a certain source, else the tentative one unless the first
        valid <meta> declaration the tree constructor meets names another encoding (then a re-parse with it)"""
        import webencodings
        import html5lib
        from html5lib import _inputstream

        def lk(x):
            if x is None:
                return None
            if isinstance(x, bytes):
                try:
                    x = x.decode("ascii")
                except UnicodeDecodeError:
                    return None
            try:
                x.encode("ascii")
            except UnicodeEncodeError:
                return None
            e = webencodings.lookup(x)
            return e.name if e else None
        bom = "utf-8" if b.startswith(b"\xef\xbb\xbf") else None
        if bom is None:
            bom = "utf-16le" if b.startswith(b"\xff\xfe") else "utf-16be" if b.startswith(b"\xfe\xff") else None
        ov, tr, pa, li, de = [lk(a) for a in args]
        for c in (bom, ov, tr):
            if c:
                return c, True
        meta = _inputstream.EncodingParser(b[:1024]).getEncoding()
        meta = fin(meta.name) if meta else None
        if pa and pa.startswith("utf-16"):
            pa = None
        tentative = [x for x in (meta, pa, li, de, "windows-1252") if x][0]
        doc = html5lib.parse(webencodings.lookup(tentative).codec_info.streamreader(io.BytesIO(b), "replace").read(),
                             treebuilder="dom")
        for m in doc.getElementsByTagName("meta"):
            # the standard's rule for a meta start tag in head: a charset attribute that yields an encoding, otherwise
            # http-equiv=content-type with a content attribute that yields one; UTF-16 means UTF-8, x-user-defined
            # means windows-1252
            label = None
            if m.hasAttribute("charset"):
                label = lk(m.getAttribute("charset"))
            if label is None and m.hasAttribute("content") and m.getAttribute("http-equiv").lower() == "content-type":
                r = spec_charset_from_content(m.getAttribute("content").encode("utf-8"))
                label = lk(bytes(r)) if r is not None else None
            if label is None:
                continue
            return fin(label), False
        return tentative, False

    def encode(self, case):
        k = case["k"]
        if k == 0:
            return [0, case["b"]]
        if k in (1, 2):
            return [k, case["s"]]
        if k == 4:
            return None
        return [3, case["b"]] + [[] if a is None else [a] for a in case["args"]]

    def impl(self, case):
        from html5lib import _inputstream
        k = case["k"]
        if k == 0:
            e = _inputstream.EncodingParser(bytes(case["b"])).getEncoding()
            return [] if e is None else [e.name]
        if k == 1:
            e = _inputstream.lookupEncoding(case["s"])
            return [] if e is None else [e.name]
        if k == 2:
            r = _inputstream.ContentAttrParser(_inputstream.EncodingBytes(case["s"].encode("latin-1"))).parse()
            return [] if r is None else [bytes(r).decode("latin-1")]
        names = ["override_encoding", "transport_encoding", "same_origin_parent_encoding", "likely_encoding", "default_encoding"]
        kw = {n: a for n, a in zip(names, case["args"])}
        if k == 4:
            import html5lib
            p = html5lib.HTMLParser(tree=html5lib.getTreeBuilder("dom"))
            doc = p.parse(bytes(case["b"]), useChardet=False, **kw)
            enc = p.documentEncoding
            import webencodings
            # decode exactly as a byte stream is decoded (incremental codec reader, errors='replace')
            text = webencodings.lookup(enc).codec_info.streamreader(io.BytesIO(bytes(case["b"])), "replace").read()
            ref = html5lib.parse(text, treebuilder="dom")
            same = trees.coalesce(trees.dom_forest(doc)) == trees.coalesce(trees.dom_forest(ref))
            # ... and as the bytes decode when the decoder is told that the input ends there
            text2 = webencodings.lookup(enc).codec_info.decode(bytes(case["b"]), "replace")[0]
            same2 = text2 == text or \
                trees.coalesce(trees.dom_forest(doc)) == trees.coalesce(trees.dom_forest(html5lib.parse(text2, treebuilder="dom")))
            return [enc, same, same2]
        st = _inputstream.HTMLBinaryInputStream(bytes(case["b"]), useChardet=False, **kw)
        return [st.charEncoding[0].name, st.charEncoding[1] == "certain"]

    def oracle(self, case, out):
        v = []
        k = case["k"]
        if k == 0:
            b = bytes(case["b"])
            want = spec_prescan(b)
            got = fin(out[0]) if out else None
            if want != got:
                # the standard's algorithm with exactly the recorded deviations switched on
                try:
                    dev = spec_prescan(b, dev=True)
                except StopIteration:
                    dev = None
                cls = "prescan-recorded-deviation" if dev == got else "prescan-differs-from-standard"
                v.append((cls, repr((b[:200], got, want))))
        if k == 2:
            want = spec_charset_from_content(case["s"].encode("latin-1"))
            got = out[0].encode("latin-1") if out else None
            if want != got:
                v.append(("content-charset-differs-from-standard", repr((case["s"], got, want))))
        if k == 4:
            want, _ = self._expected_final(bytes(case["b"]), case["args"])
            if out[0] != want:
                v.append(("final-encoding-not-the-selected-one", repr((bytes(case["b"])[:120], case["args"], out[0], want))))
            if not out[1]:
                v.append(("tree-differs-from-decoding-with-reported-encoding", repr((bytes(case["b"])[:120], out[0]))))
            elif not out[2]:
                v.append(("tree-differs-from-decoding-the-complete-input", repr((bytes(case["b"])[-60:], out[0]))))
        if k == 3:
            # the documented precedence, evaluated independently
            import webencodings
            from html5lib import _inputstream
            b = bytes(case["b"])

            def lk(x):
                if x is None:
                    return None
                try:
                    x.encode("ascii")
                except UnicodeEncodeError:
                    return None
                e = webencodings.lookup(x)
                return e.name if e else None
            bom = "utf-8" if b.startswith(b"\xef\xbb\xbf") else None
            if bom is None:
                bom = "utf-16le" if b.startswith(b"\xff\xfe") else "utf-16be" if b.startswith(b"\xfe\xff") else None
            ov, tr, pa, li, de = [lk(a) for a in case["args"]]
            meta = _inputstream.EncodingParser(b[:1024]).getEncoding()   # (the window: first 1024 bytes)
            meta = fin(meta.name) if meta else None
            if pa and pa.startswith("utf-16"):
                pa = None
            chain = [(bom, True), (ov, True), (tr, True), (meta, False), (pa, False), (li, False), (de, False),
                     ("windows-1252", False)]
            want = [list(x) for x in chain if x[0]][0]
            if out != want:
                v.append(("precedence-violated", repr((case["args"], b[:60], out, want))))
        return v

    def classify(self, cls, case, detail):
        if cls == "prescan-recorded-deviation":
            return "C06-prescan-syntactic-deviations"
        if cls == "tree-differs-from-decoding-the-complete-input":
            # is the only difference an incomplete multi-byte sequence at the very end of the input?
            import webencodings
            b = bytes(case["b"])
            try:
                enc = eval(detail)[1]
                ci = webencodings.lookup(enc).codec_info
                d = ci.incrementaldecoder("replace")
                part = d.decode(b, False)
                whole = ci.decode(b, "replace")[0]
                if whole.startswith(part) and whole != part and set(whole[len(part):]) == {"\ufffd"}:
                    return "C06-truncated-sequence-at-eof"
            except Exception:
                return None
        return None

    def nontrivial_key(self, case, out):
        return repr(sorted(case.items(), key=str))

    def describe(self, case):
        d = dict(case)
        if "b" in d:
            d["b"] = bytes(d["b"]).decode("latin-1")
        return d


PLUGIN = C06()
