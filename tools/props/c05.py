"""C05 -- delivery independence: HTMLUnicodeInputStream model correspondence + end-to-end delivery oracle."""
import io

from framework import Plugin
import trees
import gen_markup

ALPH = ["a", "b", "<", ">", "&", "\r", "\n", "\r", "\n", " ", "\x00", "\x01", "-", "\U0001f600", "\ud83d", "\ude00",
        "é", "\x0c", "\t", "￾", "x", "/", "!", "D", "="]
SETS = ["<&\x00", "<\x00", "\t\n\x0c \r", "\x00-", ">", "\"&\x00", "'&\x00", "abcdefghijklmnopqrstuvwxyzABCDEFGHIJKLMNOPQRSTUVWXYZ"]


class Sched(object):
    """text (or byte) stream that returns the scheduled pieces, whatever size is asked (never more than asked)"""
    def __init__(self, pieces):
        self.pieces = list(pieces)
        self.empty = pieces[0][:0] if pieces else ""

    def read(self, n=-1):
        if not self.pieces:
            return self.empty
        p = self.pieces[0]
        if n is not None and 0 <= n < len(p):
            self.pieces[0] = p[n:]
            return p[:n]
        self.pieces.pop(0)
        return p


def split(rng, s, maxlen=4):
    out = []
    i = 0
    while i < len(s):
        k = rng.randint(1, maxlen)
        out.append(s[i:i + k])
        i += k
    return out


def parse_obs(src, **kw):
    import html5lib
    from html5lib import treebuilders
    p = html5lib.HTMLParser(tree=treebuilders.getTreeBuilder("dom"))
    doc = p.parse(src, **kw)
    return [trees.enc_forest(trees.coalesce(trees.dom_forest(doc))),
            [[list(pos), code] for pos, code, _ in p.errors]]


class C05(Plugin):
    id = "C05"
    gen = ["InputStream"]
    n_quick = 3000
    n_thorough = 150000
    case_timeout = 30
    rule = ("50% client operation sequences (char, charsUntil with the tokenizer's character sets, unget of the last "
            "1-3 characters, position, error count) on the real HTMLUnicodeInputStream fed by a short-reading source "
            "with a generated read schedule and chunk size 1..64, against the model; 10% drain of whole inputs; 40% "
            "end-to-end parses of the same characters delivered as str / StringIO / scheduled short reads / chunk "
            "sizes {1,2,3,5,7,16} / bytes, BytesIO and non-seekable byte streams in utf-8, utf-16, windows-1252, "
            "shift_jis, gb18030 with override_encoding; inputs biased to CR/LF runs, astral characters, lone "
            "surrogates, multi-character tokens across boundaries; non-trivial = distinct case with >= 2 reads")
    trusted_base = ["codecs incremental decoders (segmentation independent; exercised, not modelled)",
                    "str.replace('\\r\\n','\\n').replace('\\r','\\n') modelled by a one-pass scanner"]

    def corpus(self):
        out = []
        for s in ["a\r\nb", "\r\n", "\r", "a\r", "\r\r\n\n\r", "x😀y", "\U0001f600", "ab\x01c"]:
            for k in (1, 2, 3):
                reads = [s[i:i + k] for i in range(0, len(s), k)]
                out.append({"k": 1, "reads": reads, "cs": 64})
                out.append({"k": 0, "reads": reads, "cs": k, "ops": [[0], [3], [0], [3], [0], [2, 1], [3], [0], [0], [0], [3], [4]]})
        out += [{"k": 2, "src": s} for s in ["<p><!DOx>bc<", "<!-", "a\r\nb\r\r\n<p>\r", "<p>ab</p>\x01<b>\x01",
                                            "<!DOCTYPE html>\r\n<title>x</title>&notin;</script", "x\ud83d"]]
        # documents that declare ANOTHER encoding than the (certain) one they are delivered in
        out += [{"k": 2, "src": s} for s in ["<meta charset=windows-1252><p>caf\xe9 \u20ac", "<meta charset=utf-8><p>\xe9\xe8",
                                            "<meta http-equiv=content-type content='text/html; charset=koi8-r'><p>\xe9t\xe9</",
                                            "<!-- " + "x" * 1100 + " --><meta charset=shift_jis><p>\xe9 &",
                                            "<meta charset=utf-16><p>\xe9<", "<p>\xe9<meta charset=gb18030>\xe8"]]
        return out

    def known_witnesses(self):
        return {"C05-invalid-codepoint-error-position": {"k": 2, "src": "<p>ab</p>\x01<b>cd</b>"}}

    def cases(self, rng, n, tier):
        for _ in range(n):
            r = rng.random()
            if r < 0.6:
                s = "".join(rng.choice(ALPH) for _ in range(rng.randint(0, 14)))
                cs = rng.choice([1, 1, 2, 3, 5, 8, 64])
                reads = [p for piece in split(rng, s, rng.choice([1, 2, 4, 9])) for p in
                         [piece[i:i + cs] for i in range(0, len(piece), cs)]]
                if r < 0.1:
                    yield {"k": 1, "reads": reads, "cs": cs}
                    continue
                ops = []
                reads_since = 0
                ungot = 0           # consecutive push-backs since the last read
                has_nl = "\r" in s or "\n" in s
                for _ in range(rng.randint(1, 14)):
                    q = rng.random()
                    if q < 0.45:
                        ops.append([0])
                        reads_since += 1
                        ungot = 0
                    elif q < 0.65:
                        ops.append([1, rng.choice(SETS), rng.random() < 0.2])
                        reads_since = 0
                        ungot = 0
                    elif q < 0.8 and reads_since and not (has_nl and ungot):
                        # the tokenizer pushes back several characters only in the markup-declaration-open state,
                        # and all but the most recent one are then '-', '[' or letters -- never a newline
                        k = rng.randint(1, min(3, reads_since)) if not ("\r" in s or "\n" in s) else 1
                        ops.append([2, k])
                        reads_since -= k
                        ungot += k
                    elif q < 0.93:
                        ops.append([3])
                    else:
                        ops.append([4])
                yield {"k": 0, "reads": reads, "cs": cs, "ops": ops}
            else:
                src = gen_markup.document(rng, 8)
                if rng.random() < 0.5:
                    i = rng.randrange(len(src) + 1)
                    src = src[:i] + rng.choice(["\r\n", "\r", "\U0001f600", "\x01", "<!DOCTYPE", "-->", "]]>", "&notin;",
                                                "</script", "<!--", "\r\r\n"]) + src[i:]
                yield {"k": 2, "src": src}

    def encode(self, case):
        if case["k"] == 0:
            return [0, case["reads"], case["ops"]]
        if case["k"] == 1:
            return [1, case["reads"]]
        return None

    def _stream(self, case):
        from html5lib import _inputstream
        _inputstream.HTMLUnicodeInputStream._defaultChunkSize = case["cs"]
        try:
            return _inputstream.HTMLUnicodeInputStream(Sched(case["reads"]))
        finally:
            _inputstream.HTMLUnicodeInputStream._defaultChunkSize = 10240

    def impl(self, case):
        from html5lib import _inputstream
        if case["k"] in (0, 1):
            st = self._stream(case)
            st._defaultChunkSize = case["cs"]
            if case["k"] == 1:
                out = []
                while True:
                    c = st.char()
                    if c is None:
                        break
                    out.append(c)
                return "".join(out)
            res = []
            hist = []
            for o in case["ops"]:
                if o[0] == 0:
                    c = st.char()
                    hist.insert(0, c)
                    res.append([] if c is None else [ord(c)])
                elif o[0] == 1:
                    res.append(st.charsUntil(frozenset(o[1]) if False else o[1], o[2]))
                    hist = []
                elif o[0] == 2:
                    ok = True
                    for _ in range(o[1]):
                        if not hist:
                            break
                        try:
                            st.unget(hist.pop(0))
                        except AssertionError:
                            ok = False
                    res.append(ok)
                elif o[0] == 3:
                    res.append(list(st.position()))
                else:
                    res.append(len(st.errors))
            return res
        # end-to-end: the same characters under different deliveries
        src = case["src"]
        ref = parse_obs(src)
        diffs = []
        import random
        rng = random.Random(len(src) * 7919 + sum(map(ord, src)))

        def check(name, f):
            try:
                got = f()
            except Exception as e:
                got = ["exception", type(e).__name__]
            if got != ref:
                diffs.append([name, 0 if got[0] != ref[0] else 1])
        check("StringIO", lambda: parse_obs(io.StringIO(src)))
        check("short-reads", lambda: parse_obs(Sched(split(rng, src, 3))))
        check("one-char-reads", lambda: parse_obs(Sched(list(src))))
        for cs in (1, 2, 3, 5, 7, 16):
            def with_cs(cs=cs):
                _inputstream.HTMLUnicodeInputStream._defaultChunkSize = cs
                try:
                    return parse_obs(src)
                finally:
                    _inputstream.HTMLUnicodeInputStream._defaultChunkSize = 10240
            check("chunk-size-%d" % cs, with_cs)
        for enc in ("utf-8", "utf-16", "windows-1252", "shift_jis", "gb18030"):
            try:
                b = src.encode(enc)
                if b.decode(enc) != src or "\x00" in src and enc == "utf-16":
                    continue
            except UnicodeError:
                continue
            check("bytes-" + enc, lambda: parse_obs(b, override_encoding=enc))
            check("BytesIO-" + enc, lambda: parse_obs(io.BytesIO(b), override_encoding=enc))
            check("nonseekable-" + enc, lambda: parse_obs(Sched(split(rng, b, 5)), override_encoding=enc))
            # the other two certain sources: the transport layer, and a byte order mark
            check("bytes-transport-" + enc, lambda: parse_obs(b, transport_encoding=enc))
            if enc == "utf-8":
                check("bytes-bom-utf-8", lambda: parse_obs(b"\xef\xbb\xbf" + b))
                check("nonseekable-bom-utf-8", lambda: parse_obs(Sched([bytes([x]) for x in b"\xef\xbb\xbf" + b])))
        return [len(ref[1]), diffs]

    def oracle(self, case, out):
        v = []
        if case["k"] == 1:
            want = "".join(case["reads"]).replace("\r\n", "\n").replace("\r", "\n")
            if out != want:
                v.append(("characters-depend-on-segmentation", repr((case["reads"], out))))
        if case["k"] == 2:
            for name, what in out[1]:
                if what == 0:
                    v.append(("tree-depends-on-delivery", name))
                else:
                    src = case["src"]
                    import re
                    from html5lib._inputstream import invalid_unicode_re
                    cls = "invalid-codepoint-error-position" if invalid_unicode_re.search(src) else "errors-depend-on-delivery"
                    v.append((cls, name))
        return v

    def classify(self, cls, case, detail):
        if cls == "invalid-codepoint-error-position":
            return "C05-invalid-codepoint-error-position"
        return None

    def nontrivial_key(self, case, out):
        if case["k"] in (0, 1) and len(case["reads"]) >= 2:
            return repr(sorted(case.items(), key=str))
        if case["k"] == 2 and len(case["src"]) > 3:
            return case["src"]
        return None


PLUGIN = C05()
