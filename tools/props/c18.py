"""C18 -- alphabetical-attributes filter: correspondence of Model/C18.v with the real filter."""
import itertools
from collections import OrderedDict

from framework import Plugin
from tokens import enc_tokens

NS = [None, None, None, "", "http://www.w3.org/1999/xlink", "http://www.w3.org/XML/1998/namespace",
      "x", "a", "é", "\U0001f600"]
NAMES = ["href", "lang", "a", "b", "ab", "A", "", "z", "é", "\U0001f600", "xlink:href", "id", "class"]
KINDS = ["StartTag", "EmptyTag", "EndTag", "Characters", "SpaceCharacters", "Comment", "Doctype", "Entity",
         "SerializeError", "Bogus"]


def mk_token(kind, rng):
    if kind in ("StartTag", "EmptyTag"):
        n = rng.choice([0, 1, 2, 3, 3, 4, 5, 8])
        keys = []
        while len(keys) < n:
            k = (rng.choice(NS), rng.choice(NAMES))
            if k not in keys:
                keys.append(k)
        return {"type": kind, "namespace": rng.choice([None, "http://www.w3.org/1999/xhtml"]),
                "name": rng.choice(["a", "svg", "p"]),
                "data": [[list(k), rng.choice(["", "v", "1", "é"])] for k in keys]}
    if kind == "EndTag":
        return {"type": kind, "namespace": None, "name": "a"}
    if kind in ("Characters", "SpaceCharacters", "Comment", "SerializeError"):
        return {"type": kind, "data": rng.choice(["", " ", "x y"])}
    if kind == "Doctype":
        return {"type": kind, "name": "html", "publicId": None, "systemId": ""}
    if kind == "Entity":
        return {"type": kind, "name": "amp"}
    return {"type": kind}


def to_py(tok):
    t = dict(tok)
    if t["type"] in ("StartTag", "EmptyTag"):
        t["data"] = OrderedDict(((k[0], k[1]), v) for k, v in tok["data"])
    return t


class C18(Plugin):
    id = "C18"
    gen = ["AlphaAttrs"]
    n_quick = 5000
    n_thorough = 150000
    rule = ("random token streams (1-4 tokens) whose tags carry 0-8 attributes over namespaces "
            "{None, '', xlink, xml, short and non-ASCII strings} x local names incl. shared names, plus all "
            "permutations of every <=4-attribute dict over a fixed key set; non-trivial = distinct case with a tag "
            "carrying >= 2 attributes")
    trusted_base = ["Python's sorted() is a stable sort (the model's insertion sort is one; equality of the two is "
                    "what the correspondence checks)"]

    def corpus(self):
        out = []
        keys = [(None, "href"), ("http://www.w3.org/1999/xlink", "href"), ("", "href"),
                ("http://www.w3.org/XML/1998/namespace", "lang")]
        for r in range(1, 5):
            for perm in itertools.permutations(keys, r):
                out.append({"toks": [{"type": "StartTag", "namespace": None, "name": "a",
                                      "data": [[list(k), str(i)] for i, k in enumerate(perm)]}]})
        # the same key set on consecutive tags, in different orders (a filter must not carry anything over)
        for r in (2, 3):
            perms = list(itertools.permutations(keys[:r + 1], r))
            for i, p1 in enumerate(perms):
                p2 = perms[(i * 5 + 1) % len(perms)]
                if set(p1) != set(p2):
                    p2 = tuple(reversed(p1))
                mk = lambda pp, nm: {"type": nm, "namespace": None, "name": "td", "data": [[list(k), str(j)] for j, k in enumerate(pp)]}
                out.append({"toks": [mk(p1, "StartTag"), {"type": "Characters", "data": "x"}, mk(p2, "StartTag"), mk(p1, "EmptyTag")]})
        return out

    def cases(self, rng, n, tier):
        for _ in range(n):
            yield {"toks": [mk_token(rng.choice(KINDS[:2] * 4 + KINDS), rng) for _ in range(rng.randint(1, 4))]}

    def encode(self, case):
        return enc_tokens([to_py(t) for t in case["toks"]])

    def impl(self, case):
        from html5lib.filters.alphabeticalattributes import Filter
        f = Filter([to_py(t) for t in case["toks"]])
        first = enc_tokens(list(f))
        # a filter over a re-iterable source can be iterated again: the second pass must give the same tokens
        self._second = enc_tokens(list(f))
        return first

    def oracle(self, case, out):
        # the property, evaluated directly on the implementation's output
        v = []
        if getattr(self, "_second", out) != out:
            return [("second-iteration-differs", "first pass %d tokens, second pass %d" % (len(out), len(self._second)))]
        if len(out) != len(case["toks"]):
            return [("token-count", "")]
        for tin, tout in zip(enc_tokens([to_py(t) for t in case["toks"]]), out):
            if tin[0] in (3, 5):
                if tin[:3] != tout[:3]:
                    v.append(("tag-altered", ""))
                if sorted(map(repr, tin[3])) != sorted(map(repr, tout[3])):
                    v.append(("attributes-not-a-permutation", ""))
                ks = [((a[0][0][0] if a[0][0] else ""), a[0][1]) for a in tout[3]]
                if ks != sorted(ks):
                    v.append(("not-sorted", ""))
            elif tin != tout:
                v.append(("other-token-altered", ""))
        return v

    def nontrivial_key(self, case, out):
        if any(t["type"] in ("StartTag", "EmptyTag") and len(t["data"]) >= 2 for t in case["toks"]):
            return repr(case)
        return None


PLUGIN = C18()
