"""C19 -- to_sax: correspondence of Model/C19.v and the property evaluated on the real adapter."""
from framework import Plugin
from tokens import enc_tokens, from_json, walk
import trees
import gen_markup
from sexp import opt


class Rec(object):
    def __init__(self):
        self.ev = []

    def startDocument(self):
        self.ev.append([0])

    def endDocument(self):
        self.ev.append([1])

    def startPrefixMapping(self, p, ns):
        self.ev.append([2, p, ns])

    def endPrefixMapping(self, p):
        self.ev.append([3, p])

    def startElementNS(self, name, qname, attrs):
        items = list(attrs.items())
        qn = []
        for k, _ in items:
            try:
                qn.append(opt(attrs.getQNameByName(k)))
            except KeyError:
                qn.append([])
        self.ev.append([4, opt(name[0]), name[1], [[[opt(k[0]), k[1]], v] for k, v in items], qn, qname])

    def endElementNS(self, name, qname):
        self.ev.append([5, opt(name[0]), name[1], qname])

    def characters(self, s):
        self.ev.append([6, s])


def rebuild(ev):
    """independent consumer: events -> forest (abstract nodes), None if not well nested"""
    stack = [[]]
    names = []
    for e in ev:
        if e[0] == 4:
            names.append((e[1], e[2]))
            stack.append([])
            stack[-1].append(None)
            stack[-1][0] = e
        elif e[0] == 5:
            if not names or names[-1] != (e[1], e[2]):
                return None
            names.pop()
            frame = stack.pop()
            st = frame[0]
            stack[-1].append(["E", (st[1] or [None])[0], st[2],
                              [[[(k[0] or [None])[0], k[1]], v] for k, v in st[3]], frame[1:]])
        elif e[0] == 6:
            if len(stack[-1]) and isinstance(stack[-1][-1], list) and stack[-1][-1][0] == "T":
                stack[-1][-1] = ["T", stack[-1][-1][1] + e[1]]
            elif e[1]:
                stack[-1].append(["T", e[1]])
    if names:
        return None
    return stack[0]


class C19(Plugin):
    id = "C19"
    gen = ["Sax", "Consts"]
    n_quick = 3000
    n_thorough = 100000
    rule = ("60% documents/fragments parsed from generated markup (void, foreign, namespaced attributes, comments, "
            "doctype, text around every node) -> abstract forest by direct DOM traversal -> real dom/etree walker "
            "-> to_sax; 40% raw random token streams (incl. Entity/SerializeError/unknown types that hit the "
            "assertion); non-trivial = distinct case with at least one element event")
    trusted_base = ["xml.sax AttributesNSImpl (getQNameByName = dict lookup)"]

    def cases(self, rng, n, tier):
        import html5lib
        for _ in range(n):
            if rng.random() < 0.6:
                src = gen_markup.document(rng)
                frag = rng.random() < 0.4
                ns = rng.random() < 0.75
                p = html5lib.HTMLParser(tree=html5lib.getTreeBuilder("dom"), namespaceHTMLElements=ns)
                doc = p.parseFragment(src) if frag else p.parse(src)
                yield {"k": 1, "src": src, "frag": frag, "forest": trees.dom_forest(doc), "ns": ns}
            else:
                from props.c17 import PLUGIN as c17
                c = next(iter(c17.cases(rng, 1, tier)))
                toks = c["toks"]
                if rng.random() < 0.15:
                    toks = toks + [rng.choice([{"type": "Entity", "name": "amp"},
                                               {"type": "SerializeError", "data": "x"}, {"type": "Bogus"}])]
                yield {"k": 0, "toks": toks}

    def encode(self, case):
        if case["k"] == 0:
            return [0, enc_tokens([from_json(t) for t in case["toks"]])]
        return [1, trees.enc_forest(case["forest"])]

    def _events(self, toks):
        from html5lib.treeadapters.sax import to_sax
        h = Rec()
        try:
            to_sax(toks, h)
        except AssertionError:
            return None
        return h.ev

    def impl(self, case):
        if case["k"] == 0:
            ev = self._events([from_json(t) for t in case["toks"]])
            if ev is None:
                return [2]
            return [1, [e[:5] if e[0] == 4 else (e[:3] if e[0] == 5 else e) for e in ev]]
        import html5lib
        p = html5lib.HTMLParser(tree=html5lib.getTreeBuilder("dom"), namespaceHTMLElements=case.get("ns", True))
        doc = p.parseFragment(case["src"]) if case["frag"] else p.parse(case["src"])
        ev = self._events(html5lib.getTreeWalker("dom")(doc))
        if ev is None:
            return [2]
        f = rebuild(ev)
        if f is None:
            return [3]
        self._last_events = ev
        # "any walker stream": also a walker started on an element that has following siblings (the first element with
        # a next sibling, in document order) -- the events must describe that subtree and nothing else
        self._sub = None
        stack = [doc]
        while stack:
            n = stack.pop()
            if n.nodeType == n.ELEMENT_NODE and n.nextSibling is not None:
                try:
                    ev2 = self._events(html5lib.getTreeWalker("dom")(n))
                    f2 = rebuild(ev2) if ev2 is not None else None
                except Exception as e:          # mis-nested events make the rebuilding handler fail
                    f2 = None
                want2 = trees.coalesce(trees.strip_cd([trees.dom_node(n)]))
                self._sub = [None if f2 is None else trees.enc_forest(f2), trees.enc_forest(want2)]
                break
            stack.extend(reversed(list(n.childNodes)))
        return [1, trees.enc_forest(f)]

    def oracle(self, case, out):
        v = []
        if case["k"] == 0:
            bad = any(t["type"] not in ("Doctype", "StartTag", "EmptyTag", "EndTag", "Characters",
                                        "SpaceCharacters", "Comment") for t in case["toks"])
            if out == [2]:
                return [] if bad else [("assertion-on-valid-stream", "")]
            ev = out[1]
            if ev[0] != [0] or ev[-1] != [1] or sum(1 for e in ev if e[0] in (0, 1)) != 2:
                v.append(("document-events", ""))
            starts = [e[1] for e in ev if e[0] == 2]
            ends = [e[1] for e in ev if e[0] == 3]
            if sorted(starts) != sorted(ends) or len(set(starts)) != len(starts):
                v.append(("prefix-mappings-unbalanced", ""))
            return v
        # tree case: events must be well nested and rebuild the walked tree minus comments/doctype
        if out[0] != 1:
            has_void_kids = "SerializeError" in repr(walk(case["src"], "dom", case["frag"]))
            return [("serialize-error-token-asserts", "")] if has_void_kids else [("not-well-nested-or-assert", repr(out))]
        sub = getattr(self, "_sub", None)
        if sub is not None and sub[0] != sub[1] and "SerializeError" not in repr(walk(case["src"], "dom", case["frag"])):
            v.append(("sax-subtree-walk-differs", repr(sub)[:300]))
        want = trees.enc_forest(trees.coalesce(trees.strip_cd(case["forest"])))
        if out[1] != want:
            cls = "sax-tree-differs"
            if "SerializeError" in repr(walk(case["src"], "dom", case["frag"])):
                cls = "void-element-with-children"
            v.append((cls, ""))
        return v

    def classify(self, cls, case, detail):
        if cls in ("serialize-error-token-asserts", "void-element-with-children"):
            return "C19-serialize-error-token"
        return None

    def known_witnesses(self):
        import html5lib
        src = "<event-source>x</event-source>"
        p = html5lib.HTMLParser(tree=html5lib.getTreeBuilder("dom"))
        return {"C19-serialize-error-token": {"k": 1, "src": src, "frag": True, "forest": trees.dom_forest(p.parseFragment(src))}}

    def nontrivial_key(self, case, out):
        if case["k"] == 1 and any(n[0] == "E" for n in case["forest"]):
            return case["src"] + str(case["frag"])
        if case["k"] == 0 and any(t["type"] in ("StartTag", "EmptyTag") for t in case["toks"]):
            return repr(case["toks"])
        return None

    def describe(self, case):
        return {"k": case["k"], "src": case.get("src"), "frag": case.get("frag"), "toks": case.get("toks")}


PLUGIN = C19()
