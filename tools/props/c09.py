"""C09 -- sanitizer: Model/C09.v correspondence + independent predicates over the real filter's output."""
import re
import warnings

from framework import Plugin
from tokens import enc_tokens, from_json, to_json
from sexp import opt
import gen_markup

HTML = "http://www.w3.org/1999/xhtml"
SVG = "http://www.w3.org/2000/svg"
MATHML = "http://www.w3.org/1998/Math/MathML"
XLINK = "http://www.w3.org/1999/xlink"
XML = "http://www.w3.org/XML/1998/namespace"
SCHEMES = ["http", "https", "javascript", "JaVaScRiPt", "vbscript", "data", "DATA", "mailto", "ftp", "livescript",
           "jav\tascript", "java\nscript", " javascript", "javascript ", "\x01javascript", "java\x00script", "jav&#x09;ascript",
           "&#106;avascript", "javascript&colon;", "java`script", "java\xa0script", "ja vascript", "javascript\x7f",
           "�javascript", "java�script", "feed", "urn", "x-bogus", "ſcript", "javaKcript", "İ", "//", "",
           "javas\x0bcript", "a.b+c-d", "1http", "+x", "http　", "&amp;javascript", "jav&amp;#x0A;ascript"]
RESTS = ["alert(1)", "//example.com/a?b#c", "//[::1]/", "//[x/", "x]", "", "/path", "image/png;base64,AAAA", "text/html,<script>",
         "image/svg+xml,x", "image/png,x", "image/png;charset=utf-8,x", "image/png;charset=utf-8;base64,x",
         "image/png;base64;charset=x,y", "image/png;x=y,z", "IMAGE/PNG,x", "image/gif", "text/plain;,x", "#frag", "?q"]
ATTR_NAMES = [(None, "href"), (None, "src"), (None, "title"), (None, "onclick"), (None, "style"), (XLINK, "href"),
              (XML, "base"), (XML, "lang"), (None, "fill"), (None, "mask"), (None, "class"), (None, "action"),
              (None, "formaction"), (XLINK, "bogus"), (None, "HREF"), (None, "id"), (None, "poster")]
ELEMS = [(HTML, "a"), (HTML, "img"), (HTML, "script"), (HTML, "style"), (None, "a"), (None, "script"), (SVG, "svg"),
         (SVG, "use"), (SVG, "a"), (SVG, "script"), (SVG, "foreignObject"), (MATHML, "math"), (MATHML, "mi"),
         (HTML, "p"), (HTML, "iframe"), (HTML, "object"), (HTML, "form"), (HTML, "button"), (HTML, "A"),
         (HTML, ""), (SVG, "rect"), (HTML, "table"), (HTML, "textarea"), (HTML, "title"), (HTML, "noscript")]
REFS = ["url(#a)", "url(http://x/y)", "url( #a )", "url (x y)", "URL(x)", "url(a)", "url(ab)", "x url(ab) y url(#c) url(de)z",
        "url(&#x61;b)", "url(&amp;)", "none", "url(", "url()", "url(  ab", "url\t(\nab)"]


def browser_scheme(v):
    """URL standard: strip leading/trailing C0-or-space, remove tab/LF/CR, scheme = alpha (alnum|+|-|.)* ':'"""
    v = v.strip("".join(chr(c) for c in range(0x21)))
    v = v.replace("\t", "").replace("\n", "").replace("\r", "")
    m = re.match(r"([A-Za-z][A-Za-z0-9+.\-]*):", v)
    return m.group(1).lower() if m else None


def html_unescape_attr(v):
    """what a browser sees as the attribute value after the serializer wrote it and a parser read it back is the value
    itself; but values may contain character references typed by the author only in *source* -- tokens carry decoded text"""
    return v


# style attribute values: "keep only allowed properties/keywords and never url()" (sanitize_css is not in the Coq
# model; this clause is decided on the implementation's output only)
CSS_PROPS = ["color", "background", "background-color", "background-image", "border", "border-left", "margin", "padding",
             "cursor", "font-family", "width", "fill", "stroke", "list-style-image", "behavior", "-moz-binding", "position",
             "COLOR", "Cursor", "content", "x", "float", "clip-path", "marker-start"]
CSS_VALUES = ["red", "#fff", "1px", "1px solid red", "rgb(1,2,3)", "url(x)", "URL(1)", "Url(http://a/b)", "uRl( 1 )", "url\t(1)",
              "ururl(x)l(1)", "uurl(a)rl(12,3)", "urlurl(x)(1)", "URL(javascript:alert(1))", "expression(alert(1))", "auto", "none",
              "'a b'", "\"x\"", "1em 2em", "transparent", "inherit", "url(1", "URL (1)", "(1)", "u\\72l(1)", "!important", "a-b",
              "url(1)url(2)", "UrL(12,3) red", ""]


def rnd_style(rng):
    decls = []
    for _ in range(rng.randint(1, 3)):
        decls.append(rng.choice(CSS_PROPS) + rng.choice([":", ": ", " : "]) + rng.choice(CSS_VALUES))
    return rng.choice(["; ", ";", " ;"]).join(decls) + rng.choice(["", ";"])


class C09(Plugin):
    id = "C09"
    gen = ["Sanitizer", "Consts", "Sax"]
    n_quick = 5000
    n_thorough = 200000
    rule = ("tokens with element names on/near the allow-list (HTML/None/SVG/MathML/bogus namespaces, case variants, raw-"
            "text elements), attributes from the allow-list, URI attributes, event handlers, namespaced attributes; URL "
            "values = scheme (allowed, forbidden, obfuscated with controls/Unicode spaces/backticks/entity-like text/"
            "U+FFFD/non-ASCII case) x rest (paths, authority incl. bracket errors, data: with parameter permutations); "
            "SVG reference values; default lists and randomly restricted lists; plus parsed documents; non-trivial = "
            "distinct token with a URI attribute or a disallowed element")
    trusted_base = ["urllib.parse.urlsplit scheme extraction transcribed from CPython 3.12 (ValueError paths are "
                    "outside the modelled domain)", "str.lower and the regex classes \\s dumped from the running CPython",
                    "browser_scheme: my transcription of the URL standard's scheme parser (oracle)"]

    def corpus(self):
        out = []
        for s in SCHEMES:
            for r in RESTS[:4] + RESTS[6:9]:
                out.append({"k": 2, "s": s + ":" + r})
        for r in REFS:
            out.append({"k": 3, "s": r})
        # the same local name in two namespaces, allowed in one and not in the other, in both orders in ONE stream (a
        # verdict remembered by name would carry over), and several URI attributes on one element (one harmless or
        # unparsable, one with a forbidden scheme, in both orders)
        import html5lib.filters.sanitizer as S
        names = sorted(set(n for _, n in S.allowed_elements))
        for n in names:
            spaces = [ns for ns in (HTML, SVG, MATHML) if (ns, n) in S.allowed_elements]
            others = [ns for ns in (HTML, SVG, MATHML) if (ns, n) not in S.allowed_elements]
            for a in spaces[:1]:
                for b in others[:2]:
                    for first, second in ((a, b), (b, a)):
                        out.append({"k": 0, "toks": [{"type": "StartTag", "namespace": first, "name": n, "data": []},
                                                     {"type": "EndTag", "namespace": first, "name": n},
                                                     {"type": "StartTag", "namespace": second, "name": n, "data": []},
                                                     {"type": "EndTag", "namespace": second, "name": n}]})
        for good in ("pic.png", "#top", "/local", "h://]", "http://[::1"):
            for bad in ("javascript:alert(1)", "vbscript:x", "data:text/html,x"):
                for attrs in ([["src", good], ["longdesc", bad]], [["href", bad], ["ping", good]], [["cite", good], ["background", bad]],
                              [["poster", bad], ["src", good]], [["action", good], ["formaction", bad]]):
                    out.append({"k": 0, "toks": [{"type": "StartTag", "namespace": HTML, "name": "a",
                                                  "data": [[[None, k], v] for k, v in attrs]}]})
        return out

    def cases(self, rng, n, tier):
        import html5lib
        for _ in range(n):
            r = rng.random()
            if rng.random() < 0.12:
                yield {"k": 6, "s": rnd_style(rng)}
                continue
            if r < 0.25:
                v = rng.choice(SCHEMES) + rng.choice([":", ":", ":", "", "&#58;", "\t:", ": "]) + rng.choice(RESTS)
                yield {"k": 2, "s": v}
            elif r < 0.3:
                yield {"k": 3, "s": " ".join(rng.choice(REFS) for _ in range(rng.randint(1, 3)))}
            elif r < 0.35:
                yield {"k": 5, "s": rng.choice(RESTS) + rng.choice(["", ",x", ";base64,x", "\n"])}
            elif r < 0.85:
                toks = []
                for _ in range(rng.randint(1, 3)):
                    ns, name = rng.choice(ELEMS)
                    kind = rng.choice(["StartTag", "StartTag", "EmptyTag", "EndTag", "Comment", "Characters"])
                    if kind == "Comment":
                        toks.append({"type": "Comment", "data": "x"})
                    elif kind == "Characters":
                        toks.append({"type": "Characters", "data": "a<b"})
                    elif kind == "EndTag":
                        toks.append({"type": "EndTag", "namespace": ns, "name": name})
                    else:
                        attrs = []
                        for _ in range(rng.choice([0, 1, 1, 2, 3])):
                            k = rng.choice(ATTR_NAMES)
                            if list(k) in [a[0] for a in attrs] or k == (None, "style"):
                                continue
                            if k[1].lower() in ("href", "src", "base", "action", "formaction", "poster"):
                                v = rng.choice(SCHEMES + ["data", "data", "Data"]) + ":" + rng.choice(RESTS)
                            elif k[1] in ("fill", "mask"):
                                v = rng.choice(REFS)
                            else:
                                v = rng.choice(["v", "a&b<c>\"d", ""])
                            attrs.append([list(k), v])
                        toks.append({"type": kind, "namespace": ns, "name": name, "data": attrs})
                case = {"k": 0, "toks": toks}
                if rng.random() < 0.3:
                    import html5lib.filters.sanitizer as S
                    sub = lambda fs: [list(x) if isinstance(x, tuple) else x for x in sorted(fs, key=repr) if rng.random() < 0.6]
                    case = {"k": 1, "toks": toks,
                            "lists": [sub(S.allowed_elements), sub(S.allowed_attributes), sub(S.allowed_protocols),
                                      sub(S.allowed_content_types), sub(S.attr_val_is_uri), sub(S.svg_attr_val_allows_ref)]}
                yield case
            else:
                src = gen_markup.document(rng)
                doc = html5lib.parse(src, treebuilder="dom")
                toks = [to_json(t) for t in html5lib.getTreeWalker("dom")(doc)]
                if any(t["type"] in ("StartTag", "EmptyTag") and any(k == [None, "style"] for k, _ in t["data"]) for t in toks):
                    continue
                yield {"k": 0, "toks": toks, "src": src}

    def _enc_lists(self, ls):
        return [[[opt(k[0]), k[1]] for k in ls[0]], [[opt(k[0]), k[1]] for k in ls[1]], list(ls[2]), list(ls[3]),
                [[opt(k[0]), k[1]] for k in ls[4]], [[opt(k[0]), k[1]] for k in ls[5]]]

    def encode(self, case):
        k = case["k"]
        if k == 0:
            return [0, enc_tokens([from_json(t) for t in case["toks"]])]
        if k == 1:
            return [1, enc_tokens([from_json(t) for t in case["toks"]]), self._enc_lists(case["lists"])]
        if k == 2:
            v = case["s"]
            # urlparse's ValueError paths (brackets in the authority, NFKC checks) are outside the modelled domain
            if "[" in v or "]" in v or any(ord(c) > 127 for c in v.split(":", 1)[-1]):
                return None
            return [2, v]
        if k == 6:
            return None           # sanitize_css is not in the model
        return [k, case["s"]]

    def _filter(self, toks, lists=None):
        with warnings.catch_warnings():
            warnings.simplefilter("ignore")
            from html5lib.filters.sanitizer import Filter
            kw = {}
            if lists is not None:
                names = ["allowed_elements", "allowed_attributes", "allowed_protocols", "allowed_content_types",
                         "attr_val_is_uri", "svg_attr_val_allows_ref"]
                for nme, l in zip(names, lists):
                    kw[nme] = frozenset(tuple(x) if isinstance(x, list) else x for x in l)
            return list(Filter(toks, **kw))

    def impl(self, case):
        k = case["k"]
        if k in (0, 1):
            toks = [from_json(t) for t in case["toks"]]
            return enc_tokens(self._filter(toks, case.get("lists")))
        if k == 2:
            t = {"type": "StartTag", "namespace": HTML, "name": "a", "data": {(None, "href"): case["s"]}}
            out = self._filter([from_json(to_json(t))])
            return (None, "href") in out[0]["data"]
        if k == 3:
            t = {"type": "StartTag", "namespace": SVG, "name": "rect", "data": {(None, "fill"): case["s"]}}
            out = self._filter([from_json(to_json(t))])
            return out[0]["data"].get((None, "fill"), "\x00missing")
        if k == 6:
            t = {"type": "StartTag", "namespace": HTML, "name": "p", "data": {(None, "style"): case["s"]}}
            out = self._filter([from_json(to_json(t))])
            # "the guarantee holds for custom allow-lists as well": the same value through a filter with narrower CSS
            # lists, after the default filter has seen it in this process
            from html5lib.filters.sanitizer import Filter
            with warnings.catch_warnings():
                warnings.simplefilter("ignore")
                out2 = list(Filter([from_json(to_json(t))], allowed_css_properties=frozenset(["color"]),
                                   allowed_svg_properties=frozenset(), allowed_css_keywords=frozenset(["red"])))
            self._custom_css = out2[0]["data"].get((None, "style"), "")
            return [out[0]["data"].get((None, "style"), "")]
        if k == 5:
            from html5lib.filters.sanitizer import data_content_type
            m = data_content_type.match(case["s"])
            return [m.group("content_type")] if m else []
        raise ValueError(k)

    def oracle(self, case, out):
        import html5lib.filters.sanitizer as S
        v = []
        k = case["k"]
        if k == 2:
            if out:     # kept: the browser must not see a forbidden scheme
                sch = browser_scheme(case["s"])
                if sch is not None and sch not in S.allowed_protocols:
                    v.append(("forbidden-scheme-kept", repr((case["s"], sch))))
                if sch == "data":
                    val = case["s"].strip("".join(chr(c) for c in range(0x21))).replace("\t", "").replace("\n", "").replace("\r", "")
                    m = re.match(r"(?i)data:([^,;]*)", val)
                    ct = m.group(1).strip().lower() if m else ""
                    if ct not in S.allowed_content_types:
                        v.append(("forbidden-data-content-type-kept", repr((case["s"], ct))))
            return v
        if k == 6:
            val = out[0]
            for prop, value in re.findall(r"([-\w]+)\s*:\s*([^:;]*)", getattr(self, "_custom_css", "")):
                if not (prop.lower() == "color" or prop.lower().split("-")[0] in ("background", "border", "margin", "padding")):
                    v.append(("css-property-outside-custom-list-kept", repr((case["s"], self._custom_css))))
            if re.search(r"(?i)url\(", val):
                v.append(("css-url-kept", repr((case["s"], val))))
            for prop, value in re.findall(r"([-\w]+)\s*:\s*([^:;]*)", val):
                pl = prop.lower()
                if not (pl in S.allowed_css_properties or pl in S.allowed_svg_properties or
                        pl.split("-")[0] in ("background", "border", "margin", "padding")):
                    v.append(("css-property-not-allowed-kept", repr((case["s"], val))))
            return v
        if k in (0, 1):
            ls = case.get("lists")
            elems = set(tuple(x) for x in ls[0]) if ls else S.allowed_elements
            attrs_ok = set(tuple(x) for x in ls[1]) if ls else S.allowed_attributes
            protos = set(ls[2]) if ls else S.allowed_protocols
            uri_attrs = set(tuple(x) for x in ls[4]) if ls else S.attr_val_is_uri
            nin = sum(1 for t in case["toks"] if t["type"] != "Comment")
            if len(out) != nin:
                v.append(("token-count", ""))
            for t in out:
                if t[0] == 6:
                    v.append(("comment-passed", ""))
                if t[0] in (3, 4, 5):
                    ns = t[1][0] if t[1] else None
                    if not ((ns, t[2]) in elems or (ns is None and (HTML, t[2]) in elems)):
                        v.append(("forbidden-element-passed", repr((ns, t[2]))))
                if t[0] in (3, 5):
                    for (kns, kn), val in t[3]:
                        key = (kns[0] if kns else None, kn)
                        if key not in attrs_ok:
                            v.append(("forbidden-attribute-passed", repr(key)))
                        if key in uri_attrs:
                            sch = browser_scheme(val)
                            if sch is not None and sch not in protos:
                                v.append(("forbidden-scheme-kept", repr((val, sch))))
                            if sch == "data":
                                cts = set(ls[3]) if ls else S.allowed_content_types
                                vv = val.strip("".join(chr(c) for c in range(0x21))).replace("\t", "").replace("\n", "").replace("\r", "")
                                m = re.match(r"(?i)data:([^,;]*)", vv)
                                ct = m.group(1).strip().lower() if m else ""
                                if ct not in cts:
                                    v.append(("forbidden-data-content-type-kept", repr((val, ct))))
        return v

    def nontrivial_key(self, case, out):
        if case["k"] in (0, 1):
            if any(t["type"] in ("StartTag", "EmptyTag", "EndTag") for t in case["toks"]):
                return repr(case["toks"]) + repr(case.get("lists"))
            return None
        return repr(sorted(case.items(), key=str))

    def describe(self, case):
        d = dict(case)
        if "lists" in d:
            d["lists"] = "random subsets of the default lists (sizes %s)" % [len(x) for x in d["lists"]]
        return d


PLUGIN = C09()
