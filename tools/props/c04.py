"""C04 -- tree-builder back ends: op-sequence correspondence of Model/C04.v (E: etree wrappers, D: dom wrappers)
and the document-level differential oracle etree / etree-fullTree / dom x namespaceHTMLElements."""
from framework import Plugin
import trees
import gen_markup
from sexp import opt

HTML = "http://www.w3.org/1999/xhtml"
SVG = "http://www.w3.org/2000/svg"
XLINK = "http://www.w3.org/1999/xlink"
TEMPLATES = [
    "<b><div><table><i>x</table></b>", "<table><a>x", "<a><table><a>", "<b><table><td><i></b>x",
    "<table><tr><td><b><table>x</b>y", "<i><p><table>t<b>u</i>v</table>w", "<table>a<b>c<td>d</b>e",
    "<b><p><table><a>1<i>2</b>3</table>4</p>5", "<div><table><tr>x<td>y</table>z</div>",
    "<table><select><option>a<table>b", "<a><svg><table>x<a>", "<b><b><b><b>x</b></b></b></b>y<p></b>z",
    "<font><p><table><font>x</font><tr><td></font>y", "<table><caption><b>x<table>y</b>z",
]
PIECES = ["<table>", "</table>", "<tr>", "<td>", "<b>", "</b>", "<i>", "</i>", "<a>", "</a>", "<p>", "</p>", "<div>",
          "</div>", "x", "y ", " ", "<!--c-->", "<caption>", "<select>", "<svg>", "<nobr>", "<font>", "</font>",
          "<em>", "</em>", "<tbody>", "<col>", "<form>", "<input>", "<li>", "<button>", "</button>",
          "<svg xmlns='http://www.w3.org/2000/svg' xmlns:xlink='http://www.w3.org/1999/xlink'>", "<g xlink:href=#a xml:lang=en>",
          "<math xmlns='http://www.w3.org/1998/Math/MathML'>", "<a id=x class=y>", "<p title='t' lang=en>", "</svg>", "</math>"]


def gen_ops(rng, backend):
    """mostly valid op sequences; the generator tracks the intended structure"""
    ops = []
    kinds = []          # per id: 'E','C','D','R'
    parent = {}
    kids = {}

    def create(kind):
        i = len(kinds)
        kinds.append(kind)
        kids[i] = []
        if kind == "E":
            ns = rng.choice([HTML, HTML, None, SVG])
            attrs = []
            if rng.random() < 0.3:
                attrs.append([[None, rng.choice(["id", "class"])], rng.choice(["", "v"])])
            if rng.random() < 0.1:
                attrs.append([[XLINK, "href"], "#x"])
            ops.append([0, [0, opt(ns), rng.choice(["div", "b", "table", "tr", "p", "a"]), [[[opt(k[0]), k[1]], v] for k, v in attrs]]])
        elif kind == "C":
            ops.append([0, [1, rng.choice(["c", "", " x"])]])
        elif kind == "D":
            ops.append([0, [2, opt("html"), opt(rng.choice([None, "", "p"])), opt(rng.choice([None, "", "s"]))]])
        else:
            ops.append([0, [3]])
        return i
    root = create("R")
    for _ in range(rng.randint(2, 5)):
        create("E")
    n = rng.randint(3, 25)
    for _ in range(n):
        r = rng.random()
        containers = [i for i, k in enumerate(kinds) if k in "ER"]
        detached = [i for i, k in enumerate(kinds) if i not in parent and k != "R"]
        attached = [i for i in parent]
        bad = rng.random() < 0.08
        if r < 0.15:
            create(rng.choice(["E", "E", "E", "C"] + (["D"] if backend == "E" else [])))
        elif r < 0.4 and (detached or bad):
            c = rng.choice(detached) if detached and not bad else rng.randrange(len(kinds))
            p = rng.choice(containers)
            if p == c or kinds[c] == "R":
                continue
            # never create cycles: p must not be a descendant of c
            q, cyc = p, False
            while q in parent:
                q = parent[q]
                if q == c:
                    cyc = True
            if cyc:
                continue
            if c in parent:
                if backend == "E":
                    continue        # ElementTree.append does not detach: aliasing is outside what the parser does
                kids[parent[c]].remove(c)
            ops.append([1, p, c])
            parent[c] = p
            kids[p].append(c)
        elif r < 0.52 and detached:
            ps = [p for p in containers if kids[p]]
            if not ps:
                continue
            p = rng.choice(ps)
            c = rng.choice(detached)
            q, cyc = p, (p == c)
            while q in parent:
                q = parent[q]
                if q == c:
                    cyc = True
            if cyc:
                continue
            ref = rng.choice(kids[p]) if not bad else rng.randrange(len(kinds))
            ops.append([2, p, c, ref])
            if ref in kids[p]:
                kids[p].insert(kids[p].index(ref), c)
                parent[c] = p
            else:
                break
        elif r < 0.72:
            p = rng.choice(containers)
            before = []
            if kids[p] and rng.random() < 0.4:
                before = [rng.choice(kids[p]) if not bad else rng.randrange(len(kinds))]
            ops.append([3, p, rng.choice(["x", " ", "ab", ""]), before])
            if before and before[0] not in kids[p]:
                break
        elif r < 0.82 and attached:
            c = rng.choice(attached) if not bad else rng.randrange(1, len(kinds))
            p = parent.get(c, rng.choice(containers))
            if bad and rng.random() < 0.5:
                p = rng.choice(containers)
            ops.append([4, p, c])
            if parent.get(c) == p:
                kids[p].remove(c)
                del parent[c]
            elif backend == "E":
                break
        elif r < 0.9:
            srcs = [p for p in containers if p != root]
            if not srcs:
                continue
            src = rng.choice(srcs)
            if rng.random() < 0.7:
                dst = create("R" if rng.random() < 0.5 else "E")
            else:
                dst = rng.choice(containers)
            q, cyc = dst, (dst == src)
            while q in parent:
                q = parent[q]
                if q == src:
                    cyc = True
            if cyc:
                continue
            ops.append([5, src, dst])
            for c in kids[src]:
                parent[c] = dst
                kids[dst].append(c)
            kids[src] = []
        elif r < 0.95:
            es = [i for i, k in enumerate(kinds) if k == "E"]
            src = rng.choice(es)
            ops.append([6, src])
            kinds.append("E")
            kids[len(kinds) - 1] = []
        else:
            ops.append([7, rng.choice(containers)])
    return ops, rng.choice([root] + [i for i, k in enumerate(kinds) if k == "E"][:2])


def mk_attrs(attrs):
    out = {}
    for (ns, name), v in attrs:
        ns = ns[0] if ns else None
        if ns:
            out[("p", name, ns)] = v
        else:
            out[name] = v
    return out


def run_real(backend, ops, root):
    from html5lib import treebuilders
    import xml.dom
    tb = treebuilders.getTreeBuilder("etree" if backend == "E" else "dom")(True)
    nodes = []
    outs = []
    for o in ops:
        try:
            if o[0] == 0:
                k = o[1]
                if k[0] == 0:
                    n = tb.elementClass(k[2], k[1][0] if k[1] else None)
                    n.attributes = mk_attrs(k[3])
                elif k[0] == 1:
                    n = tb.commentClass(k[1])
                elif k[0] == 2:
                    n = tb.doctypeClass(k[1][0], k[2][0] if k[2] else None, k[3][0] if k[3] else None)
                else:
                    n = tb.fragmentClass()
                nodes.append(n)
                outs.append(0)
            elif o[0] == 1:
                nodes[o[1]].appendChild(nodes[o[2]])
                outs.append(0)
            elif o[0] == 2:
                nodes[o[1]].insertBefore(nodes[o[2]], nodes[o[3]])
                outs.append(0)
            elif o[0] == 3:
                nodes[o[1]].insertText(o[2], nodes[o[3][0]] if o[3] else None)
                outs.append(0)
            elif o[0] == 4:
                nodes[o[1]].removeChild(nodes[o[2]])
                outs.append(0)
            elif o[0] == 5:
                nodes[o[1]].reparentChildren(nodes[o[2]])
                outs.append(0)
            elif o[0] == 6:
                nodes.append(nodes[o[1]].cloneNode())
                outs.append(0)
            else:
                outs.append([bool(nodes[o[1]].hasContent())])
        except (ValueError, xml.dom.NotFoundErr):
            outs.append(1)
            break
        except TypeError:
            outs.append(2)
            break
    idx = {id(n): i for i, n in enumerate(nodes)}
    parents = [opt(idx.get(id(getattr(n, "parent", None)))) if getattr(n, "parent", None) is not None else []
               for n in nodes]
    if root >= len(nodes):
        forest = []
        inv = True
    elif backend == "E":
        r = nodes[root]._element
        forest = trees.et_forest(r) if r.tag in ("DOCUMENT_FRAGMENT", "DOCUMENT_ROOT") else [trees.et_node(r)]
        inv = all([c._element for c in n._childNodes] == list(n._element) for n in nodes)
    else:
        r = nodes[root].element
        forest = trees.dom_forest(r) if r.nodeType == r.DOCUMENT_FRAGMENT_NODE else [trees.dom_node(r)]
        forest = trees.coalesce(forest)
        inv = True
    return [outs, trees.enc_forest(forest), parents, inv]


def parse_all(src, frag, container="div"):
    import html5lib
    from html5lib import treebuilders
    res = {}
    for name, tb, kw in (("etree", "etree", {}), ("etree-full", "etree", {"fullTree": True}),
                         ("etree-root", "etree", {"fullTree": False}), ("dom", "dom", {})):
        for nsflag in (True, False):
            p = html5lib.HTMLParser(tree=treebuilders.getTreeBuilder(tb, **kw), namespaceHTMLElements=nsflag)
            doc = p.parseFragment(src, container=container) if frag else p.parse(src)
            if tb == "dom":
                f = trees.dom_forest(doc)
            elif frag or kw.get("fullTree"):
                f = trees.et_forest(doc if hasattr(doc, "tag") else doc.getroot())
            else:
                f = [trees.et_node(doc)]
            res[(name, nsflag)] = trees.sort_attrs(trees.coalesce(f))
    return res


def strip_html_ns(forest):
    out = []
    for n in forest:
        if n[0] == "E":
            out.append(["E", None if n[1] == HTML else n[1], n[2], n[3], strip_html_ns(n[4])])
        else:
            out.append(n)
    return out


class C04(Plugin):
    id = "C04"
    level = "translation_validation"
    gen = []
    n_quick = 3000
    n_thorough = 150000
    rule = ("40% operation sequences (create/appendChild/insertBefore/insertText[before]/removeChild/"
            "reparentChildren/cloneNode/hasContent, <=25 ops, mostly respecting the parser's preconditions, 8% with a "
            "bad reference) on the real etree wrappers and 20% on the real dom wrappers against the E and D models "
            "(outcomes, abstract forest, parent pointers, shadow-list invariant); 40% documents/fragments (templates "
            "of formatting element > block > table > misnested content, and table/formatting soup) parsed with "
            "etree, etree fullTree and dom x namespaceHTMLElements; non-trivial = distinct case")
    trusted_base = ["xml.etree.ElementTree append/insert/remove and xml.dom.minidom appendChild/insertBefore/"
                    "removeChild as list operations (minidom detaches a node from its old parent first)"]

    def corpus(self):
        out = [{"k": 2, "src": t, "frag": f} for t in TEMPLATES for f in (False, True)]
        import gen_markup
        out += [{"k": 2, "src": m, "frag": i % 3 == 0} for i, m in enumerate(gen_markup.foreign_attrs_directed())]
        out += [{"k": 2, "src": m, "frag": f} for f in (False, True) for m in
                ["<pre>a&amp;\nb</pre>", "<listing>x&lt;\n\ny", "<textarea>t&gt;\nu</textarea>", "<pre>&#65;\n", "<pre>a<!--c-->\nb",
                 "<pre>\n\nx", "<pre>a&amp;\n<b>c</b>", "<table><pre>q&amp;\nr", "<pre></span>\nx", "<textarea>\0\nx"]]
        out.append({"k": 0, "ops": [[0, [3]], [0, [0, [HTML], "a", []]], [0, [0, [HTML], "t", []]], [0, [0, [HTML], "i", []]],
                                    [1, 0, 1], [1, 1, 2], [2, 1, 3, 2], [0, [3]], [5, 1, 4]], "root": 4})
        return out

    def cases(self, rng, n, tier):
        for _ in range(n):
            r = rng.random()
            if r < 0.4:
                ops, root = gen_ops(rng, "E")
                yield {"k": 0, "ops": ops, "root": root}
            elif r < 0.6:
                ops, root = gen_ops(rng, "D")
                yield {"k": 1, "ops": ops, "root": root}
            else:
                if rng.random() < 0.3:
                    src = rng.choice(TEMPLATES)
                    i = rng.randrange(len(src))
                    src = src[:i] + rng.choice(PIECES) + src[i:]
                else:
                    src = "".join(rng.choice(PIECES) for _ in range(rng.randint(2, 14)))
                yield {"k": 2, "src": src, "frag": rng.random() < 0.4}

    def encode(self, case):
        if case["k"] in (0, 1):
            return [case["k"], case["ops"], case["root"]]
        return None

    def impl(self, case):
        if case["k"] == 0:
            return run_real("E", case["ops"], case["root"])
        if case["k"] == 1:
            return run_real("D", case["ops"], case["root"])
        res = parse_all(case["src"], case["frag"])
        ref = res[("dom", True)]
        diffs = []
        for (name, nsflag), f in sorted(res.items()):
            want = ref if nsflag else strip_html_ns(ref)
            if name in ("etree", "etree-root") and not case["frag"]:
                # root-element form: only the html subtree
                want = [n for n in want if n[0] == "E"][:1]
            if f != want:
                diffs.append([name, nsflag])
        return [len(res), diffs]

    def oracle(self, case, out):
        v = []
        if case["k"] == 0 and not out[3] and 1 not in out[0] and 2 not in out[0]:
            v.append(("etree-childNodes-out-of-sync", ""))
        if case["k"] == 2 and out[1]:
            v.append(("builders-disagree", repr((case["src"], case["frag"], out[1]))))
        return v

    def classify(self, cls, case, detail):
        if cls == "builders-disagree" and self._minidom_collision(case):
            return "C04-minidom-attribute-collision"
        return None

    @staticmethod
    def _minidom_collision(case):
        """does some element (as the etree builder sees it) carry two attributes WITHOUT namespace whose names
        coincide after the first colon?  (minidom keys those by local name)"""
        import html5lib
        p = html5lib.HTMLParser(tree=html5lib.getTreeBuilder("etree", fullTree=True))
        doc = p.parseFragment(case["src"]) if case["frag"] else p.parse(case["src"])
        root = doc if hasattr(doc, "iter") else doc.getroot()
        for el in root.iter():
            if not isinstance(el.tag, str):
                continue
            seen = set()
            for k in el.attrib:
                if k.startswith("{"):
                    continue
                loc = k.split(":", 1)[1] if ":" in k else k
                if loc in seen:
                    return True
                seen.add(loc)
        return False

    def known_witnesses(self):
        return {"C04-minidom-attribute-collision": {"k": 2, "src": "<svg xmlns:foo=bar xlink:foo=x>x", "frag": False}}

    def nontrivial_key(self, case, out):
        return repr(sorted(case.items(), key=str))


PLUGIN = C04()
