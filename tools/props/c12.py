import json
"""C12 -- parser reuse: handler-cache model correspondence + histories on a shared parser vs fresh parsers."""
import io

from framework import Plugin
import trees
import gen_markup

DOCS = ["<table>leak", "<table>leak&;", "<pre>\nx", "<p>\nx", "<table> <tr><td>x", "<textarea>\n", "<listing>\n",
        "<title>x", "<script>y", "<b><i>x</b>y", "<svg><p>", "<select><table>", "<frameset>", "<!DOCTYPE html>x",
        "<table><caption>c<table>d", "<a><table><a>", "x\x00y", "<plaintext>z", "<math><mi>q", "<noscript>n",
        "<table><form>f", "<head><base>", "<body><body a=b>", "<html a=b>", "<isindex>", "<textarea>\nt", "\n",
        "<p>x<table>", "<p>para<table><tr><td>cell</table>", "<title>old</title><p>no doctype",
        "<!DOCTYPE html PUBLIC \"-//W3C//DTD HTML 4.01 Transitional//EN\"><p>q<table>", "<!DOCTYPE bogus><p>x<table>y",
        "<frameset><frame>", "<body><p>a<button>b<p>c<table>", "<form><p>f<table><form>g"]


HTML_NS = "http://www.w3.org/1999/xhtml"


class Raiser(object):
    """text source that raises after k reads"""
    def __init__(self, text, k):
        self.s, self.k = text, k

    def read(self, n=-1):
        if self.k <= 0:
            raise IOError("source failed")
        self.k -= 1
        n = 3 if n is None or n < 0 else min(n, 3)
        out, self.s = self.s[:n], self.s[n:]
        return out


def observe(p, call):
    """run one call on parser p; return canonical observation"""
    import html5lib
    from html5lib.html5parser import ParseError
    kind, src, opts = call
    try:
        p.strict = bool(opts.get("strict"))
        if opts.get("fail_after") is not None:
            srcobj = Raiser(src, opts["fail_after"])
        else:
            srcobj = src
        if kind == "parse":
            doc = p.parse(srcobj, scripting=bool(opts.get("scripting")))
        else:
            doc = p.parseFragment(srcobj, container=opts.get("container", "div"), scripting=bool(opts.get("scripting")))
        forest = trees.dom_forest(doc) if hasattr(doc, "childNodes") else trees.et_forest(doc)
        return ["ok", trees.enc_forest(trees.coalesce(forest)),
                [[list(pos), code] for pos, code, _ in p.errors]]
    except ParseError as e:
        return ["ParseError", str(e)]
    except IOError as e:
        return ["IOError", str(e)]


class C12(Plugin):
    id = "C12"
    gen = ["Frame"]
    n_quick = 1500
    n_thorough = 60000
    case_timeout = 60
    rule = ("30% sequences of handler-cache lookups (names inside and outside the dispatch table of a real phase, "
            "enough unknown names to force eviction) against the cache model; 70% histories of 2-5 parse/"
            "parseFragment calls on ONE HTMLParser (strict and non-strict, sources that raise after k reads, aborts "
            "inside table text, after <pre>, in RCDATA/script, foreign content, select; varied containers/scripting) "
            "compared call by call with the same call on a fresh parser; thorough adds an 8-thread soak of "
            "independent parsers; non-trivial = distinct history with >= 2 calls or lookup sequence with an eviction")

    def corpus(self):
        out = []
        # the recorded defect (now fixed): text pending in table context / after <pre> when a strict parse aborts
        out.append({"k": 1, "calls": [["parse", "<!DOCTYPE html><table>leak&;", {"strict": 1}],
                                      ["parse", "<!DOCTYPE html><table> <tr><td>x", {}]]})
        out.append({"k": 1, "calls": [["parse", "<!DOCTYPE html><pre>&;", {"strict": 1}],
                                      ["parse", "<!DOCTYPE html><p>\nx", {}]]})
        out.append({"k": 1, "calls": [["parse", "<table>abcdefghij", {"fail_after": 2}], ["parse", "<table> <tr>", {}]]})
        # module-level entity trie: a failed two-letter probe followed, in a LATER parse, by references with the same
        # first letter
        for first, second in (("<a href='?x=1&id=3'>x</a>", "<p>&iacute;ndice, &icirc;le</p>"), ("x &ax y", "&amp;&aacute;"),
                              ("<p>&ny=2", "<p title='&nbsp;&not;'>&nu;"), ("&zz", "&zwj;&zeta;"), ("&Ux;", "&Uuml;&Uacute;"),
                              ("&lx", "&lt;b&gt;&lambda;")):
            out.append({"k": 1, "calls": [["parse", first, {}], ["parse", second, {}]]})
            out.append({"k": 1, "calls": [["parseFragment", first, {}], ["parse", second, {}], ["parseFragment", second, {}]]})
        # a fragment parse followed by a document parse on the same parser (the fragment flag must not survive)
        for doc in ("<!DOCTYPE html><html><head><title>t</title></head><body><p>hello</p></body></html>",
                    "<!DOCTYPE html><title>t</title><p>a</html>", "<!DOCTYPE html><table><tr><td>x</table></html> "):
            for ctx in ("div", "table", "select", "html"):
                out.append({"k": 1, "calls": [["parseFragment", "<b>x", {"container": ctx}], ["parse", doc, {}], ["parse", doc, {"strict": 1}]]})
        # a parse aborted while text in a table is pending (a source that fails, a strict-mode error), then a FRAGMENT
        # with text directly in a table on the same parser -- and the other phase-held state the same way
        for abort in (["parse", "<table>LEAKED-TEXT<", {"fail_after": 5}], ["parse", "<table>LEAKED-TEXT\x00", {"strict": 1}],
                      ["parse", "<!DOCTYPE html><table>leak&;", {"strict": 1}], ["parse", "<pre>&;", {"strict": 1}],
                      ["fragment", "<table>frag-leak\x00", {"strict": 1, "container": "div"}],
                      ["parse", "<table><tr>cell-leak<", {"fail_after": 6}]):
            for nxt in (["fragment", "<table>second</table>", {"container": "div"}],
                        ["fragment", "<table>\n<tbody><tr><td>x</table>", {"container": "div"}],
                        ["fragment", "second<tr>", {"container": "table"}], ["fragment", "\nx", {"container": "pre"}],
                        ["fragment", "<pre>\ny", {"container": "div"}], ["parse", "<table>third", {}]):
                out.append({"k": 1, "calls": [abort, nxt, nxt]})
        # ONE HTMLSerializer used for several calls, some of them aborted inside a raw-text element (strict-mode
        # SerializeError, a token source that raises, a generator that is abandoned): each call compared with the same
        # call on a fresh serializer
        script_bad = [{"type": "StartTag", "namespace": HTML_NS, "name": "script", "data": []},
                      {"type": "Characters", "data": "a</b"}, {"type": "EndTag", "namespace": HTML_NS, "name": "script"}]
        style_open = [{"type": "StartTag", "namespace": HTML_NS, "name": "style", "data": []},
                      {"type": "Characters", "data": "p{}"}, {"type": "Characters", "data": "q{}"},
                      {"type": "EndTag", "namespace": HTML_NS, "name": "style"}]
        text = [{"type": "StartTag", "namespace": HTML_NS, "name": "p", "data": []},
                {"type": "Characters", "data": "1 < 2 && 3 > 2 <b>"}, {"type": "EndTag", "namespace": HTML_NS, "name": "p"}]
        for first in ([script_bad, "strict"], [style_open, "abandon2"], [style_open, "raise2"], [script_bad, "complete"],
                      [text, "complete"]):
            out.append({"k": 3, "calls": [first, [text, "complete"], [style_open, "complete"], [text, "complete"]]})
            out.append({"k": 3, "calls": [first, first, [text, "strict"]]})
        # "whatever other parses run concurrently in other threads": two threads inside html5lib.parse() /
        # parseFragment() at the same time, their sources handing the turn to each other after every read
        for a, b in (("<!DOCTYPE html><title>A</title><p>first document<b>x", "<table><tr><td>second<td>document</table>tail"),
                     ("<ul><li>1<li>2<li>3</ul>", "<svg><g><circle r=1></g></svg><p>q"), ("plain text only", "<frameset><frame>")):
            for frag in (False, True):
                for tb in ("dom", "etree"):
                    out.append({"k": 4, "docs": [a, b], "frag": frag, "tb": tb})
        # module-level caches: tree builder modules requested with different keyword values, in every order,
        # each sequence in ONE fresh interpreter ("what a brand-new object in a fresh interpreter returns")
        for order in ([True, False], [False, True], [None, True, False], [True, None, False, True], [False, False, True]):
            out.append({"k": 2, "order": order})
        return out

    def cases(self, rng, n, tier):
        import html5lib
        for _ in range(n):
            if rng.random() < 0.3:
                phase = rng.choice(["inBody", "inTable", "inHead", "inSelect", "inRow", "inCell", "afterHead"])
                which = rng.choice(["start", "end"])
                p = html5lib.HTMLParser()
                ph = p.phases[phase]
                disp = (ph.startTagHandler if which == "start" else ph.endTagHandler).dispatcher
                keys = sorted(disp.keys())
                names = []
                for _ in range(rng.randint(1, 60)):
                    names.append(rng.choice(keys) if keys and rng.random() < 0.5 else "u%d" % rng.randrange(40))
                yield {"k": 0, "phase": phase, "which": which, "names": names}
            else:
                calls = []
                for _ in range(rng.randint(2, 5)):
                    src = rng.choice(DOCS) if rng.random() < 0.6 else gen_markup.document(rng, 8)
                    if rng.random() < 0.3:
                        src = "<!DOCTYPE html>" + src
                    opts = {}
                    if rng.random() < 0.35:
                        opts["strict"] = 1
                    if rng.random() < 0.15:
                        opts["fail_after"] = rng.randint(0, 4)
                    if rng.random() < 0.2:
                        opts["scripting"] = 1
                    kind = "parse" if rng.random() < 0.7 else "fragment"
                    if kind == "fragment":
                        opts["container"] = rng.choice(["div", "td", "select", "title", "textarea", "svg", "table", "pre"])
                    calls.append([kind, src, opts])
                yield {"k": 1, "calls": calls, "tb": rng.choice(["dom", "dom", "etree"])}

    def _handler_id(self, f):
        return getattr(f, "__name__", repr(f))

    def encode(self, case):
        if case["k"] != 0:
            return None
        import html5lib
        p = html5lib.HTMLParser()
        ph = p.phases[case["phase"]]
        disp = (ph.startTagHandler if case["which"] == "start" else ph.endTagHandler).dispatcher
        ids = {}
        tbl = []
        for k in sorted(disp.keys()):
            hid = ids.setdefault(self._handler_id(disp[k]), len(ids) + 1)
            tbl.append([k, hid])
        dflt = ids.setdefault(self._handler_id(disp.default), len(ids) + 1)
        bound = int(len(disp) * 1.1)      # len(cache) > len*1.1  <=>  len(cache) > floor(len*1.1) for integers
        self._ids = ids
        return [tbl, dflt, bound, case["names"]]

    def impl(self, case):
        import html5lib
        if case["k"] == 0:
            from html5lib._utils import MethodDispatcher
            p = html5lib.HTMLParser()
            ph = p.phases[case["phase"]]
            attr = "startTagHandler" if case["which"] == "start" else "endTagHandler"
            disp = getattr(ph, attr).dispatcher
            ids = {}
            for k in sorted(disp.keys()):
                ids.setdefault(self._handler_id(disp[k]), len(ids) + 1)
            ids.setdefault(self._handler_id(disp.default), len(ids) + 1)
            rec = []

            def mk(hid):
                return lambda self_, token: rec.append(hid)
            # a subclass whose dispatch table has the same keys but recording handlers: the REAL processStartTag /
            # processEndTag (inherited) runs, with its cache and eviction loop
            nd = MethodDispatcher([(k, mk(ids[self._handler_id(v)])) for k, v in disp.items()])
            nd.default = mk(ids[self._handler_id(disp.default)])
            Rec = type("Rec", (type(ph),), {attr: nd, "__slots__": ()})
            ph2 = Rec(p, p.tree)
            call = ph2.processStartTag if case["which"] == "start" else ph2.processEndTag
            for name in case["names"]:
                call({"type": 3, "name": name, "data": {}, "selfClosing": False})
            cache = getattr(ph2, "_Phase__startTagCache" if case["which"] == "start" else "_Phase__endTagCache")
            return [rec, list(cache.keys())]
        if case["k"] == 2:
            import subprocess
            import sys
            import os
            prog = ("import html5lib, json, sys\n"
                    "res = []\n"
                    "for ft in json.loads(sys.argv[1]):\n"
                    "    kw = {} if ft is None else {'fullTree': ft}\n"
                    "    tb = html5lib.getTreeBuilder('etree', **kw)\n"
                    "    d = html5lib.HTMLParser(tree=tb).parse('<!DOCTYPE html><!--c--><p>x')\n"
                    "    root = d.getroot() if hasattr(d, 'getroot') else d\n"
                    "    res.append([str(root.tag).split('}')[-1], len(list(root))])\n"
                    "print(json.dumps(res))\n")
            env = dict(os.environ)
            r = subprocess.run([sys.executable, "-c", prog, json.dumps(case["order"])], capture_output=True, text=True,
                               timeout=60, env=env)
            return [json.loads(r.stdout) if r.returncode == 0 else r.stderr[-300:], []]
        if case["k"] == 4:
            import threading

            def enc(doc):
                forest = trees.dom_forest(doc) if hasattr(doc, "childNodes") else trees.et_forest(doc)
                return trees.enc_forest(trees.coalesce(forest))
            fn = html5lib.parseFragment if case["frag"] else html5lib.parse
            kw = {"treebuilder": case["tb"]}
            alone = [enc(fn(d, **kw)) for d in case["docs"]]
            turns = [threading.Event(), threading.Event()]
            turns[0].set()

            class Paced(object):
                def __init__(self, text, me):
                    self.s, self.me = text, me

                def read(self, n=-1):
                    if n == 0:
                        return ""           # the type probe of the input stream
                    turns[self.me].wait(0.05)
                    turns[self.me].clear()
                    out, self.s = self.s[:5], self.s[5:]
                    turns[1 - self.me].set()
                    return out
            together = [None, None]

            def run(i):
                try:
                    together[i] = enc(fn(Paced(case["docs"][i], i), **kw))
                except Exception as e:
                    together[i] = "exception: %s" % type(e).__name__
                turns[1 - i].set()
            ts = [threading.Thread(target=run, args=(i,)) for i in (0, 1)]
            for t in ts:
                t.start()
            for t in ts:
                t.join(20)
            return [alone == together, [together[i] if together[i] != alone[i] else "" for i in (0, 1)]]
        if case["k"] == 3:
            from html5lib.serializer import HTMLSerializer, SerializeError

            def run(ser, call):
                toks, mode = call
                ser.strict = mode == "strict"

                def source():
                    for i, t in enumerate(toks):
                        if mode == "raise2" and i == 2:
                            raise IOError("token source failed")
                        yield dict(t, data=dict(t["data"]) if isinstance(t.get("data"), list) else t.get("data"))
                try:
                    if mode == "abandon2":
                        g = ser.serialize(source())
                        got = [next(g), next(g)]
                        del g
                        return ["abandoned", got]
                    return ["ok", "".join(ser.serialize(source())), list(ser.errors)]
                except SerializeError as e:
                    return ["SerializeError", str(e)]
                except IOError as e:
                    return ["IOError", str(e)]
            shared = HTMLSerializer(omit_optional_tags=False)
            diffs, res = [], []
            for i, call in enumerate(case["calls"]):
                a = run(shared, call)
                b = run(HTMLSerializer(omit_optional_tags=False), call)
                res.append(a[0])
                if a != b:
                    diffs.append([i, a, b])
            return [res, diffs]
        # histories
        tbname = case.get("tb", "dom")
        mk = (lambda: html5lib.getTreeBuilder("etree", fullTree=True)) if tbname == "etree" else (lambda: html5lib.getTreeBuilder("dom"))
        shared = html5lib.HTMLParser(tree=mk())
        diffs = []
        res = []
        for i, call in enumerate(case["calls"]):
            a = observe(shared, call)
            b = observe(html5lib.HTMLParser(tree=mk()), call)
            res.append(a[0])
            if a != b:
                diffs.append([i, a[0], b[0]])
        return [res, diffs]

    def oracle(self, case, out):
        if case["k"] == 1 and out[1]:
            return [("reused-parser-differs-from-fresh", repr((case["calls"], out[1])))]
        if case["k"] == 3 and out[1]:
            return [("reused-serializer-differs-from-fresh", repr(out[1])[:600])]
        if case["k"] == 4 and not out[0]:
            return [("concurrent-parses-interfere", repr(out[1])[:600])]
        if case["k"] == 2:
            want = [["DOCUMENT_ROOT", 3] if ft else ["html", 2] for ft in case["order"]]
            if out[0] != want:
                return [("tree-builder-request-depends-on-earlier-requests", repr((case["order"], out[0], want)))]
        return []

    def nontrivial_key(self, case, out):
        return repr(sorted(case.items(), key=str))


PLUGIN = C12()
