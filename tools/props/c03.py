"""C03 -- parsing is total and yields a well-formed document skeleton.

k=0  model correspondence: generateImpliedEndTags on generated stacks (names popped + recursion depth).
k=1  the property on the real parser: no exception, termination within the case timeout, skeleton predicate, for
     etree/dom x namespacing x document/fragment x container x scripting, on tag soup, nested markup,
     pathological depth/length families, single-tag prefixes of every dispatch key, random bytes."""
import json

import gen_markup
from framework import Plugin

HTML = "http://www.w3.org/1999/xhtml"
IMPLIED = ["dd", "dt", "li", "option", "optgroup", "p", "rp", "rt"]
CONTAINERS = ["div", "td", "tr", "table", "select", "title", "textarea", "script", "style", "plaintext", "svg", "math",
              "html", "head", "body", "frameset", "template", "caption", "colgroup", "tbody", "option", "p", "a", "noscript",
              "xmp", "iframe", "button", "DIV", "foreignObject", "annotation-xml"]
DEEP = ["div", "b", "rt", "p", "li", "dd", "option", "optgroup", "table", "td", "a", "nobr", "font", "svg", "math", "select",
        "button", "form", "h1", "ruby", "rp", "span", "ul", "tr", "tbody", "template", "frameset", "html", "body", "head",
        "applet", "marquee", "object", "caption", "colgroup", "mi", "foreignObject", "desc", "title", "textarea", "pre"]


AFTER_FRAMESET = ("noframes", "a", "b", "big", "code", "em", "font", "i", "nobr", "s", "small", "strike", "strong", "tt", "u")


def skeleton_ok(forest):
    """doctype? comments; exactly one html element; its element children are head then body|frameset; only
    whitespace text directly under html"""
    els = [n for n in forest if n[0] == "E"]
    if len(els) != 1 or els[0][2] != "html":
        return "document element: %r" % [n[2] for n in els]
    if any(n[0] == "T" for n in forest):
        return "text at document level"
    seen_html = False
    for n in forest:
        if n[0] == "E":
            seen_html = True
        elif n[0] == "D" and seen_html:
            return "doctype after html"
    kids = els[0][4]
    kel = [k[2] for k in kids if k[0] == "E"]
    if len(kel) > 2 and kel[0] == "head" and kel[1] == "frameset" and all(k in AFTER_FRAMESET for k in kel[2:]):
        # the standard's own "after frameset" rules put these directly under html: see the listed finding
        return "after-frameset: children of html: %r" % kel
    if len(kel) != 2 or kel[0] != "head" or kel[1] not in ("body", "frameset"):
        return "children of html: %r" % kel
    for k in kids:
        if k[0] == "T" and k[1].strip("\t\n\x0c\r ") != "":
            return "non-whitespace text under html: %r" % k[1][:30]
    return None


class C03(Plugin):
    id = "C03"
    gen = ["Consts", "Phases"]
    n_quick = 3000
    n_thorough = 60000
    case_timeout = 240
    model_chunk = 2000
    rule = ("k=0: stacks of open elements over the implied-end-tag names and others, with every exclude value: real "
            "generateImpliedEndTags vs model; k=1: tag soup, nested markup, random bytes/str, every start and end tag "
            "of the dispatch tables as a one-tag document and after <table>/<select>/<svg>/<frameset>, nesting of "
            "each of 41 element kinds to depth 3 000 (thorough: 10 000) and 10 000 repeated formatting tags, x "
            "builder in {etree, dom} x namespacing x document/fragment with 31 containers x scripting")
    trusted_base = ["tools/trees.py traversal of the returned tree", "CPython's recursion limit (1000) as configured"]

    # ---------------------------------------------------------------- generation
    def patho(self, rng, tier):
        n = rng.choice([200, 1200, 3000]) if tier != "thorough" else rng.choice([3000, 6000, 10000])
        r = rng.random()
        el = rng.choice(DEEP)
        if r < 0.4:
            return ("<%s>" % el) * n + rng.choice(["", "x", "</%s>" % el, "</div>", "<p>", "<table>"])
        if r < 0.55:
            other = rng.choice(DEEP)
            return rng.choice(["<div>", "<table>", "<svg>", "<select>", ""]) + ("<%s><%s>" % (el, other)) * (n // 2) + "</div>"
        if r < 0.7:
            return ("<b><i><a>x</b></i>") * (n // 10)
        if r < 0.8:
            return "&#" + "9" * n + ";" + "&#x" + "F" * n
        if r < 0.9:
            return "<a " + " ".join("a%d=%d" % (i, i) for i in range(n // 4)) + ">"
        return "<!--" + "-" * n + "<" * n + "&" * 50

    def cases(self, rng, n, tier):
        from html5lib import html5parser
        tags = sorted({k for cls in html5parser._phases.values() for nm in ("startTagHandler", "endTagHandler")
                       if nm in cls.__dict__ for k in cls.__dict__[nm].keys()})
        for i in range(n):
            r = rng.random()
            if r < 0.08:
                stack = ["html"] + [rng.choice(IMPLIED + IMPLIED + ["div", "html", "td", "rtc", "rb"]) for _ in range(rng.randint(0, 12))]
                yield {"k": 0, "stack": stack, "exclude": rng.choice([None, None] + IMPLIED + ["div"])}
                continue
            cfg = {"tree": rng.choice(["etree", "dom"]), "ns": rng.random() < 0.8, "fragment": rng.random() < 0.35,
                   "container": rng.choice(CONTAINERS), "scripting": rng.random() < 0.3}
            if r < 0.5:
                m = gen_markup.document(rng, 14)
            elif r < 0.62:
                t = rng.choice(tags)
                m = rng.choice(["", "<table>", "<select>", "<svg>", "<frameset>", "<math><mi>", "<table><tr><td>", "<head>",
                                "<html><head></head>", "<body></body>", "</html>", "<template>", "<table><caption>",
                                "<table><colgroup>", "<ruby>", "<button>", "<a><table>", "<p><b>"]) \
                    + rng.choice(["<%s>", "</%s>", "<%s/>", "<%s><%s>", "<%s></%s>"]).replace("%s", t) \
                    + rng.choice(["", "x", "</table>", "<html>", "<body>", "<p>"])
            elif r < 0.72:
                m = "".join(chr(rng.choice([rng.randrange(0x80), rng.randrange(0x800), rng.randrange(0x110000), 0x3C, 0x3E, 0x2F]))
                            for _ in range(rng.randint(0, 40)))
                m = m.encode("utf-8", "surrogatepass").decode("utf-8", "replace") if rng.random() < 0.5 else m
            elif r < 0.8:
                m = bytes(rng.randrange(256) for _ in range(rng.randint(0, 60)))
                yield dict(cfg, k=1, markup=None, bytes=list(m))
                continue
            elif r < 0.88:
                m = self.patho(rng, tier)
            else:
                m = gen_markup.soup(rng, rng.randint(1, 25), names=gen_markup.TABLE + gen_markup.FOREIGN + gen_markup.STRUCT + ["html", "body", "head"])
            yield dict(cfg, k=1, markup=m)

    def corpus(self):
        out = []
        for m in ["<table><math><html>", "<table><svg><html>", "<div>" + "<rt>" * 3000 + "</div>", "&#" + "9" * 5000 + ";",
                  "<pre>\n\nx", "<frameset><math><html>", "<select><svg><html>", "<table><svg><body><td>", "<svg><html><body>",
                  "<math><head><title>", "<table><caption><svg><table>", "<html><frameset></frameset></html>x",
                  "</html><!--c-->x", "<body></body>x<!--c-->", "<b><frameset></frameset></html> ", "<frameset></frameset><noframes>x",
                  "<a><i><frameset></frameset> x", "<svg><html><desc><frameset>", "<template><frameset>", "<table><td><svg><tr>", ""]:
            for tb in ("etree", "dom"):
                out.append({"k": 1, "tree": tb, "ns": True, "fragment": False, "container": "div", "scripting": False, "markup": m})
                out.append({"k": 1, "tree": tb, "ns": False, "fragment": True, "container": "table", "scripting": True, "markup": m})
        # input that ends anywhere: every prefix of markup rich in character references, quotes, comments, doctypes,
        # CDATA, raw-text and script content (end of input reached in every tokenizer state, also inside references)
        for m in ["<a href=\"?a=1&copy=2&amp;x&lt\" title='x &lt &#x26;&#38 &notin; &notit;' b=&amp c=&gt>t&ampx &copy; &#xD800;&#0;</a>",
                  "<!DOCTYPE html PUBLIC \"-//W3C//DTD HTML 4.01//EN\" 'x'><!--a--b--!>--><svg><![CDATA[x]]y]]></svg><?pi?>",
                  "<script><!--<script>x</script>--></script><textarea>&lt</textarea><title>&amp</title><plaintext>&x"]:
            for i in range(len(m) + 1):
                out.append({"k": 1, "tree": "dom" if i % 2 else "etree", "ns": bool(i % 3), "fragment": i % 5 == 0, "container": "div",
                            "scripting": False, "markup": m[:i]})
        # the same parser object used for a second call, and a parse that restarts itself (a <meta> declaring another
        # encoding beyond the prescanned 1024 bytes), with both builders
        for tb in ("etree", "dom"):
            for m in ("<p>x", "<table><tr><td>y", "", "<frameset>"):
                out.append({"k": 1, "tree": tb, "ns": True, "fragment": False, "container": "div", "scripting": False, "markup": m,
                            "twice": True})
                out.append({"k": 1, "tree": tb, "ns": False, "fragment": True, "container": "td", "scripting": False, "markup": m,
                            "twice": True})
            late = b"<!-- " + b"x" * 1100 + b" --><meta charset=koi8-r><p>\xc1\xc2"
            out.append({"k": 1, "tree": tb, "ns": True, "fragment": False, "container": "div", "scripting": False, "markup": None,
                        "bytes": list(late)})
            out.append({"k": 1, "tree": tb, "ns": True, "fragment": False, "container": "div", "scripting": False, "markup": None,
                        "bytes": list(late), "twice": True})
        for m in gen_markup.phase_directed(gen_markup.dispatch_keys()):
            out.append({"k": 1, "tree": "dom" if len(out) % 2 else "etree", "ns": True, "fragment": False, "container": "div",
                        "scripting": False, "markup": m})
        for c, m in gen_markup.fragment_directed(gen_markup.dispatch_keys()):
            out.append({"k": 1, "tree": "dom" if len(out) % 2 else "etree", "ns": True, "fragment": True, "container": c,
                        "scripting": False, "markup": m})
        for i, m in enumerate(gen_markup.foreign_directed()):
            out.append({"k": 1, "tree": "dom" if i % 2 else "etree", "ns": i % 5 != 0, "fragment": False, "container": "div",
                        "scripting": False, "markup": m})
        for i, m in enumerate(gen_markup.closers_directed(gen_markup.dispatch_keys()) + gen_markup.reopen_directed() +
                              gen_markup.foreign_attrs_directed()):
            out.append({"k": 1, "tree": "dom" if i % 2 else "etree", "ns": i % 5 != 0, "fragment": i % 7 == 0, "container": "div",
                        "scripting": False, "markup": m})
        for ex in [None] + IMPLIED:
            out.append({"k": 0, "stack": ["div"] + IMPLIED * 2, "exclude": ex})
        return out

    # ---------------------------------------------------------------- model: generateImpliedEndTags
    def encode(self, case):
        if case["k"] != 0:
            return None
        return [0, case["stack"], [] if case["exclude"] is None else [case["exclude"]]]

    def impl(self, case):
        import html5lib
        if case["k"] == 0:
            from html5lib.treebuilders import dom
            tb = dom.getDomModule(__import__("xml.dom.minidom").dom.minidom).TreeBuilder(True)
            tb.openElements = [tb.createElement({"name": n, "namespace": HTML, "data": {}}) for n in case["stack"]]
            tb.generateImpliedEndTags(case["exclude"])
            return [[e.name for e in tb.openElements]]
        import trees
        data = bytes(case["bytes"]) if case.get("markup") is None else case["markup"]
        tbm = html5lib.getTreeBuilder("etree", fullTree=True) if case["tree"] == "etree" else html5lib.getTreeBuilder("dom")
        p = html5lib.HTMLParser(tree=tbm, namespaceHTMLElements=case["ns"])
        try:
            if case.get("twice"):
                # "they never raise": neither does a second call on the same parser object
                if case["fragment"]:
                    p.parseFragment(data, container=case["container"], scripting=case["scripting"])
                else:
                    p.parse(data, scripting=case["scripting"])
            if case["fragment"]:
                doc = p.parseFragment(data, container=case["container"], scripting=case["scripting"])
            else:
                doc = p.parse(data, scripting=case["scripting"])
        except RecursionError as e:
            return [1, "RecursionError"]
        except MemoryError:
            p = None        # let go of the parser (and of what it accumulated) before anything else is allocated
            return [1, "MemoryError at ?: the parse exhausted the worker's address space (a loop that never ends?)"]
        except Exception as e:
            import traceback
            tb = traceback.extract_tb(e.__traceback__)
            site = [f for f in tb if "html5lib" in f.filename][-1:]
            where = "%s:%s" % (site[0].filename.split("html5lib/")[-1], site[0].name) if site else "?"
            return [1, "%s at %s: %s" % (type(e).__name__, where, str(e)[:120])]
        if case["fragment"]:
            return [0, "fragment"]
        why = skeleton_ok(self.shallow(doc, case["tree"]))
        return [0, why or "ok"]

    @staticmethod
    def shallow(doc, kind):
        """the two top levels of the returned document, without recursion (trees can be 100 000 deep)"""
        from xml.dom import Node
        from xml.etree import ElementTree
        import trees

        def dom1(n, deep):
            t = n.nodeType
            if t == Node.ELEMENT_NODE:
                return ["E", n.namespaceURI, n.localName or n.nodeName, [], [dom1(c, False) for c in n.childNodes] if deep else []]
            if t in (Node.TEXT_NODE, Node.CDATA_SECTION_NODE):
                return ["T", n.nodeValue]
            if t == Node.COMMENT_NODE:
                return ["C", n.nodeValue]
            return ["D", n.name, n.publicId, n.systemId]

        def et1(e, deep):
            out = []
            if e.tag is ElementTree.Comment:
                node = ["C", e.text]
            elif e.tag == "<!DOCTYPE>":
                node = ["D", e.text, e.get("publicId"), e.get("systemId")]
            else:
                ns, name = trees.et_split(e.tag)
                kids = []
                if deep:
                    if e.text:
                        kids.append(["T", e.text])
                    for c in e:
                        kids.extend(et1(c, False))
                node = ["E", ns, name, [], kids]
            out.append(node)
            if e.tail:
                out.append(["T", e.tail])
            return out
        if kind == "dom":
            return [dom1(c, True) for c in doc.childNodes]
        forest = []
        if doc.text:
            forest.append(["T", doc.text])
        for c in doc:
            forest.extend(et1(c, True))
        return forest

    def oracle(self, case, out):
        if case["k"] == 0:
            return []
        if out[0] == 1:
            return [(self.crash_class(out[1]), out[1])]
        if out[1] not in ("ok", "fragment"):
            return [("skeleton-after-frameset" if out[1].startswith("after-frameset:") else "skeleton-broken", out[1])]
        return []

    @staticmethod
    def crash_class(msg):
        if msg.startswith("RecursionError"):
            return "recursion-limit"
        return "exception:" + msg.split(":")[0] + ":" + msg.split(" at ")[-1].split(":")[1] if " at " in msg else "exception"

    def classify(self, cls, case, detail):
        if cls == "skeleton-after-frameset":
            return "C03-after-frameset-children"
        return None

    def known_witnesses(self):
        return {"C03-after-frameset-children":
                {"k": 1, "tree": "etree", "ns": True, "fragment": False, "container": "div", "scripting": False,
                 "markup": "<b><frameset></frameset></html> "}}

    def nontrivial_key(self, case, out):
        if case["k"] == 0:
            return json.dumps(case)
        m = case.get("markup")
        return (m if m is not None else str(case.get("bytes")))[:200] + "|" + case["tree"] + str(case["fragment"]) if out else None

    def describe(self, case):
        d = dict(case)
        if d.get("markup") and len(d["markup"]) > 400:
            d["markup"] = d["markup"][:200] + "...(%d chars)..." % len(case["markup"]) + d["markup"][-60:]
        return d


PLUGIN = C03()
