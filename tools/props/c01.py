"""C01 -- tree construction: html5lib.parse / parseFragment (DOM builder) vs the tree-construction model TC
(coq/Model/TC.v: 23 phases, hand-modelled handler by handler) composed with the regenerated tokenizer model.
TC, with the fixed tables of Spec/TreeTables.v, is also the reference the property is decided against: any
difference between the implementation and TC is reported with the input as replay."""
import json

import gen_markup
import trees
from framework import Plugin

CONTAINERS = ["div", "td", "tr", "table", "select", "title", "textarea", "script", "style", "plaintext", "svg", "math",
              "html", "head", "body", "frameset", "caption", "colgroup", "tbody", "option", "p", "a", "noscript", "xmp",
              "iframe", "button", "ul", "pre", "form", "nobr", "h1", "li", "dd", "optgroup", "object", "marquee", "th",
              "thead", "tfoot", "col", "noframes", "noembed", "listing", "DIV", "foreignObject", "annotation-xml", "desc",
              "mi", "template"]
FMT = ["b", "i", "a", "nobr", "font", "em", "u", "s", "code", "big", "small", "strike", "strong", "tt"]
EXTRA = ["<p>", "</p>", "<div>", "</div>", "<table>", "</table>", "<tr>", "<td>", "</td>", "</tr>", "<tbody>", "<caption>", "<colgroup>",
         "<col>", "<select>", "<option>", "<optgroup>", "</select>", "<li>", "<ul>", "</ul>", "<dd>", "<dt>", "<h1>", "<h2>", "</h1>",
         "<form>", "</form>", "<button>", "</button>", "<applet>", "<marquee>", "</marquee>", "<object>", "<svg>", "</svg>", "<math>",
         "</math>", "<mi>", "<mtext>", "<annotation-xml encoding=text/html>", "<foreignObject>", "<desc>", "<title>", "</title>",
         "<textarea>", "</textarea>", "<script>", "</script>", "<style>", "</style>", "<noscript>", "<plaintext>", "<pre>", "<listing>",
         "<frameset>", "<frame>", "</frameset>", "<noframes>", "<head>", "</head>", "<body>", "</body>", "<html>", "</html>", "<br>",
         "</br>", "<hr>", "<img>", "<input>", "<input type=hidden>", "<image>", "<isindex>", "<isindex prompt=x action=y>", "<meta>",
         "<link>", "<base>", "<ruby>", "<rt>", "<rp>", "<xmp>", "<iframe>", "<noembed>", "<param>", "<area>", "<wbr>", "<keygen>",
         "<font color=red>", "<font>", "<a href=x>", "</a>", "<b>", "</b>", "<i>", "</i>", "<nobr>", "</nobr>", "<em>", "</em>",
         "<!--c-->", "<!DOCTYPE html>", "<!DOCTYPE html PUBLIC \"-//W3C//DTD HTML 4.01 Transitional//EN\">", "<!doctype x>",
         "x", " ", "\n", "\x00", "&amp;", "a b", "<body class=a>", "<html lang=x>", "<svg xlink:href=a viewbox=1>",
         "<math definitionurl=u>", "<mglyph>", "<malignmark>", "<clippath>", "<svg><font face=x>", "<table><input type=hidden>",
         "<table><form>", "<a><table><a>", "<b><p></b>", "<dialog>", "<menuitem>", "<template>", "<main>", "<details>", "<summary>",
         "</tbody>", "</thead>", "</tfoot>", "<thead>", "<tfoot>", "</caption>", "</colgroup>", "</option>", "</optgroup>", "</li>", "</dd>",
         "</dt>", "</h2>", "</applet>", "</object>", "</noscript>", "</th>", "<th>", "</ruby>", "</rt>", "<rb>", "<rtc>", "</pre>",
         "</form>", "</font>", "</nobr>", "<b class=a>", "<b class=b>", "<font size=1>", "<a href=2>", "</frame>", "</textarea>x",
         "</xmp>", "</iframe>", "</noembed>", "</noframes>", "</plaintext>", "</svg>x", "</mi>", "</desc>", "</foreignObject>"]


AUDIT_INPUTS = [(m, None) for m in [
    "</br><frameset></frameset>", "<b><span><span><span><span><p>x</b>y</p>z", "<b><em><foo><foo><foo><aside></b></em>x",
    "<b><i><u><s><em><p></b></p></em></s></u>z", "<ul><li><main><li>x", "<ul><li><figcaption><li>x", "<ul><li><hgroup><li>x",
    "<dl><dd><summary><dt>x", "<b><main>x</b>y", "<a><hgroup>x</a>y", "<i><figcaption>x</i>y", "<span><summary></span>x",
    "<span><math><mi><i></span>x", "<svg><title><span></title>x", "<svg><desc><span></desc>x", "<math><mi><span></mi>x",
    "<math><annotation-xml encoding=text/html><span></annotation-xml>x", "<table><button>a<button>b", "<table><tr><button>a<button>b",
    "<pre></b>\nfoo", "<pre><!doctype html>\nx", "<pre><tr>\nx", "<pre>\0\nx", "<table><pre>\nx", "<table><textarea>\nx</textarea>y",
    "<p><command>x", "<command>x", "<b id=1><table><b><i><b><b><b></b></b></b></b>x", "<b id=1><svg><desc><b><i><b><b><b></b></b></b></b>x",
    "<b><div><i k=1><div><i k=2><div><i k=3><div><i k=4><div><i k=5><div><i k=6><div><i k=7><div><u>x</b>w</div>y",
    "<table><math><mi>a<mglyph></mglyph>b</mi></math></table>", "<table><svg><desc> <!--c-->x</desc></svg></table>",
    "<table><tr><td></td><svg><title>a<!--c-->", "<table><p><b><p> <!--c--></table>", "<table><li>a<li>b</table>",
    "<table><p>a<li>b</table>", "<table><dd>a<dt>b</table>", "<table><option>a<option>b</table>", "<table><tr><li>a<li>b</table>",
    "<frameset>a b</frameset>", "<frameset></frameset>a b", "<frameset></frameset></html>a b", "<table><tr><listing>\n\n</listing></table>",
    "<pre></span>\nx</pre>", "<table> <!doctype html>y</table>", "<head><command>", "<body><command>x", "x<table>y z</table>",
    "<svg><desc><b></desc>x", "<math><mi><b></mi>x", "<math><annotation-xml encoding=application/xhtml+XML><b>a</annotation-xml>c",
    "<svg><desc><span></svg>x", "<span><svg><title>x</span>y", "<b><svg><desc>x</b>y", "<i><math><mtext>x</i>y", "<a><svg><desc><a>x",
    "<table><caption><svg><caption><desc><b></caption>x", "<table><tr><td><svg><td><desc><b></td>x", "<form><svg><option></form>x",
    "<form><math><rt></form>x", "<table><math><mi>a<mglyph>", "<table><svg><desc>a<!--c-->b", "<table><svg><desc> <!--c-->",
    "<table><math><mi>a<!--c-->b</mi>", "<svg><desc><![CDATA[a\0b]]>", "<svg><fedropshadow>",
    "<svg contentscripttype=a contentstyletype=d externalresourcesrequired=b filterres=c>", "<svg xml:base=e>",
    "<table><tr><td><pre>\n\nx", "<table><caption><pre>\nx", "<select><pre>\nx", "<table><tr>\0 a", "<table><b> x<tr> y"]] + [
    ("<button>a<button>b", "table"), ("<select><tr>x", "td"), ("<select><td>x", "th"), ("<table></table><select><tr>x", "td"),
    ("<select><table><tr><td>x", "td"), ("<frame></frameset>x <noframes>y</noframes>", "frameset"), ("a b<col>", "colgroup"),
    ("<form><input>", "form"), ("<g/>x<![CDATA[y]]><p>", "svg"), ("<mi/>x", "math"), ("<p><table>", "div"),
    (" x<b>y", "table"), ("x <b> y<td>z", "tr"), ("<li>a<li>b", "tbody"), ("<select><tr>x", "caption"), ("<select><tr>x", "tr")]


# what a reused parser may have parsed before: open forms, heads, pending table text, formatting elements, quirks ...
FIRST = ["<form>", "<form><table><tr><td>x", "<table>pending", "<head><title>t", "<b><i><a href=x>", "<frameset>", "<select><option>",
         "<!DOCTYPE html PUBLIC \"-//W3C//DTD HTML 3.2//EN\"><p>", "<pre>\n", "<svg><g>", "<table><caption>", "<script>x", "<textarea>",
         "<body a=b><form id=f><input>", "<math><mi>", "<p><button><p>", "<html lang=x><head><base>"]


def markup(rng):
    r = rng.random()
    if r < 0.35:
        return gen_markup.document(rng, 12)
    n = rng.randint(1, 12)
    if r < 0.7:
        return "".join(rng.choice(EXTRA) for _ in range(n))
    if r < 0.85:   # adoption agency shapes
        out = []
        for _ in range(n):
            x = rng.random()
            f = rng.choice(FMT)
            if x < 0.4:
                out.append("<%s>" % f)
            elif x < 0.6:
                out.append("</%s>" % f)
            elif x < 0.8:
                out.append(rng.choice(["<p>", "<div>", "</p>", "</div>", "<table>", "<td>", "<li>", "<button>", "x", "<tr>"]))
            else:
                out.append(rng.choice(EXTRA))
        return "".join(out)
    return "".join(rng.choice(EXTRA + ["<table>", "<tr>", "<td>", "<select>", "<svg>", "<math>"]) for _ in range(n))


def forest_of(doc):
    return trees.enc_forest(trees.sort_attrs(trees.coalesce(trees.dom_forest(doc))))


class C01(Plugin):
    id = "C01"
    gen = ["Entities", "Tokenizer", "TreeTables", "Phases"]
    n_quick = 3000
    n_thorough = 150000
    case_timeout = 60
    model_chunk = 1500
    rule = ("markup: tag soup over ~150 element names, ~170 hand-picked fragments (tables, select, formatting/adoption "
            "agency shapes, foreign content with integration points, framesets, head elements, raw-text elements, "
            "isindex/image, doctypes incl. quirks), nested markup; x document / fragment with 49 containers x scripting "
            "x namespaceHTMLElements; trees compared by direct traversal of minidom (attributes sorted, text joined)")
    trusted_base = ["coq/Model/TC.v + TCdom.v: hand model of html5parser.py's 23 phases and of the DOM tree builder "
                    "(hash-pinned), which doubles as the reference the implementation is compared with; cross-checked against "
                    "56 hand-derived WHATWG trees (tools/props/c01_whatwg_witnesses.json) and four independent audits "
                    "(audit/*.md) -- deviations from the standard that neither found remain possible",
                    "coq/Spec/TreeTables.v: fixed copy of the tree-construction tables",
                    "tools/trees.py traversal of minidom"]

    def cases(self, rng, n, tier):
        for i in range(n):
            frag = rng.random() < 0.3
            c = {"markup": markup(rng), "fragment": frag, "container": rng.choice(CONTAINERS) if frag else "div",
                 "scripting": rng.random() < 0.25, "ns": rng.random() < 0.85}
            if rng.random() < 0.15:
                c["first"] = rng.choice(FIRST)
                c["first_fragment"] = rng.random() < 0.3
            yield c

    def corpus(self):
        out = []
        for m in ["<s><textarea>x</textarea>", "<table><math><html>", "<a><table><a>", "<b><p></b>x", "<table><tr><td><svg><td>",
                  "<select><option><optgroup><option>", "<p><table>", "<!DOCTYPE html><p><table>", "<svg><foreignObject><p><svg><p>",
                  "<math><annotation-xml encoding=TEXT/html><p>", "<frameset><frame></frameset><noframes>x", "<isindex prompt=a action=b x=y>",
                  "<table><caption><b><table>", "<button><button>", "<nobr><nobr><nobr>", "<b><b><b><b><p>x", "<li><li><ul><li></li>",
                  "<h1><h2>", "<dd><dt><div><dd>", "<ruby><rt><rp>", "<html a=1><html b=2><body c=3><body d=4>", "</br>", "<pre>\n\nx",
                  "<table> x <tr> y", "<table><td>a</table>b", "<svg><![CDATA[a]]></svg>", "<title>a</title><title>b", "<head></head> <!--c-->x",
                  "<body></body><!--c-->", "</html>x<!--c-->", "<font><p>a<table><font>", "<a><p><a>", "<a>1<div>2<div>3</a>4</div>5</div>",
                  # whitespace-only tokens in cells and captions (newline after pre/listing/textarea, reconstruction);
                  # a second table start tag in a fragment
                  "<table><tr><td><pre>\nx</pre>", "<table><caption><textarea>\nx", "<table><tr><td><listing>\n\ny",
                  "<table><tr><td><b><p>a</b> <i>c", "<table><caption><b><p>a</b>\n<i>c", "<table><table>x",
                  "<table><tr><td>a<table>b", "<tr><table>x", "<table><tbody><table><tr><table>",
                  # attribute merging into html/body goes through another minidom API than element creation
                  "<p><html href=u xlink:href=#a> ", "<p><body href=u xlink:href=#a><body xlink:href=b href=c x:href=d>",
                  "<html xlink:href=a><p><html href=b a:href=c>", "<html href=u><body a:b=1><html xlink:href=v><body c:b=2 b=3>"]:
            out.append({"markup": m, "fragment": False, "container": "div", "scripting": False, "ns": True})
            out.append({"markup": m, "fragment": True, "container": "div", "scripting": False, "ns": True})
            out.append({"markup": m, "fragment": True, "container": "table", "scripting": True, "ns": False})
        # every insertion mode x every start/end tag of the dispatch tables (and a few others) x continuations
        for m in gen_markup.phase_directed(gen_markup.dispatch_keys()):
            out.append({"markup": m, "fragment": False, "container": "div", "scripting": False, "ns": True})
        for c, m in gen_markup.fragment_directed(gen_markup.dispatch_keys()):
            out.append({"markup": m, "fragment": True, "container": c, "scripting": False, "ns": True})
        # end tags with attributes, scope closers with elements in between, namespaced attributes
        for i, m in enumerate(gen_markup.closers_directed(gen_markup.dispatch_keys()) + gen_markup.reopen_directed() +
                              gen_markup.foreign_attrs_directed()):
            out.append({"markup": m, "fragment": i % 7 == 0, "container": "div", "scripting": False, "ns": i % 5 != 0})
        # foreign elements with HTML names + integration points: every name-only test meets a foreign namesake
        for i, m in enumerate(gen_markup.foreign_directed()):
            out.append({"markup": m, "fragment": False, "container": "div", "scripting": False, "ns": i % 5 != 0})
        # adoption agency: the outer loop runs at most 8 times, the inner loop leaves the list alone for 3 steps --
        # formatting element, k nested special elements (outer), j formatting elements in between (inner)
        for f in ("b", "a", "nobr", "font"):
            for k in range(0, 12):
                for j in (0, 1, 2, 3, 4, 5):
                    for blk in ("div", "p", "li"):
                        if blk != "div" and (k > 9 or j > 3):
                            continue
                        inner = "".join("<%s>" % g for g in ("i", "u", "s", "em", "tt")[:j])
                        m = "<%s>" % f + inner + ("<%s>" % blk) * k + "x</%s>y" % f
                        out.append({"markup": m, "fragment": False, "container": "div", "scripting": False, "ns": True})
                        if k in (7, 8, 9) and blk == "div":
                            out.append({"markup": "<table><td>" + m, "fragment": False, "container": "div", "scripting": False, "ns": True})
                            out.append({"markup": m + "</div>z</%s>w" % f, "fragment": True, "container": "div", "scripting": False, "ns": True})
        # the quirks / limited-quirks decision: public identifiers of every class x system identifier missing, empty,
        # the IBM one, other x what the mode changes (a table start tag while a p is open)
        pubs = ["-//W3C//DTD HTML 4.01 Transitional//EN", "-//W3C//DTD HTML 4.01 Frameset//EN", "-//W3C//DTD XHTML 1.0 Transitional//EN",
                "-//W3C//DTD XHTML 1.0 Frameset//EN", "-//W3C//DTD HTML 3.2//EN", "HTML", "-//W3O//DTD W3 HTML Strict 3.0//EN//",
                "-/W3C/DTD HTML 4.0 Transitional/EN", "-//W3C//DTD HTML 4.01//EN", "", "-//w3c//dtd html 4.01 transitional//en",
                "-//W3C//DTD HTML 4.0 Transitional//EN", "+//Silmaril//dtd html Pro v0r11 19970101//x"]
        syss = [None, "", "http://www.ibm.com/data/dtd/v11/ibmxhtml1-transitional.dtd", "x",
                "HTTP://WWW.IBM.COM/data/dtd/v11/ibmxhtml1-transitional.dtd"]
        for name in ("html", "HTML", "htm", ""):
            for pb in (pubs if name == "html" else pubs[:2]):
                for sy in syss:
                    dt = "<!DOCTYPE %s PUBLIC \"%s\"%s>" % (name, pb, "" if sy is None else " '%s'" % sy)
                    out.append({"markup": dt + "<p>a<table><tr><td>b", "fragment": False, "container": "div", "scripting": False, "ns": True})
        for dt in ("<!DOCTYPE html SYSTEM ''>", "<!DOCTYPE html SYSTEM 'about:legacy-compat'>", "<!DOCTYPE html SYSTEM \"x\" y>", "<!DOCTYPE>",
                   "<!DOCTYPE html PUBLIC>", "<!DOCTYPE html PUBLIC 'a' x>", "<!doctype html public \"-//W3C//DTD HTML 4.01 Frameset//EN\" \"\">"):
            out.append({"markup": dt + "<p>a<table><tr><td>b", "fragment": False, "container": "div", "scripting": False, "ns": True})
        # formatting elements that differ only in attribute values / names (Noah's Ark, adoption agency)
        for f in ("b", "a", "font", "nobr"):
            for attrs in (["class=a", "class=b", "class=c", "class=d"], ["class=a"] * 4, ["id=a", "class=a", "id=a", "id=a title=t"],
                          ["", "", "", ""], ["x=1 y=2", "y=2 x=1", "x=1 y=2", "x=1 y=2"]):
                m = "<p>" + "".join("<%s %s>" % (f, a) for a in attrs)
                for tail in ("</p><p>x", "<div>x</%s>y" % f, "</%s></%s>x<p>y" % (f, f), "<table><td>x</table></%s>" % f):
                    out.append({"markup": m + tail, "fragment": False, "container": "div", "scripting": False, "ns": True})
        # a reused parser: an earlier parse left a form pointer, a head pointer, pending text ... behind
        for first in FIRST:
            for m in ("<form><input></form>x", "<table>y<tr><td>z", "<p>a<b>c", "<head></head><title>u</title>", " <li>x"):
                out.append({"markup": m, "fragment": True, "container": "div", "scripting": False, "ns": True, "first": first,
                            "first_fragment": False})
                out.append({"markup": m, "fragment": False, "container": "div", "scripting": False, "ns": True, "first": first,
                            "first_fragment": True})
        # inputs of the independent WHATWG audits (audit/*.md): deviations repaired since, and the ones still listed
        for m, frag in AUDIT_INPUTS:
            out.append({"markup": m, "fragment": frag is not None, "container": frag or "div", "scripting": False, "ns": True})
            out.append({"markup": "<!doctype html>" + m, "fragment": False, "container": "div", "scripting": True, "ns": False})
        # ... and the hand-derived WHATWG trees for some of them (an oracle independent of TC)
        for i, w in enumerate(self.witnesses()):
            out.append({"markup": w["markup"], "fragment": w["container"] is not None, "container": w["container"] or "div",
                        "scripting": False, "ns": True, "witness": i})
        return out

    @staticmethod
    def witnesses():
        import os
        with open(os.path.join(os.path.dirname(os.path.abspath(__file__)), "c01_whatwg_witnesses.json"), encoding="utf-8") as f:
            return json.load(f)["witnesses"]

    def encode(self, case):
        m = case["markup"].replace("\r\n", "\n").replace("\r", "\n")
        return [int(case["fragment"]), case["container"], int(case["scripting"]), int(case["ns"]), m, 0]

    def impl(self, case):
        import html5lib
        p = html5lib.HTMLParser(tree=html5lib.getTreeBuilder("dom"), namespaceHTMLElements=case["ns"])
        if case.get("first") is not None:
            # the parser object has been used before: the result may not depend on that
            try:
                (p.parseFragment if case.get("first_fragment") else p.parse)(case["first"])
            except Exception:
                pass
        try:
            if case["fragment"]:
                doc = p.parseFragment(case["markup"], container=case["container"], scripting=case["scripting"])
            else:
                doc = p.parse(case["markup"], scripting=case["scripting"])
        except (AssertionError, IndexError, AttributeError, ValueError, TypeError, KeyError, NotImplementedError) as e:
            self._err = "%s: %s" % (type(e).__name__, e)
            return [1, []]
        return [0, forest_of(doc)]

    # ---- the property: the WHATWG variant of the model (all deviation switches on) ----
    # bits 0, 1, 3, 4, 6 were deviations repaired in /repo; their switches are no-ops now
    DEVIATIONS = ["(repaired)", "(repaired)", "isindex-expanded", "(repaired)", "(repaired)", "foreign-end-br-p-no-breakout",
                  "(repaired)", "name-only-tests-ignore-namespace", "minidom-attribute-collision"]
    ALL = (1 << 9) - 1

    def enc_dev(self, case, mask):
        e = self.encode(case)
        return e[:5] + [mask]

    def batch_oracle(self, cases, results, run_model):
        spec = run_model([self.enc_dev(c, self.ALL) for c in cases])
        v = []
        todo = []
        for i, (c, o) in enumerate(zip(cases, spec)):
            got = results[i][0]
            if "template" in c["markup"].lower() or (c["fragment"] and c["container"].lower() == "template"):
                v.append((c, "template-not-supported", "the input uses <template>, which html5lib 1.1 treats as an ordinary "
                          "element (no 'in template' insertion mode); not compared", got))
                continue
            if got is not None and got != o:
                todo.append(i)
            if "witness" in c and got is not None:
                w = self.witnesses()[c["witness"]]
                if self.show(got) != w["expected"]:
                    v.append((c, "whatwg-witness:" + (w["finding"] or "unlisted"),
                              "hand-derived WHATWG tree (%s) differs\nimplementation: %s\nstandard:       %s"
                              % (w["source"], self.show(got), w["expected"]), got))
        # which deviation point explains the difference?  flip the switches one at a time
        if todo:
            singles = {}
            for b in range(9):
                outs = run_model([self.enc_dev(cases[i], 1 << b) for i in todo])
                for i, o in zip(todo, outs):
                    singles.setdefault(i, []).append(o)
            base = run_model([self.enc_dev(cases[i], 0) for i in todo])
            for i, b0 in zip(todo, base):
                got = results[i][0]
                if got != b0:
                    cls = "tree-differs-from-model"        # also a correspondence failure
                else:
                    hit = [self.DEVIATIONS[b] for b in range(9) if singles[i][b] != b0]
                    cls = "deviation:" + hit[0] if hit else "deviation:combined"
                v.append((cases[i], cls, "implementation: %s\nWHATWG model:   %s" % (self.show(got), self.show(spec[i])), got))
        return v

    @staticmethod
    def show(s):
        import sexp
        try:
            x = sexp.loads(s)
            if x[0] != 0:
                return "CRASH " + (sexp.to_str(x[1]) if len(x) > 1 and x[1] else "")

            def node(n):
                if n[0] == 0:
                    a = "".join(" %s=%r" % (sexp.to_str(k[1]), sexp.to_str(val)) for k, val in n[3])
                    ns = sexp.to_str(n[1][0]) if n[1] else ""
                    pre = {"http://www.w3.org/2000/svg": "svg:", "http://www.w3.org/1998/Math/MathML": "math:"}.get(ns, "")
                    return "<%s%s%s>%s</>" % (pre, sexp.to_str(n[2]), a, "".join(node(c) for c in n[4]))
                if n[0] == 1:
                    return repr(sexp.to_str(n[1]))
                if n[0] == 2:
                    return "<!--%s-->" % sexp.to_str(n[1])
                return "<!DOCTYPE %s>" % sexp.to_str(n[1][0] if n[1] else [])
            return "".join(node(n) for n in x[1])[:900]
        except Exception:
            return s[:600]

    def oracle(self, case, out):
        return []

    def classify(self, cls, case, detail):
        if cls == "template-not-supported":
            return "C01-template-not-supported"
        if cls.startswith("whatwg-witness:"):
            return None if cls.endswith(":unlisted") else cls.split(":", 1)[1]
        if cls.startswith("deviation:") and cls != "deviation:combined":
            return "C01-" + cls.split(":", 1)[1]
        return None

    def known_witnesses(self):
        w = lambda m, **kw: dict({"markup": m, "fragment": False, "container": "div", "scripting": False, "ns": True}, **kw)
        return {"C01-template-not-supported": w("<template><td>x</td></template>"),
                "C01-isindex-expanded": w("<isindex prompt=x>"),
                "C01-foreign-end-br-p-no-breakout": w("<svg></p>x</svg>"),
                "C01-name-only-tests-ignore-namespace":
                    w("<svg><title><span></title>x"),
                "C01-minidom-attribute-collision": w("<br href=u xlink:href=v>"),
                "C01-pre-newline-not-next-token": w("<pre></b>\nfoo", witness=44),
                "C01-command-void-head-element": w("<p><command>x", witness=47),
                "C01-fragment-form-pointer": w("<form><input>", fragment=True, container="form", witness=50),
                "C01-cdata-nul-at-integration-point": w("<svg><desc><![CDATA[a\0b]]>", witness=55)}

    def nontrivial_key(self, case, out):
        return json.dumps(case, sort_keys=True) if out and out[0] == 0 and len(json.dumps(out)) > 80 else None

    def describe(self, case):
        return case


PLUGIN = C01()
