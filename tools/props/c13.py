"""C13 -- optional-tags filter."""
from framework import Plugin
from tokens import enc_tokens, from_json

LISTED = ["html", "head", "body", "li", "dt", "dd", "p", "rt", "rp", "optgroup", "option", "colgroup", "thead",
          "tbody", "tfoot", "tr", "td", "th"]
P_FOLLOW_SPEC = ["address", "article", "aside", "blockquote", "details", "div", "dl", "fieldset", "figcaption",
                 "figure", "footer", "form", "h1", "h2", "h3", "h4", "h5", "h6", "header", "hgroup", "hr", "main",
                 "menu", "nav", "ol", "p", "pre", "section", "table", "ul"]
P_PARENT_EXCLUDED = ["a", "audio", "del", "ins", "map", "noscript", "video"]
OTHER = ["datagrid", "dialog", "dir", "script", "style", "meta", "link", "template", "col", "caption", "table",
         "select", "ruby", "dl", "ul", "ol", "div", "span", "b", "x", "foo", "svg", "title",
         "m", "h", "t", "l", "ht", "tm", "ml", "htm", "tml", "", "htmlx", "xhtml", "HTML", "P", "tbodyx", "d", "r",
         "my-card", "x-a", "font-face", "annotation-xml"]
RESERVED_HYPHEN = ["annotation-xml", "color-profile", "font-face", "font-face-src", "font-face-uri", "font-face-format",
                   "font-face-name", "missing-glyph"]


def is_custom_name(n):
    """valid custom element name (approximation over the names generated here): a-z first, contains '-', no upper
    case, not one of the reserved hyphenated names"""
    return bool(n) and "a" <= n[0] <= "z" and "-" in n and n == n.lower() and n not in RESERVED_HYPHEN
NAMES = LISTED * 3 + P_FOLLOW_SPEC + P_PARENT_EXCLUDED + OTHER
HTML = "http://www.w3.org/1999/xhtml"


def tok(rng):
    r = rng.random()
    ns = rng.choice([HTML, HTML, HTML, None, "http://www.w3.org/2000/svg"])
    if r < 0.35:
        return {"type": "StartTag", "namespace": ns, "name": rng.choice(NAMES),
                "data": [] if rng.random() < 0.85 else [[[None, "id"], "x"]]}
    if r < 0.7:
        return {"type": "EndTag", "namespace": ns, "name": rng.choice(NAMES)}
    if r < 0.78:
        return {"type": "EmptyTag", "namespace": ns, "name": rng.choice(["hr", "col", "meta", "link", "br", "img"] + NAMES),
                "data": []}
    if r < 0.86:
        return {"type": "Characters", "data": rng.choice(["x", "a b"])}
    if r < 0.92:
        return {"type": "SpaceCharacters", "data": " "}
    if r < 0.97:
        return {"type": "Comment", "data": "c"}
    if r < 0.985:
        return {"type": "Doctype", "name": "html", "publicId": None, "systemId": None}
    return {"type": "Entity", "name": rng.choice(["amp", "p", "html"])}


def kind(t):
    return t["type"] if t is not None else None


def spec_allows(prev, t, nxt):
    """HTML syntax, 'Optional tags' (DESIGN A.8) -- may this tag be omitted here?  One-directional oracle."""
    n, ty = t["name"], t["type"]
    nk, nn = kind(nxt), (nxt or {}).get("name")
    no_more = nk in ("EndTag", None)
    not_ws_comment = nk not in ("Comment", "SpaceCharacters")
    if ty == "StartTag":
        if t["data"]:
            return False
        if n == "html":
            return nk != "Comment"
        if n == "head":
            return nk in ("StartTag", "EmptyTag") or (nk == "EndTag" and nn == "head")
        if n == "body":
            if nk in ("StartTag", "EmptyTag") and nn in ("meta", "link", "script", "style", "template"):
                return False
            return not_ws_comment
        if n == "colgroup":
            return nk in ("StartTag", "EmptyTag") and nn == "col"
        if n == "tbody":
            return nk == "StartTag" and nn == "tr"
        return False
    if n in ("html", "body"):
        return nk != "Comment"
    if n == "head":
        return not_ws_comment
    if n == "li":
        return (nk == "StartTag" and nn == "li") or no_more
    if n == "dt":
        return nk == "StartTag" and nn in ("dt", "dd")
    if n == "dd":
        return (nk == "StartTag" and nn in ("dt", "dd")) or no_more
    if n == "p":
        if nk in ("StartTag", "EmptyTag"):
            return nn in P_FOLLOW_SPEC
        # "... and the parent element is an HTML element that is not an a, audio, del, ins, map, noscript, or video
        # element, or an autonomous custom element" (the last clause is NOT in Spec/OptionalTags.v: decision trees
        # over literal names cannot express it; it is decided here only)
        # ... nor can "is an HTML element": the end tag of an SVG or MathML parent)
        return nk is None or (nk == "EndTag" and nn not in P_PARENT_EXCLUDED and not is_custom_name(nn) and
                              nxt.get("namespace") in (HTML, None))
    if n in ("rt", "rp"):
        return (nk == "StartTag" and nn in ("rt", "rp")) or no_more
    if n == "optgroup":
        return (nk == "StartTag" and nn == "optgroup") or no_more
    if n == "option":
        return (nk == "StartTag" and nn in ("option", "optgroup")) or no_more
    if n in ("colgroup", "caption"):
        return not_ws_comment
    if n == "thead":
        return nk == "StartTag" and nn in ("tbody", "tfoot")
    if n == "tbody":
        return (nk == "StartTag" and nn in ("tbody", "tfoot")) or no_more
    if n == "tfoot":
        return no_more
    if n == "tr":
        return (nk == "StartTag" and nn == "tr") or no_more
    if n in ("td", "th"):
        return (nk == "StartTag" and nn in ("td", "th")) or no_more
    return False


class C13(Plugin):
    id = "C13"
    gen = ["OptionalTags"]
    n_quick = 6000
    n_thorough = 300000
    rule = ("random token streams (1-8 tokens) over the 18 listed names, the names licensing </p> omission, the "
            "excluded parents, substrings/superstrings of 'html', unknown and foreign names; non-trivial = distinct "
            "stream in which the filter removed at least one token")

    def corpus(self):
        out = []
        for n in ["m", "h", "t", "l", "ht", "tm", "ml", "htm", "tml", "html", ""]:
            out.append({"toks": [{"type": "StartTag", "namespace": HTML, "name": n, "data": []},
                                 {"type": "Characters", "data": "x"}]})
        for n in P_PARENT_EXCLUDED + ["div", "my-card", "font-face", "canvas"]:
            out.append({"toks": [{"type": "EndTag", "namespace": HTML, "name": "p"},
                                 {"type": "EndTag", "namespace": HTML, "name": n}]})
        for n in ["meta", "link", "script", "style", "template", "p", "noscript"]:
            for k in ("EmptyTag", "StartTag"):
                out.append({"toks": [{"type": "StartTag", "namespace": HTML, "name": "body", "data": []},
                                     {"type": k, "namespace": HTML, "name": n, "data": []}]})
        for n in ["datagrid", "dialog", "dir", "details", "main"]:
            out.append({"toks": [{"type": "EndTag", "namespace": HTML, "name": "p"},
                                 {"type": "StartTag", "namespace": HTML, "name": n, "data": []}]})
        return out

    def cases(self, rng, n, tier):
        for _ in range(n):
            yield {"toks": [tok(rng) for _ in range(rng.randint(1, 8))]}

    def encode(self, case):
        return enc_tokens([from_json(t) for t in case["toks"]])

    def impl(self, case):
        from html5lib.filters.optionaltags import Filter
        toks = [from_json(t) for t in case["toks"]]
        f = Filter(toks)
        out = list(f)
        # a filter over a re-iterable source can be iterated again: the second pass removes the same tokens
        self._second_same = [id(t) for t in f] == [id(t) for t in out]
        kept = set(id(t) for t in out)          # the filter yields the source token objects themselves
        return [enc_tokens(out), [1 if id(t) in kept else 0 for t in toks]]

    def oracle(self, case, out):
        toks = case["toks"]
        tin = enc_tokens([from_json(t) for t in toks])
        out, flags = out
        v = []
        if not getattr(self, "_second_same", True):
            v.append(("second-iteration-differs", "iterating the same Filter object again yields other tokens"))
        if [a for a, f in zip(tin, flags) if f] != out:
            v.append(("output-not-the-kept-subsequence", ""))
        for i, f in enumerate(flags):
            if f:
                continue
            t = toks[i]
            prev = toks[i - 1] if i else None
            nxt = toks[i + 1] if i + 1 < len(toks) else None
            if t["type"] not in ("StartTag", "EndTag"):
                v.append(("removed-non-tag", repr(t)))
            elif t["type"] == "StartTag" and t["data"]:
                v.append(("removed-start-tag-with-attributes", repr(t)))
            elif t["name"] not in LISTED:
                v.append(("removed-unlisted-name", t["name"]))
            elif not spec_allows(prev, t, nxt):
                foreign = bool(nxt) and nxt["type"] == "EndTag" and nxt.get("namespace") not in (HTML, None)
                v.append(("omission-not-allowed-by-syntax",
                          "%s %s before %s %s%s" % (t["type"], t["name"], kind(nxt), (nxt or {}).get("name"),
                                                    " (not an HTML element)" if foreign else "")))
        return v

    def classify(self, cls, case, detail):
        if cls == "omission-not-allowed-by-syntax" and detail in (
                "EndTag p before StartTag datagrid", "EndTag p before StartTag dialog",
                "EndTag p before StartTag dir", "EndTag p before EmptyTag datagrid",
                "EndTag p before EmptyTag dialog", "EndTag p before EmptyTag dir"):
            return "C13-p-before-datagrid-dialog-dir"
        if cls == "omission-not-allowed-by-syntax" and detail.startswith("EndTag p before EndTag ") and \
                is_custom_name(detail.split(" ")[-1]):
            return "C13-p-in-custom-element"
        if cls == "omission-not-allowed-by-syntax" and detail.startswith("EndTag p before EndTag ") and \
                detail.endswith(" (not an HTML element)"):
            return "C13-p-in-foreign-parent"
        if cls == "omission-not-allowed-by-syntax" and detail == "EndTag tfoot before StartTag tbody":
            return "C13-tfoot-before-tbody"
        return None

    def known_witnesses(self):
        return {"C13-p-in-foreign-parent":
                {"toks": [{"type": "EndTag", "namespace": HTML, "name": "p"},
                          {"type": "EndTag", "namespace": "http://www.w3.org/2000/svg", "name": "foreignObject"}]},
                "C13-p-in-custom-element":
                {"toks": [{"type": "EndTag", "namespace": HTML, "name": "p"},
                          {"type": "EndTag", "namespace": HTML, "name": "my-card"}]},
                "C13-p-before-datagrid-dialog-dir":
                {"toks": [{"type": "EndTag", "namespace": HTML, "name": "p"},
                          {"type": "StartTag", "namespace": HTML, "name": "dialog", "data": []}]},
                "C13-tfoot-before-tbody":
                {"toks": [{"type": "EndTag", "namespace": HTML, "name": "tfoot"},
                          {"type": "StartTag", "namespace": HTML, "name": "tbody", "data": []}]}}

    def nontrivial_key(self, case, out):
        if 0 in out[1]:
            return repr(case["toks"])
        return None


PLUGIN = C13()
