"""Regenerates /verif/MANIFEST.json from the table below (kept valid at all times)."""
import json
import os

VERIF = os.path.dirname(os.path.dirname(os.path.abspath(__file__)))

COMMON_NOTE = ("Trusted base: Coq 8.16.1 kernel + vm_compute (no native_compute, no axioms beyond those named per "
               "property; Print Assumptions is run under every property theorem on every check); tools/translate.py; "
               "extraction with ExtrOcamlBasic + ocaml/driver.ml; the Python correspondence harness. The theorems are "
               "about the Gallina model; the model is tied to /repo on every run by regeneration of Gen/*.v and by "
               "the correspondence run. ")

CLAIMED = {
    "C18": dict(
        category="proof",
        text="Theorems for ALL attribute dicts and token streams over the model of alphabeticalattributes.Filter "
             "(sort key translated from the source on every run): permutation (nothing lost/merged/altered), "
             "sortedness by (namespace or '', name), order-independence when the key separates the attributes, "
             "injectivity of the key except None vs '', other tokens untouched. Model tied to the code by "
             "exact-agreement correspondence on thousands of generated streams per run; the property is also "
             "evaluated directly on the implementation's output.",
        design_ref="DESIGN.md 3 C18",
        note="Python's sorted() assumed stable (checked by correspondence). OrderedDict modelled as an association "
             "list with distinct keys.",
        technique="Coq proof (induction; stable insertion sort, Permutation/StronglySorted) + translated sort key + "
                  "differential correspondence via extraction"),
    "C17": dict(
        category="proof",
        text="Theorems for ALL token streams over the model of whitespace.Filter (preserve set and regex class "
             "regenerated from the source): token count/order and every non-text token unchanged, non-whitespace "
             "characters of every text token unchanged, outside preserve regions each text token is collapsed "
             "(no adjacent whitespace, only U+0020; run-skipping equation = 'each maximal run becomes one space'), "
             "inside untouched, the counter is positive iff an open element is in the preserve set, idempotence, "
             "class = the five ASCII whitespace characters, preserve set = pre/textarea + raw-text elements. The "
             "clause 'every maximal run' is REFUTED for runs split across adjacent text tokens (known finding, "
             "witness replayed on the code every run).",
        design_ref="DESIGN.md 3 C17",
        note="re.sub on a character class modelled as a scanner; SpaceCharacters tokens assumed to hold only "
             "whitespace for the non-whitespace-preservation theorem (guaranteed by the walkers, C11).",
        technique="Coq proof (induction over streams, invariant relating the counter to the open-element stack) + "
                  "translated tables + differential correspondence via extraction"),
    "C13": dict(
        category="proof",
        text="is_optional_start/is_optional_end are translated statement by statement into decision trees on every "
             "run; theorems for ALL streams and ALL element names: output is the subsequence of kept tokens "
             "(nothing altered or reordered), every removed token is an attribute-less start tag or an end tag of "
             "one of the 18 listed elements, and every omission is allowed by the transcribed HTML optional-tag "
             "rules (Spec/OptionalTags.v) except two recorded deviations enforced by upstream fixtures "
             "(known findings, with refutation theorems). Universality over names is by a finite check over the "
             "literals + fresh names, lifted by a proved abstraction theorem (Proofs/DTp.v). Hand-modelled "
             "slider/__iter__ tied by correspondence. The parse-equivalence clause for conforming documents is "
             "not proved (needs tree construction); it is exercised by C07's search.",
        design_ref="DESIGN.md 3 C13, A.8",
        note="Spec/OptionalTags.v is my transcription of the standard's optional-tag rules (no copy of the "
             "standard offline).",
        technique="Coq proof: translated decision trees + finite-abstraction theorem + vm_compute check; "
                  "induction for the stream-level statements; differential correspondence"),
    "C19": dict(
        category="proof",
        text="Theorems over the model of to_sax (prefix table and qualified-name table regenerated from the source): "
             "for ALL token streams the event list is startDocument, the prefix mappings, element/character events "
             "only, the same prefixes ended, endDocument; for EVERY forest (void elements childless) the events of "
             "its walk are accepted by a stack consumer (proper nesting) and rebuild exactly the forest minus "
             "comments/doctype with adjacent character data concatenated (induction over trees with a simulation "
             "lemma); the qualified names of all 12 foreign attributes resolve to declared prefixes. Model tied to "
             "the code by exact-agreement correspondence on token streams and on parsed documents.",
        design_ref="DESIGN.md 3 C19",
        note="walk_spec (Base/Tree.v) is the specification of a walker stream; its agreement with the real walkers "
             "is C11's business and is also exercised here (documents go through the real dom walker).",
        technique="Coq proof (structural induction over trees, simulation of the event consumer) + translated "
                  "tables + differential correspondence"),
    "C20": dict(
        category="proof",
        text="Character-class tables regenerated from the compiled regexes and from the XML 1.0 production text in "
             "the module. Theorems: within the BMP the regexes are exactly the complements of the productions "
             "(structural complement lemma + vm_compute); every non-empty BMP name is coerced to NameStart NameChar* "
             "(exhaustive 65 536-point sweep for escapes, lifted by all_below_spec); legal names unchanged, colon "
             "always coerced; round trip for names without an escape pattern for the code's own decoder -- one str.replace per dis"
             "tinct findall match in the iteration order of a set -- for EVERY order (blocks literal/escaped/decod"
             "ed; one replace decodes exactly the escaped blocks of its character), also for the single-pass decod"
             "er, and injectivity; on an encoded name findall returns exactly the encoder's escapes; coerceCharacters removes every form feed and changes nothing else; the comment loop terminates for every input (two passes suffice) "
             "and the result has no '--'/trailing '-'; coerced public identifiers contain only PubidChars for ALL "
             "code points. Every BMP code point in both positions is additionally checked against expat on every run.",
        design_ref="DESIGN.md 3 C20",
        note="expat as XML-name oracle; non-BMP names are a recorded finding; theorems are for BMP names as the "
             "property's quantifier is. str.replace chains modelled per character.",
        technique="Coq proof (finite sweeps lifted to quantified statements, structural lemmas over range tables, "
                  "induction for the decoder round trip and loop termination) + differential correspondence"),
    "C14": dict(
        category="proof",
        text="Tables regenerated from constants.py and proved identical (vm_compute) to CPython's independent copy "
             "(html.entities.html5: 2231 names; html._invalid_charrefs). Theorems: the numeric replacement equals the "
             "standard's for EVERY value n and EVERY digit string (range analysis with lia + a 256-point sweep, not "
             "enumeration); for an ARBITRARY table and EVERY input the extend-then-backtrack loop returns THE longest "
             "identifier that is a prefix of the input; text, parse errors and the attribute-value exception equal the "
             "transcribed standard rule (Spec/CharRef.v) up to already-consumed name characters; the reference "
             "htmlentityreplace_errors writes for a code point -- named from its reverse map, else '&#x' + hex + ';' "
             "(modelled as encode_ref, tied per code point by correspondence) -- decodes back to exactly that code "
             "point whatever follows, for EVERY code point outside the replacement table and the surrogates. Model of "
             "consumeEntity/consumeNumberEntity/trie tied to the real tokenizer by exact-agreement correspondence "
             "(output, error codes, remaining stream) on every name, every legacy name x follower x context, numeric "
             "boundaries; thorough: every name x follower, every value 0..0x110000. Open: text "
             "contexts beyond the reference itself need the tokenizer model (C02).",
        design_ref="DESIGN.md 3 C14",
        note="Spec/CharRef.v (C1 table, named-reference rule) is my transcription of the standard; CPython's html "
             "module tables are the independent copy. One fix: commit in /repo (digit limit). One known finding.",
        technique="Coq proof (generic induction over the scan loop, lia range analysis, vm_compute table equality) + "
                  "translated tables + differential correspondence on the real tokenizer"),
    "C16": dict(
        category="proof",
        text="Static facts regenerated from the source on every run: all ~230 places that raise a parse error "
             "(parser, tokenizer, input stream; code + supplied variables, non-literal sites fail closed), the message "
             "table with the variables of each template, where `strict` is read. Theorems: every site's code is a key "
             "of E and every template variable is supplied (vm_compute; find_cex names the failing site); strict is "
             "read only in parseError; over the model of parseError, for EVERY call sequence strict raises iff the "
             "non-strict run records an error, the raised error is the first recorded, recorded before raised, and "
             "is ParseError (never KeyError) for calls from source sites. The parseError model is tied by "
             "correspondence; inputs (every prefix of a tag/doctype/comment family, generated markup, truncations) are "
             "parsed strict and non-strict on the real parser and compared (exception type, first error, message, "
             "formatting of all recorded errors, positions inside the input). 'Conforming documents record no errors' "
             "is not decided here (search-only, with C07).",
        design_ref="DESIGN.md 3 C16",
        note="The frame argument (nothing but the raise depends on strict) is a syntactic fact about attribute "
             "reads; Python %-formatting modelled by format_ok.",
        technique="Coq proof over translator-extracted static facts (vm_compute) + small model of parseError + "
                  "differential strict/non-strict run of the real parser"),
    "C11": dict(
        category="proof",
        text="Theorems: for EVERY tree the generic non-recursive traversal of treewalkers/base.py over firstChild/"
             "nextSibling/parentNode (zipper cursor = the DOM walker), started from an element, a document or a "
             "fragment, emits exactly the recursive specification walk t (induction over trees with an explicit fuel "
             "bound 2*size+4); the text split yields <=3 tokens that partition the text into ASCII-whitespace / "
             "non-whitespace runs; void elements only as EmptyTag; the Lint model accepts the walk of every "
             "well-named forest; rebuilding from the stream returns the forest with adjacent text merged. The "
             "ElementTree walker's cursor arithmetic ((element, key, parents, flag) cursors over the .text/.tail "
             "representation) emits, for EVERY tree in that representation, exactly its recursive walk, and for every "
             "tree in the form ElementTree can hold (no empty or adjacent text nodes) that is the walk of the tree: the "
             "etree and DOM walkers emit the same stream (theorem, with the fuel the model's entry points supply). Both "
             "cursor models are tied to the real walkers by exact-agreement correspondence (3000 trees/run, API-built "
             "and parsed). One known finding (event-source), one fix (lint typo).",
        design_ref="DESIGN.md 3 C11, A.4",
        note="minidom/ElementTree modelled as lists; hand models pinned by AST hash.",
        technique="Coq proof (structural induction over trees, fuelled traversal with continuation lemma) + "
                  "differential correspondence on API-built and parsed trees"),
    "C04": dict(
        category="translation_validation",
        text="The two back ends are modelled as stores driven by the parser's node primitives (E: ElementTree "
             ".text/.tail + real child list + the wrapper's shadow list; D: minidom children incl. text nodes) and "
             "each model is validated against the real wrapper classes on thousands of operation sequences per run "
             "(outcomes incl. ValueError/TypeError, abstract forest, parent pointers, shadow-list invariant: exact "
             "agreement). The deciding evidence for builder independence is this validation plus the document-level "
             "differential run etree / etree-fullTree / dom x namespaceHTMLElements on templates (formatting > block > "
             "table > misnested content) and table/formatting soup. Proved in Coq (all operation sequences): the "
             "ElementTree wrapper's _childNodes always equals the element's real child list -- the invariant whose "
             "violation was the known divergence (fixed in /repo; the old code is refuted by a witness). The "
             "refinement theorem absE(runE ops) = absD(runD ops) is not proved in this round.",
        design_ref="DESIGN.md 3 C04, A.5",
        note="ElementTree/minidom modelled as lists; op sequences follow the parser's preconditions (no aliasing of "
             "an attached ElementTree node).",
        technique="executable Coq models of both back ends validated differentially against the real wrappers + "
                  "document-level differential; Coq invariant proof (induction over operation sequences)"),
    "C05": dict(
        category="proof",
        text="Theorem (stream layer): for EVERY character sequence and EVERY segmentation of it into non-empty reads "
             "(one-character reads, CR LF and surrogate pairs split across reads; the chunk size is such a "
             "segmentation) the characters delivered by char() are exactly the newline-normalised input "
             "(invariant 'delivered ++ still-to-come = norm(input)' over refills, induction; normalisation "
             "distributes over any cut that does not separate CR from LF). Model of readChunk/char/charsUntil/unget/"
             "position/error count tied to the real HTMLUnicodeInputStream by exact-agreement correspondence on "
             "client operation sequences over short-reading sources and chunk sizes 1..64. End-to-end: the same "
             "characters parsed from str / StringIO / short reads / chunk sizes {1,2,3,5,7,16} / bytes, BytesIO and "
             "non-seekable byte streams in 5 encodings must give the same tree and error list. Theorem: after k characters the "
             "reported (line, column) is the one the first k normalised characters determine, for every segmentation "
             "(invariant over refills). after any sequence of char(), charsUntil() and peek (char() then unget of that character) calls the delivered characters followed by the remaining ones are "
             "the normalised input and position() is the (line, column) of the delivered ones, for every segmentation. "
             "PARTIAL: multi-character unget across a chunk boundary is modelled and validated but positions after it are not covered by the theorems; decoders are not modelled. Three fixes in /repo, one known finding (invalid-codepoint positions).",
        design_ref="DESIGN.md 3 C05, A.3",
        note="source modelled as the list of future read() results; codecs stream readers trusted to be "
             "segmentation independent (exercised by the end-to-end run).",
        technique="Coq proof (invariant over chunk refills, induction) + differential correspondence on operation "
                  "sequences + end-to-end delivery differential"),
    "C06": dict(
        category="proof",
        text="Theorems (all argument values): determineEncoding's choice is the first of BOM, override, transport, "
             "meta prescan, parent (unless UTF-16), likely, default, windows-1252 that yields an encoding (stated "
             "against an independent first_some specification; the order of the sources is read from the AST on every "
             "run), it is certain exactly for the first three, a certain encoding is independent of document content, "
             "a declared UTF-16 means UTF-8 and x-user-defined means windows-1252, only the first 1024 bytes are "
             "prescanned, every label of the table resolves. PARTIAL: the prescan mini-parser (EncodingBytes/EncodingParser/ContentAttrParser with "
             "StopIteration as an outcome) is transcribed and tied to the code by exact-agreement correspondence "
             "(4000 byte strings/run); its agreement with the standard's prescan is decided by search against my "
             "transcription of the standard (six recorded deviations = known finding); the late-meta reparse and the "
             "decoders are not modelled (the reparse is decided end-to-end against the standard's rule for a meta start "
             "tag; 6 encoding defects found by an independent audit repaired; 2 listed findings).",
        design_ref="DESIGN.md 3 C06",
        note="webencodings.LABELS is an environment fact; chardet is absent (branch unreachable here).",
        technique="Coq proof (case analysis over the precedence cascade) + translated order/table facts + "
                  "differential correspondence of the prescan transcription + search against the standard's prescan"),
    "C09": dict(
        category="proof",
        text="Theorems for ARBITRARY allow-lists: every output tag has an allowed (namespace, name), comments never "
             "pass, a disallowed tag becomes exactly one Characters token, other tokens pass unchanged, every output "
             "attribute is on the attribute list; and the core: for EVERY value kept by the URI gate (unescape, strip "
             "class, str.lower with CPython's full case table, U+FFFD removal, urlsplit scheme -- all modelled) either "
             "a browser sees no scheme or the scheme it sees is an allowed protocol (proof: the prefix up to the first "
             "':' that a browser reads as a scheme survives every stage unchanged; 128-point sweep for the character "
             "facts). Default-list facts: no raw-text element name, no on* attribute. PARTIAL: data: content type "
             "only in the sanitizer's own parse; sanitize_css is a parameter (its clause is search-only); urlparse's "
             "ValueError paths are outside the modelled domain. Model tied by exact-agreement correspondence on "
             "generated and parsed tokens with default and randomly restricted lists; independent predicates "
             "(incl. a transcription of the URL standard's scheme parser) run on the real filter's output.",
        design_ref="DESIGN.md 3 C09",
        note="sanitize_css is NOT in the Coq model: the style clause (no url(), only allowed properties) is decided on the "
             "implementation's output for generated style values (one defect found there and repaired); "
             "Spec/Url.v (browser scheme) is my transcription of the URL standard; regex classes and str.lower are "
             "environment facts dumped by the translator; a dead branch was noticed (svg_allow_local_href compares "
             "a str with tuples and never fires) -- not part of the property.",
        technique="Coq proof (list/filter reasoning, finite ASCII sweep lifted, arbitrary allow-lists as parameters) "
                  "+ translated tables + differential correspondence"),
    "C12": dict(
        category="proof",
        text="Frame argument re-derived from the AST on every run: the set of attributes of HTMLParser, its 23 phase "
             "objects and the TreeBuilder written while parsing, and the set re-initialised on entry of every parse; "
             "theorem (vm_compute): every attribute written outside __init__ is re-initialised, except five with a "
             "stated reason (two pure caches, one set-before-use, two derived by a property that reset assigns); the "
             "tokenizer and stream are new objects per parse (translator fact). Theorem: the bounded handler caches are "
             "observationally absent for EVERY lookup sequence, bound and consistent prior content, and stay bounded "
             "(model tied to the real processStartTag/processEndTag through a recording subclass). PARTIAL: module-"
             "level caches and threads are not proved; histories of 2-5 calls on ONE parser (strict aborts, sources "
             "that raise, table text, pre, RCDATA, foreign content, fragments) are compared call by call with fresh "
             "parsers, and histories of calls on ONE HTMLSerializer (strict aborts inside raw-text elements, failing or "
             "abandoned token sources) with fresh serializers, and pairs of threads inside html5lib.parse()/parseFragment() "
             "at the same time (sources that hand the turn to each other) with the same parses alone; thorough adds a "
             "thread soak. One fix in /repo (the leak "
             "quoted in the property).",
        design_ref="DESIGN.md 3 C12",
        note="The frame argument is syntactic (no __setattr__, checked); per-parse objects (nodes, tokens) are outside "
             "its scope by construction.",
        technique="Coq proof over translator-extracted write/reset sets (vm_compute) + cache transparency proof "
                  "(induction over lookup sequences) + differential histories shared-vs-fresh parser"),
    "C15": dict(
        category="proof",
        text="Theorems over the model of inject_meta_charset (a fold with the pre/in/post-head state and the pending "
             "queue): for EVERY stream with closed heads the output minus the injected token is the input token for "
             "token, only meta attribute VALUES change (keys and order kept); a rewritten meta and the injected token "
             "declare the encoding (charset attribute, or content-type pragma content). Model tied by exact-agreement "
             "correspondence on random streams (metas with charset/http-equiv/content/namespaced attributes in every "
             "order, unclosed and repeated heads). For EVERY stream with one head element, exactly one <meta charset> is injected, directly after "
             "<head>, iff no declaration was found before </head> (theorem). PARTIAL: streams with several or unclosed "
             "heads are covered by the first theorem and the correspondence only; the byte-level clauses are decided by the end-to-end run (serialize with every codec of "
             "webencodings.LABELS x omit_optional_tags, parse the bytes with no hints, compare documentEncoding and "
             "tree) with three recorded findings.",
        design_ref="DESIGN.md 3 C15",
        note="codecs are opaque; the prescan model is C06's.",
        technique="Coq proof (invariant over the filter's state machine, induction over streams) + differential "
                  "correspondence + end-to-end encode/decode run"),
    "C02": dict(
        category="proof",
        text="The 63 regular state methods of HTMLTokenizer are TRANSLATED to Gallina on every run (fail-closed "
             "translator over a closed statement vocabulary); the 10 irregular methods are hand-modelled and "
             "hash-pinned. Theorems over the regenerated model: every step of every state makes progress, so the "
             "tokenizer terminates from every configuration within 4|input|+8 state calls; emitCurrentToken's "
             "dict/update trick is the standard's first-duplicate-wins rule for every attribute list. The model is "
             "tied to the code by exact agreement (parse errors included) from ANY of the 68 states. REFINEMENT "
             "(Proofs/C02sim*.v): M_tok simulates into S_tok, a per-character Gallina transcription of the WHATWG "
             "tokenizer -- one lemma per state method (70), character references via C14's longest-match and "
             "numeric theorems -- so that with CDATA sections not allowed, for EVERY input, start state and "
             "last-start-tag name both machines terminate with the same token stream (no premise left); with CDATA "
             "allowed the same holds for every run that meets no U+0000 inside a CDATA section (html5lib's one-step "
             "scan for ']]>' is proved to find the first terminator and to match S_tok's CDATA states). The lemmas are re-checked "
             "against the regenerated model on every run. S_tok is also run (extracted) against the implementation "
             "from the five start states. PARTIAL: U+0000 inside a CDATA section (the recorded finding), the glue between "
             "model and source (translator vocabulary, hand-modelled methods, input stream) and S_tok being a "
             "transcription of the standard are tested/trusted, not proved.",
        design_ref="DESIGN.md 3 C02",
        note="one known finding (CDATA NUL); two defects repaired in /repo.",
        technique="Coq proof (forward simulation between two state machines, one lemma per state; termination by a "
                  "rank function; association-list theorem) over a model regenerated by translation + differential "
                  "correspondence + specification machine run in extracted OCaml"),
    "C08": dict(
        category="proof",
        text="Model Ser of the serializer's token loop (hand model, hash-pinned; quoting classes, tables and filter "
             "order from the translator) tied to HTMLSerializer.render by exact agreement incl. the error list. "
             "Theorems against S_tok (the WHATWG tokenizer transcription): for EVERY text and continuation the "
             "escaped text is read back as exactly that text and the tokenizer is back in the data state (text can "
             "never become markup); for EVERY value, the quoted AND the unquoted form Ser writes is read back as "
             "exactly that value; a START TAG written under ANY option set (quoting mode, best-quote choice, minimised "
             "booleans, trailing solidus) is read back as exactly that start tag (names ASCII-lower-cased, the first "
             "of coinciding attribute names wins, self-closing iff the solidus was written), end tags likewise; a "
             "COMMENT is read back exactly when Ser reports no error for it, a DOCTYPE in all four shapes; and the "
             "lift to WHOLE STREAMS of doctype, comments, text, whitespace, start/empty and end tags without raw-text "
             "elements: if Ser accepts the stream (for comments: with an empty error list), S_tok reads its output "
             "back token by token. Element by element, the content and end tag of RAW-TEXT elements (text without '</' and U+0000; "
             "in particular whenever Ser reports no error for the text token), of RCDATA elements (any text, written "
             "escaped) and of SCRIPT (text without '<!' as well) are read back exactly in the state the parser switches "
             "to; for script text with '<!--<script' the statement is refuted by a theorem and listed as a finding. "
             "The lift of raw-text and RCDATA elements to WHOLE STREAMS is a theorem too, with the parser's state "
             "switches made explicit in the statement (after style/xmp/iframe/noembed/noframes the tokenizer continues in "
             "RAWTEXT, after title/textarea in RCDATA). PARTIAL: script elements inside streams and entity "
             "tokens are decided by re-tokenizing the real output with S_tok (extracted) for trees parsed from generated "
             "markup x options; eight listed findings.",
        design_ref="DESIGN.md 3 C08",
        note="five serializer/parser defects repaired in /repo.",
        technique="Coq proof (induction over text/value against the per-character specification machine) + "
                  "differential correspondence + re-tokenization oracle in extracted OCaml"),
    "C07": dict(
        category="proof",
        text="Pipeline model AA ; OT ; Ser (attribute sorting, optional-tag omission with the TRANSLATED omission "
             "rules, the token loop) tied to HTMLSerializer.render by exact agreement on every generated case. "
             "Theorems: the filter order is the one serialize() uses (translator fact); omission only removes tokens "
             "(subsequence) and only optional tags where the syntax allows it (C13); sorting keeps the attribute map "
             "(permutation); quote character, quoting mode and escape_lt are invisible to the WHATWG tokenizer (every "
             "value reads back the same). PARTIAL: that the parser re-implies what was omitted is decided by "
             "generating conforming trees from a content-model grammar, serializing under random option sets with "
             "both walkers and re-parsing; three listed findings.",
        design_ref="DESIGN.md 3 C07",
        note="the reader is html5lib's own parser.",
        technique="Coq proof (composition of filter theorems, lexical round trips) + differential correspondence + "
                  "grammar-based round-trip run"),
    "C10": dict(
        category="proof",
        text="Model Ser . San (token loop after the sanitizer with the default lists) tied to "
             "HTMLSerializer(sanitize=True).render by exact agreement. Theorems: no allowed element is a raw-text "
             "element, hence for EVERY stream and option set the loop never enters raw-text mode after the "
             "sanitizer: every Characters token, including the text disallowed tags are turned into, is escaped; "
             "for EVERY walker stream (any names, attributes, text, comments) and every option set the sanitized "
             "output is re-tokenized by the WHATWG tokenizer S_tok into exactly the sanitized stream, and every token "
             "read back is a character or a tag whose name and attribute names are on the allow-lists (the lexical "
             "half of the property as one theorem, on top of C08's stream theorem), and, with the RCDATA switch after "
             "textarea made explicit, as exactly the sanitized units the way a parser reads them; comments never reach the "
             "serializer; the sanitizer sits between sorting and omission. PARTIAL: structural re-interpretation on "
             "re-parse (tree level: namespace change of ALLOWED tags, trees no serialization reproduces) needs tree "
             "construction; decided by re-parsing as document and in 11 fragment contexts, scripting on/off, with "
             "allow-list and provenance predicates over generated markup and a corpus of non-serializable shapes; "
             "one listed finding, one genuine mutation-XSS defect found and repaired in /repo.",
        design_ref="DESIGN.md 3 C10",
        note="sanitize_css is not modelled (streams with a style attribute are outside the model's domain).",
        technique="Coq proof (finite table fact lifted to all streams by induction, composition with C08/C09) + "
                  "differential correspondence + mutation-XSS re-parse run"),
    "C03": dict(
        category="proof",
        text="Theorems: the tokenizer loop terminates from every configuration (C02, over the regenerated model); "
             "the EOF hand-over graph, EXTRACTED from html5parser.py by a conservative inter-procedural walk on "
             "every run, is acyclic with chains of at most 7 phases, so the EOF loop terminates and its anti-cycle "
             "assertion is dead; every phase that can be current has a processEOF; generateImpliedEndTags pops "
             "exactly the maximal implied run and never the root; the start/end tag dispatch tables of all 23 phases "
             "equal the fixed copy the tree-construction model was written against (a handler dropped or moved is a "
             "broken obligation). PARTIAL: absence of exceptions and non-termination in the phase handlers and the "
             "skeleton clause are decided by parsing tag soup, every dispatch-table tag in every insertion mode and "
             "fragment context, end tags with attributes, re-open shapes <X><blocker><X>, foreign elements carrying "
             "HTML element names followed by integration points (14 112 inputs), nesting to depth 3 000 (thorough "
             "10 000), random bytes, with both builders, namespacing on/off, document and fragment mode with 30 "
             "containers, scripting on/off; one listed finding (children of html after a frameset).",
        design_ref="DESIGN.md 3 C03",
        note="six totality defects repaired in /repo (recursion, table EOF assertion, AAA insertBefore(None), "
             "resetInsertionMode assertion, clear-stack non-termination/assertion, frameset pop loop).",
        technique="Coq proof (rank function over an extracted graph, list induction) + translator + "
                  "totality/skeleton run on the real parser"),
    "C01": dict(
        category="proof",
        text="TC: a hand-written Gallina model of html5parser.py (23 phases handler by handler, adoption agency, foster "
             "parenting, reconstruction/Noah's Ark, foreign-content dispatch, insertion-mode reset, fragment set-up) "
             "over an arena model of the DOM tree builder, driven by the REGENERATED tokenizer model; every Python "
             "assert/unchecked index is an explicit crash outcome. Tied to html5lib.parse/parseFragment by exact tree "
             "agreement on generated markup (deviation switches off); the property is decided against the same model "
             "with the WHATWG switches on, every difference classified by flipping one switch at a time. Theorems: "
             "all 24 tables and the 23 dispatch tables re-read from the source equal the fixed copies TC was written "
             "against; the scope walk always stops and is true exactly when an HTML element with the target name comes before any stop element; clearing the stack back to a table context is total and pops exactly down to the topmost HTML stop element. PARTIAL: no theorem relates TC to the standard (it IS the "
             "transcription; cross-checked on every run against 56 hand-derived WHATWG trees, "
             "tools/props/c01_whatwg_witnesses.json, after four independent audits found 15 deviations that model and "
             "code shared) and the agreement implementation = TC is tested, not proved; 8 listed findings.",
        design_ref="DESIGN.md 3 C01",
        note="25 deviations and defects repaired in /repo; 192 parser functions hash-pinned.",
        technique="Coq model + table-equality theorems + differential correspondence on trees (extracted OCaml)"),
}

PENDING_REASON = "not yet built in this round (planned: Coq model + theorems per DESIGN.md section 3); no check is registered, so nothing is claimed"


def main():
    ids = ["C%02d" % i for i in range(1, 21)]
    checks = []
    na = []
    for pid in ids:
        c = CLAIMED.get(pid)
        if c is None:
            na.append({"property_id": pid, "reason": PENDING_REASON})
            continue
        checks.append({
            "property_id": pid,
            "quick_cmd": "./check %s quick" % pid,
            "thorough_cmd": "./check %s thorough" % pid,
            "evidence_file": "/verif/evidence/%s.json" % pid,
            "replay_cmd_template": "./check %s --replay {path}" % pid,
            "engine": "coq-proof+correspondence",
            "level_claimed": {"category": c["category"], "text": c["text"], "design_ref": c["design_ref"]},
            "level_note": COMMON_NOTE + c["note"],
            "technique": c["technique"],
        })
    m = {
        "version": 1,
        "setup_cmd": "cd /verif && ./setup.sh",
        "hooks": {
            "guard": "HTML5LIB_VERIF",
            "enable": "no source hooks are needed: every observation point is reachable through public attributes; "
                      "checks run /repo's working tree with PYTHONPATH=/repo",
            "baseline_off_cmd": "cd /repo && /venv/bin/python -m pytest -ra -q -p no:cacheprovider --timeout=900 "
                                "--continue-on-collection-errors",
            "source_commits": [],
            "add_only": True,
        },
        "engines": [{
            "name": "coq-proof+correspondence",
            "path": "/verif/check",
            "serves_properties": sorted(CLAIMED),
            "kind_free_text": "Rocq/Coq 8.16 theorems over Gallina models (coq/Props/Cxx.v), models regenerated "
                              "from /repo by tools/translate.py where translatable and otherwise hand-written and "
                              "tied by a differential correspondence run (extracted OCaml model vs implementation), "
                              "plus the property evaluated on the implementation as search for a failing input",
        }],
        "checks": checks,
        "notes": "See DESIGN.md. known_findings.json lists recorded/fixed defects.",
        "not_applicable": na,
    }
    with open(os.path.join(VERIF, "MANIFEST.json"), "w") as f:
        json.dump(m, f, indent=1)
        f.write("\n")


if __name__ == "__main__":
    main()
