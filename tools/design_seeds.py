import json,glob,re
p='/verif/DESIGN.md'
s=open(p).read()
a=s.index("| seed | change | caught by |")
b=s.index("### R1.6")
rows=["| seed | change | caught by |","|---|---|---|"]
clean=lambda t: re.sub(r'\s+',' ',str(t)).replace('|','/')
n_first_miss=0; total=0
for f in sorted(glob.glob('/verif/seeded/*/meta.json')):
    m=json.load(open(f)); total+=1
    sid=m.get('id') or m.get('seed')
    det=m.get('detected_by') or m.get('check_result') or ''
    if 'MISSED' in str(det): n_first_miss+=1
    rows.append("| %s | %s | %s |"%(sid,clean(m.get('change',''))[:240],clean(det)[:520]))
txt="\n".join(rows)+'''

%d seeded changes are kept (23 from the first wave, 35 from the second, 22 from the third, 23 from the fourth, 14 from the fifth, 12 from the sixth: two per property per wave,
minus those that repeated an earlier change, did not apply any more, or had no demonstration).  Every one is now reported by the check of its property with a concrete failing input.
%d of them were MISSED by the first run of that check; each miss led to a strengthening that is named in its row
(a directed corpus, a missing clause of the property that was not exercised at all -- C16's "conforming documents
record no errors", C12's "fresh interpreter" --, an option not varied -- C07's encoding --, or a new obligation:
**a pin mismatch of a hand-modelled function is a broken obligation `PIN_CHANGED`**, and C03 now also has the
dispatch tables' equality with the fixed copy as an obligation).  Four second-wave changes were first reported only
through a broken obligation (`no-failing-input-found`: the C02 refinement lemma of the changed state, a pin, the
model correspondence); the generators were extended until a concrete input is found for each.  Since the
refinement proof exists, every change to a tokenizer state method breaks the simulation lemma of that state
(`Proofs/C02sim_*.v`) before any input is generated.  In the third wave 7 of 22 were missed by the first run and 3
were reported without an input; the strengthenings are again named per row (reused parsers in C16, ordinary meta
elements compared in C15, the re-parse oracle for foreign void names in C08, the shared entity trie in C12, ...).  The fourth wave
(after the audit repairs and the new theorems): 16 of 23 reported at once, 4 missed, 3 without input -- all about OBJECT REUSE
(a second parse / serialize / iteration on the same object after an aborted or erroneous first one) or an option the
generators did not cross with document content (override_encoding x a conflicting meta); one change made the parser loop
forever while allocating, which took the machine to 53 GB before the check could report anything: the framework now stops a
case that grows its process by more than 1 GiB and a batch whose workers hit a limit twice.  The fifth wave (12 agents): 9 of 14
new changes reported at once, 3 missed, 2 without input -- again object reuse (C03, C13), input that ENDS inside a construct
(C03: every prefix of reference-rich markup is in the corpus now), a module-level cache shared by differently configured
filters (C09), and one case where a listed finding's matcher was too broad and swallowed a real violation (C10: the tags the
sanitizer lets through are now checked against the allow-lists themselves).  The sixth wave (8 agents, 12 new changes): 8 reported at
once; the others needed concurrent parses in the quick tier (C12), a walk started on a sub-element (C19), conforming documents with
foreign content (C16), references decoded where whitespace is ignored (C14) and other spellings of `[CDATA[` (C02).

What the six waves say about the checks, taken together: of 129 kept changes 32 were missed by the first run of
their check (and about fifteen more reported only through a broken obligation).  The misses cluster: (1) OBJECT REUSE --
a second call or a second iteration on the same parser / serializer / filter / walker, especially after an aborted first
one (the largest group, and nearly all misses of waves 4 and 5); every filter and walker check now iterates the same
object twice, C01/C03/C12/C16 run parsers that have been used before, C12 compares reused serializers and concurrent
parses; (2) a clause of the property that no generated input exercised (C16 conforming documents -- with foreign
content only since wave 6 --, C09 style values, C15 ordinary meta elements, C07 noscript/foreign parents); (3) two
namespaces sharing a local name (C04, C09, C10, C19); (4) an option never crossed with document content
(override_encoding x conflicting meta, custom allow-lists after default ones); (5) input ending inside a construct;
(6) where the result is OBSERVED (a decoded character at the start of a document, where whitespace is ignored).  None
was a gap in a theorem: every miss was a gap in what the correspondence run or the oracle was fed, which is where a
proof-based check is weakest -- the theorems quantify over all inputs of the MODEL; whether the code still is that
model is sampled.

'''%(total,n_first_miss)
s=s[:a]+txt+s[b:]
open(p,'w').write(s)
print(total,n_first_miss)
