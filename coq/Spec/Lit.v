(* string literals for hand-written specifications *)
From Coq Require Import NArith List String Ascii.
From Verif Require Import Sx.
Definition S (s : string) : str := List.map N_of_ascii (list_ascii_of_string s).
Definition SL (l : list string) : list str := List.map S l.
