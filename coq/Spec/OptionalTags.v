(* The optional-tag rules of the HTML syntax ("Optional tags", WHATWG HTML as of
   2020), transcribed as decision trees over (tag name, previous token, next
   token).  Hand-written, part of the trusted base (DESIGN A.8); to be read
   side by side with the standard.  Token kinds: 2 SpaceCharacters, 3 StartTag,
   4 EndTag, 5 EmptyTag, 6 Comment.  "No more content in the parent" is what the
   filter can see of it: the next token is an end tag or the stream ends. *)
From Coq Require Import NArith List Bool String.
From Verif Require Import Sx Str Tok DT.
From Verif.Spec Require Import Lit.
Import ListNotations.
Local Open Scope N_scope.
Local Open Scope string_scope.

Definition no_more : cond := COr (CTyIn SNext [4]) (CTyNone SNext).
Definition not_ws_comment : cond := CNot (CTyIn SNext [6; 2]).
Definition next_elem (names : list string) : cond := CAnd (CTyIn SNext [3; 5]) (CNameIn SNext (SL names)).
Definition next_start (names : list string) : cond := CAnd (CTyIn SNext [3]) (CNameIn SNext (SL names)).

Definition p_followers : list string :=
  ["address"; "article"; "aside"; "blockquote"; "details"; "div"; "dl"; "fieldset"; "figcaption"; "figure";
   "footer"; "form"; "h1"; "h2"; "h3"; "h4"; "h5"; "h6"; "header"; "hgroup"; "hr"; "main"; "menu"; "nav"; "ol";
   "p"; "pre"; "section"; "table"; "ul"].
Definition p_parent_excluded : list string := ["a"; "audio"; "del"; "ins"; "map"; "noscript"; "video"].

(* start tags (the tag has no attributes: checked by the filter's caller) *)
Definition spec_start : prog :=
  Ite (CTagEq (S "html")) (Ret (CNot (CTyIn SNext [6])))
 (Ite (CTagEq (S "head")) (Ret (COr (CTyIn SNext [3; 5]) (CAnd (CTyIn SNext [4]) (CNameEq SNext (S "head")))))
 (Ite (CTagEq (S "body"))
      (Ite (next_elem ["meta"; "link"; "script"; "style"; "template"]) (Ret (CConst false)) (Ret not_ws_comment))
 (Ite (CTagEq (S "colgroup")) (Ret (next_elem ["col"]))
 (* "... and not immediately preceded by a tbody/thead/tfoot whose end tag has been omitted": required here in
    the stronger form "not immediately preceded by such an end tag at all" *)
 (Ite (CTagEq (S "tbody"))
      (Ret (CAnd (next_start ["tr"])
                 (CNot (CAnd (CTyIn SPrev [4]) (CNameIn SPrev (SL ["tbody"; "thead"; "tfoot"]))))))
      (Ret (CConst false)))))).

Definition spec_end : prog :=
  Ite (CTagIn (SL ["html"; "body"])) (Ret (CNot (CTyIn SNext [6])))
 (Ite (CTagEq (S "head")) (Ret not_ws_comment)
 (Ite (CTagEq (S "li")) (Ret (COr (next_start ["li"]) no_more))
 (Ite (CTagEq (S "dt")) (Ret (next_start ["dt"; "dd"]))
 (Ite (CTagEq (S "dd")) (Ret (COr (next_start ["dt"; "dd"]) no_more))
 (Ite (CTagEq (S "p"))
      (Ite (CTyIn SNext [3; 5]) (Ret (CNameIn SNext (SL p_followers)))
           (Ret (COr (CTyNone SNext) (CAnd (CTyIn SNext [4]) (CNot (CNameIn SNext (SL p_parent_excluded)))))))
 (Ite (CTagIn (SL ["rt"; "rp"])) (Ret (COr (next_start ["rt"; "rp"]) no_more))
 (Ite (CTagEq (S "optgroup")) (Ret (COr (next_start ["optgroup"]) no_more))
 (Ite (CTagEq (S "option")) (Ret (COr (next_start ["option"; "optgroup"]) no_more))
 (Ite (CTagIn (SL ["colgroup"; "caption"])) (Ret not_ws_comment)
 (Ite (CTagEq (S "thead")) (Ret (next_start ["tbody"; "tfoot"]))
 (Ite (CTagEq (S "tbody")) (Ret (COr (next_start ["tbody"; "tfoot"]) no_more))
 (Ite (CTagEq (S "tfoot")) (Ret no_more)
 (Ite (CTagEq (S "tr")) (Ret (COr (next_start ["tr"]) no_more))
 (Ite (CTagIn (SL ["td"; "th"])) (Ret (COr (next_start ["td"; "th"]) no_more))
      (Ret (CConst false)))))))))))))))).

(* the 18 elements of the property statement *)
Definition listed18 : list str :=
  SL ["html"; "head"; "body"; "li"; "dt"; "dd"; "p"; "rt"; "rp"; "optgroup"; "option"; "colgroup"; "thead";
      "tbody"; "tfoot"; "tr"; "td"; "th"].

(* known deviations of the unchanged tree (known_findings.json): omissions the filter performs that the
   syntax above does not allow; enforced by the upstream fixtures, hence recorded, not repaired *)
Definition known_exceptions_end : cond :=
  COr (CAnd (CTagEq (S "p")) (next_elem ["datagrid"; "dialog"; "dir"]))
      (CAnd (CTagEq (S "tfoot")) (next_start ["tbody"])).
Definition spec_end_or_known : prog := Ite known_exceptions_end (Ret (CConst true)) spec_end.
