(* The standard's character-reference rules, transcribed (WHATWG HTML, tokenization: "numeric character
   reference end state" and "named character reference state").  Hand-written; trusted base. *)
From Coq Require Import NArith List Bool.
From Verif Require Import Sx Str Tok.
From Verif.Model Require Import CharRef.
Import ListNotations.
Local Open Scope N_scope.

(* the table of the numeric character reference end state *)
Definition c1_table : list (N * N) :=
  [(128, 8364); (130, 8218); (131, 402); (132, 8222); (133, 8230); (134, 8224); (135, 8225); (136, 710);
   (137, 8240); (138, 352); (139, 8249); (140, 338); (142, 381); (145, 8216); (146, 8217); (147, 8220);
   (148, 8221); (149, 8226); (150, 8211); (151, 8212); (152, 732); (153, 8482); (154, 353); (155, 8250);
   (156, 339); (158, 382); (159, 376)].

Definition spec_num (n : N) : N :=
  if n =? 0 then 65533
  else if 1114111 <? n then 65533
  else if (55296 <=? n) && (n <=? 57343) then 65533
  else match lookup_N c1_table n with Some v => v | None => n end.

Section Named.
  Variable tbl : list (str * str).

  (* "consume the maximum number of characters possible, where the consumed characters are one of the
     identifiers in the first column of the named character references table" *)
  Definition spec_longest (inp : str) : option str := lp_len tbl (length inp) inp.

  Definition spec_named (inAttr : bool) (inp : str) : str * list str * str :=
    match spec_longest inp with
    | Some name =>
        let len := length name in
        let nosemi := negb (N.eqb (last name 0) 59) in
        let errs := if nosemi then [E_named_no_semicolon] else [] in
        let exc := nosemi && inAttr &&
                   match nth_error inp len with Some c => is_alnum c || (c =? 61) | None => false end in
        if exc then (amp ++ name, errs, skipn len inp)        (* flushed as is; the rest is read normally *)
        else (get tbl name, errs, skipn len inp)
    | None => (amp, [E_expected_named], inp)                  (* "&" then the ambiguous ampersand state *)
    end.
End Named.
