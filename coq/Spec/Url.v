(* The URL standard's scheme parser, as far as the sanitizer's guarantee needs it: "remove any leading and
   trailing C0 control or space, remove all ASCII tab or newline, then: scheme start state (ASCII alpha),
   scheme state (ASCII alphanumeric, +, -, .) up to ':'".  Written through the first ':' of the input:
   the trailing strip cannot touch anything before a ':' and ':' is not a scheme character, so the scheme
   exists iff the text before the first ':', minus leading C0/space and minus tab/LF/CR, is a non-empty run of
   scheme characters starting with a letter.  Hand-written; trusted base. *)
From Coq Require Import NArith List Bool.
From Verif Require Import Sx Str Tok.
Import ListNotations.
Local Open Scope N_scope.

Definition c0_or_space (c : N) : bool := c <=? 32.
Definition tab_or_newline (c : N) : bool := (c =? 9) || (c =? 10) || (c =? 13).
Definition scheme_char (c : N) : bool := is_alpha c || is_digit c || (c =? 43) || (c =? 45) || (c =? 46).

Fixpoint before_colon (s : str) : option str :=
  match s with
  | [] => None
  | c :: r => if c =? 58 then Some [] else option_map (cons c) (before_colon r)
  end.

Definition browser_scheme (v : str) : option str :=
  match before_colon v with
  | None => None
  | Some p =>
      let r := filter (fun c => negb (tab_or_newline c)) (drop_while c0_or_space p) in
      match r with
      | c0 :: _ => if is_alpha c0 && forallb scheme_char r then Some (lower_str r) else None
      | [] => None
      end
  end.
