(* S_tok -- the WHATWG tokenization algorithm (HTML Living Standard, 13.2.5 Tokenization), transcribed state by
   state, ONE input character per step.  Hand-written and fixed: nothing here is derived from html5lib's
   source.  It runs over the same record as the model (Model/TokBase.v) so the two can be related, but uses
   none of the model's state functions.  Parse errors are not tokens here.

   Normalisations of the standard's text (each token-for-token equivalent to it):
   N1  "emit an end-of-file token" in a state other than data/RCDATA/RAWTEXT/script data/PLAINTEXT is written
       "reconsume in the data state", which then stops.
   N2  after an unmatched "&" the ambiguous ampersand state only re-emits alphanumerics and reports an error
       on ";": written "flush &, reconsume in the return state".
   N3  the end tag token of the RCDATA/RAWTEXT/script end tag name states is created when its name is
       complete (from the temporary buffer) instead of being built alongside the buffer; "the last start tag
       emitted" is the current token (raw-text states are only entered right after a start tag).
   N4  the comment less-than-sign states (nested-comment error detection) are folded into the comment state:
       they append the same characters and re-enter comment-end-dash / comment-end at the same points.
   N5  the DOCTYPE token is created on entering the DOCTYPE state (the standard creates it at the first
       character after "DOCTYPE"; nothing can observe the difference); a missing name is the empty name.
   N6  character references are taken in one step (Spec/CharRef.v: longest identifier of the table, the
       attribute-value exception, the numeric replacement table).
   N7  in the script data double escape start/end states the standard appends the LOWER-CASED character to the
       temporary buffer and compares the buffer with "script"; here the character is appended as is and the
       lower-cased buffer is compared.
   N9  after the PUBLIC / SYSTEM keyword anything but whitespace and EOF is reconsumed in the "before DOCTYPE
       public / system identifier" state, which treats a quote (identifier := "", quoted state), ">" (force-quirks,
       emit) and anything else (force-quirks, bogus DOCTYPE) exactly as the standard does directly (it only reports
       a different parse error).
   N8  "<![CDATA[" where CDATA sections are not allowed: the standard creates a comment whose data is "[CDATA["
       and consumes those seven characters; here the comment starts empty and nothing is consumed -- the bogus
       comment state then appends the same seven characters (none of them is ">"). *)
From Coq Require Import NArith List Bool Arith.
From Verif Require Import Sx Str.
From Verif.Gen Require Import Entities.
From Verif.Model Require Import CharRef TokBase.
From Verif.Spec Require Import CharRef.
Import ListNotations.
Local Open Scope N_scope.

Definition go (s : tstate) (k : tk) : tk * bool := (set_st s k, true).
Definition emitc (c : N) (k : tk) : tk := emit (OChars [c]) k.
Definition emits (s : str) (k : tk) : tk := fold_left (fun k c => emitc c k) s k.
Definition stop (k : tk) : tk * bool := (k, false).

(* attributes: "if there is already an attribute on the token with the exact same name, the new attribute
   must be removed from the token" *)
Fixpoint first_wins (seen : list str) (a : pairs) : pairs :=
  match a with
  | [] => []
  | (n, v) :: r => if mem_str n seen then first_wins seen r else (n, v) :: first_wins (n :: seen) r
  end.
Definition emit_tag (k : tk) : tk :=
  match cur k with
  | CTag false n a sc => emit (OStart n (first_wins [] a) sc) k
  | CTag true n a sc => emit (OEnd n [] false) k
  | _ => set_bad k
  end.
Definition lc (c : N) : N := ascii_lower c.
Definition nulfix (c : N) : N := if c =? 0 then 65533 else c.

(* "an appropriate end tag token": its name (the lower-cased temporary buffer) is the last start tag's *)
Definition appropriate (k : tk) : bool :=
  match cur k with
  | CTag _ n _ _ => str_eqb n (lower_str (tmp k))
  | _ => false
  end.
Definition end_tag_from_tmp (k : tk) : tk := set_cur (CTag true (lower_str (tmp k)) [] false) k.

(* ---- character references (N6) ---- *)
Definition spec_numeric (i : str) : str * str :=          (* i follows "&#" *)
  let hex := match i with c :: _ => (c =? 120) || (c =? 88) | [] => false end in
  let body := if hex then tl i else i in
  let valid := if hex then is_hex else is_digit in
  let ds := take_while valid body in
  let rest := drop_while valid body in
  match ds with
  | [] => ([38; 35] ++ (if hex then firstn 1 i else []), body)
  | _ => ([spec_num (value (if hex then 16 else 10) ds)],
          match rest with 59 :: r => r | _ => rest end)
  end.
Definition spec_charref (in_attr : bool) (i : str) : str * str :=      (* i follows "&" *)
  match i with
  | c :: r =>
      if is_alnum c then let '(o, _, rest) := spec_named entities in_attr i in (o, rest)
      else if c =? 35 then spec_numeric r
      else ([38], i)
  | [] => ([38], [])
  end.
Definition charref_text (k : tk) : tk :=
  let '(o, rest) := spec_charref false (inp k) in emits o (set_inp rest k).
Definition charref_attr (k : tk) : tk :=
  let '(o, rest) := spec_charref true (inp k) in attr_val_app o (set_inp rest k).

(* ---- look-ahead: "if the next few characters are ..." ---- *)
Fixpoint next_are (ci : bool) (w : str) (i : str) : option str :=
  match w with
  | [] => Some i
  | e :: w' => match i with
               | c :: r => if (if ci then lc c =? lc e else c =? e) then next_are ci w' r else None
               | [] => None
               end
  end.
Definition w_DOCTYPE : str := [68;79;67;84;89;80;69].
Definition w_CDATA : str := [91;67;68;65;84;65;91].
Definition w_PUBLIC : str := [80;85;66;76;73;67].
Definition w_SYSTEM : str := [83;89;83;84;69;77].
Definition w_script : str := [115;99;114;105;112;116].

Definition fq (k : tk) : tk := set_incorrect k.          (* force-quirks flag on *)

Definition sp_step (k0 : tk) : tk * bool :=
  let c := peek k0 in
  let k := advance k0 in          (* "consume the next input character"; k0 = "reconsume" *)
  match st k0 with
  (* ---------------- 13.2.5.1-5 ---------------- *)
  | dataState =>
      match c with
      | None => stop k
      | Some x =>
          if x =? 38 then (charref_text k, true) else
          if x =? 60 then go tagOpenState k else
          (emitc x k, true)                       (* U+0000 is emitted as is *)
      end
  | rcdataState =>
      match c with
      | None => stop k
      | Some x =>
          if x =? 38 then (charref_text k, true) else
          if x =? 60 then go rcdataLessThanSignState k else
          (emitc (nulfix x) k, true)
      end
  | rawtextState =>
      match c with
      | None => stop k
      | Some x =>
          if x =? 60 then go rawtextLessThanSignState k else
          (emitc (nulfix x) k, true)
      end
  | scriptDataState =>
      match c with
      | None => stop k
      | Some x =>
          if x =? 60 then go scriptDataLessThanSignState k else
          (emitc (nulfix x) k, true)
      end
  | plaintextState =>
      match c with
      | None => stop k
      | Some x =>
          (emitc (nulfix x) k, true)
      end
  (* ---------------- tags ---------------- *)
  | tagOpenState =>
      match c with
      | None => go dataState (emitc 60 k0)
      | Some x =>
          if x =? 33 then go markupDeclarationOpenState k else
          if x =? 47 then go closeTagOpenState k else
          if x =? 63 then go bogusCommentState (set_cur (CComment []) k0) else
          if is_alpha x then go tagNameState (set_cur (CTag false [] [] false) k0) else go dataState (emitc 60 k0)
      end
  | closeTagOpenState =>
      match c with
      | None => go dataState (emits [60; 47] k0)
      | Some x =>
          if x =? 62 then go dataState k else
          if is_alpha x then go tagNameState (set_cur (CTag true [] [] false) k0) else go bogusCommentState (set_cur (CComment []) k0)
      end
  | tagNameState =>
      match c with
      | None => go dataState k0
      | Some x =>
          if x =? 47 then go selfClosingStartTagState k else
          if x =? 62 then go dataState (emit_tag k) else
          if is_space x then go beforeAttributeNameState k else (name_app [lc (nulfix x)] k, true)
      end
  (* ---------------- RCDATA / RAWTEXT / script data end tags ---------------- *)
  | rcdataLessThanSignState =>
      match c with
      | None => go rcdataState (emitc 60 k0)
      | Some x =>
          if x =? 47 then go rcdataEndTagOpenState (set_tmp [] k) else
          go rcdataState (emitc 60 k0)
      end
  | rcdataEndTagOpenState =>
      match c with
      | None => go rcdataState (emits [60; 47] k0)
      | Some x =>
          if is_alpha x then go rcdataEndTagNameState k0 else go rcdataState (emits [60; 47] k0)
      end
  | rcdataEndTagNameState =>
      let other := go rcdataState (emits ([60; 47] ++ tmp k0) k0) in
      match c with
      | None => other
      | Some x =>
          if x =? 47 then if appropriate k0 then go selfClosingStartTagState (end_tag_from_tmp k) else other else
          if x =? 62 then if appropriate k0 then go dataState (emit_tag (end_tag_from_tmp k)) else other else
          if is_space x then (if appropriate k0 then go beforeAttributeNameState (end_tag_from_tmp k) else other) else if is_alpha x then (set_tmp (tmp k ++ [x]) k, true) else other
      end
  | rawtextLessThanSignState =>
      match c with
      | None => go rawtextState (emitc 60 k0)
      | Some x =>
          if x =? 47 then go rawtextEndTagOpenState (set_tmp [] k) else
          go rawtextState (emitc 60 k0)
      end
  | rawtextEndTagOpenState =>
      match c with
      | None => go rawtextState (emits [60; 47] k0)
      | Some x =>
          if is_alpha x then go rawtextEndTagNameState k0 else go rawtextState (emits [60; 47] k0)
      end
  | rawtextEndTagNameState =>
      let other := go rawtextState (emits ([60; 47] ++ tmp k0) k0) in
      match c with
      | None => other
      | Some x =>
          if x =? 47 then if appropriate k0 then go selfClosingStartTagState (end_tag_from_tmp k) else other else
          if x =? 62 then if appropriate k0 then go dataState (emit_tag (end_tag_from_tmp k)) else other else
          if is_space x then (if appropriate k0 then go beforeAttributeNameState (end_tag_from_tmp k) else other) else if is_alpha x then (set_tmp (tmp k ++ [x]) k, true) else other
      end
  | scriptDataLessThanSignState =>
      match c with
      | None => go scriptDataState (emitc 60 k0)
      | Some x =>
          if x =? 47 then go scriptDataEndTagOpenState (set_tmp [] k) else
          if x =? 33 then go scriptDataEscapeStartState (emits [60; 33] k) else
          go scriptDataState (emitc 60 k0)
      end
  | scriptDataEndTagOpenState =>
      match c with
      | None => go scriptDataState (emits [60; 47] k0)
      | Some x =>
          if is_alpha x then go scriptDataEndTagNameState k0 else go scriptDataState (emits [60; 47] k0)
      end
  | scriptDataEndTagNameState =>
      let other := go scriptDataState (emits ([60; 47] ++ tmp k0) k0) in
      match c with
      | None => other
      | Some x =>
          if x =? 47 then if appropriate k0 then go selfClosingStartTagState (end_tag_from_tmp k) else other else
          if x =? 62 then if appropriate k0 then go dataState (emit_tag (end_tag_from_tmp k)) else other else
          if is_space x then (if appropriate k0 then go beforeAttributeNameState (end_tag_from_tmp k) else other) else if is_alpha x then (set_tmp (tmp k ++ [x]) k, true) else other
      end
  (* ---------------- script data escapes ---------------- *)
  | scriptDataEscapeStartState =>
      match c with
      | None => go scriptDataState k0
      | Some x =>
          if x =? 45 then go scriptDataEscapeStartDashState (emitc 45 k) else
          go scriptDataState k0
      end
  | scriptDataEscapeStartDashState =>
      match c with
      | None => go scriptDataState k0
      | Some x =>
          if x =? 45 then go scriptDataEscapedDashDashState (emitc 45 k) else
          go scriptDataState k0
      end
  | scriptDataEscapedState =>
      match c with
      | None => go dataState k0
      | Some x =>
          if x =? 45 then go scriptDataEscapedDashState (emitc 45 k) else
          if x =? 60 then go scriptDataEscapedLessThanSignState k else
          (emitc (nulfix x) k, true)
      end
  | scriptDataEscapedDashState =>
      match c with
      | None => go dataState k0
      | Some x =>
          if x =? 45 then go scriptDataEscapedDashDashState (emitc 45 k) else
          if x =? 60 then go scriptDataEscapedLessThanSignState k else
          go scriptDataEscapedState (emitc (nulfix x) k)
      end
  | scriptDataEscapedDashDashState =>
      match c with
      | None => go dataState k0
      | Some x =>
          if x =? 45 then (emitc 45 k, true) else
          if x =? 60 then go scriptDataEscapedLessThanSignState k else
          if x =? 62 then go scriptDataState (emitc 62 k) else
          go scriptDataEscapedState (emitc (nulfix x) k)
      end
  | scriptDataEscapedLessThanSignState =>
      match c with
      | None => go scriptDataEscapedState (emitc 60 k0)
      | Some x =>
          if x =? 47 then go scriptDataEscapedEndTagOpenState (set_tmp [] k) else
          if is_alpha x then go scriptDataDoubleEscapeStartState (emitc 60 (set_tmp [] k0)) else go scriptDataEscapedState (emitc 60 k0)
      end
  | scriptDataEscapedEndTagOpenState =>
      match c with
      | None => go scriptDataEscapedState (emits [60; 47] k0)
      | Some x =>
          if is_alpha x then go scriptDataEscapedEndTagNameState k0 else go scriptDataEscapedState (emits [60; 47] k0)
      end
  | scriptDataEscapedEndTagNameState =>
      let other := go scriptDataEscapedState (emits ([60; 47] ++ tmp k0) k0) in
      match c with
      | None => other
      | Some x =>
          if x =? 47 then if appropriate k0 then go selfClosingStartTagState (end_tag_from_tmp k) else other else
          if x =? 62 then if appropriate k0 then go dataState (emit_tag (end_tag_from_tmp k)) else other else
          if is_space x then (if appropriate k0 then go beforeAttributeNameState (end_tag_from_tmp k) else other) else if is_alpha x then (set_tmp (tmp k ++ [x]) k, true) else other
      end
  | scriptDataDoubleEscapeStartState =>
      match c with
      | None => go scriptDataEscapedState k0
      | Some x =>
           if is_space x || (x =? 47) || (x =? 62) then go (if str_eqb (lower_str (tmp k)) w_script then scriptDataDoubleEscapedState else scriptDataEscapedState) (emitc x k) else if is_alpha x then (emitc x (set_tmp (tmp k ++ [x]) k), true) else go scriptDataEscapedState k0
      end
  | scriptDataDoubleEscapedState =>
      match c with
      | None => go dataState k0
      | Some x =>
          if x =? 45 then go scriptDataDoubleEscapedDashState (emitc 45 k) else
          if x =? 60 then go scriptDataDoubleEscapedLessThanSignState (emitc 60 k) else
          (emitc (nulfix x) k, true)
      end
  | scriptDataDoubleEscapedDashState =>
      match c with
      | None => go dataState k0
      | Some x =>
          if x =? 45 then go scriptDataDoubleEscapedDashDashState (emitc 45 k) else
          if x =? 60 then go scriptDataDoubleEscapedLessThanSignState (emitc 60 k) else
          go scriptDataDoubleEscapedState (emitc (nulfix x) k)
      end
  | scriptDataDoubleEscapedDashDashState =>
      match c with
      | None => go dataState k0
      | Some x =>
          if x =? 45 then (emitc 45 k, true) else
          if x =? 60 then go scriptDataDoubleEscapedLessThanSignState (emitc 60 k) else
          if x =? 62 then go scriptDataState (emitc 62 k) else
          go scriptDataDoubleEscapedState (emitc (nulfix x) k)
      end
  | scriptDataDoubleEscapedLessThanSignState =>
      match c with
      | None => go scriptDataDoubleEscapedState k0
      | Some x =>
          if x =? 47 then go scriptDataDoubleEscapeEndState (emitc 47 (set_tmp [] k)) else
          go scriptDataDoubleEscapedState k0
      end
  | scriptDataDoubleEscapeEndState =>
      match c with
      | None => go scriptDataDoubleEscapedState k0
      | Some x =>
           if is_space x || (x =? 47) || (x =? 62) then go (if str_eqb (lower_str (tmp k)) w_script then scriptDataEscapedState else scriptDataDoubleEscapedState) (emitc x k) else if is_alpha x then (emitc x (set_tmp (tmp k ++ [x]) k), true) else go scriptDataDoubleEscapedState k0
      end
  (* ---------------- attributes ---------------- *)
  | beforeAttributeNameState =>
      match c with
      | None => go afterAttributeNameState k0
      | Some x =>
          if x =? 47 then go afterAttributeNameState k0 else
          if x =? 62 then go afterAttributeNameState k0 else
          if x =? 61 then go attributeNameState (attr_new [61] k) else
          if is_space x then (k, true) else go attributeNameState (attr_new [] k0)
      end
  | attributeNameState =>
      match c with
      | None => go afterAttributeNameState k0
      | Some x =>
          if x =? 47 then go afterAttributeNameState k0 else
          if x =? 62 then go afterAttributeNameState k0 else
          if x =? 61 then go beforeAttributeValueState k else
          if is_space x then go afterAttributeNameState k0 else (attr_name_app [lc (nulfix x)] k, true)
      end
  | afterAttributeNameState =>
      match c with
      | None => go dataState k0
      | Some x =>
          if x =? 47 then go selfClosingStartTagState k else
          if x =? 61 then go beforeAttributeValueState k else
          if x =? 62 then go dataState (emit_tag k) else
          if is_space x then (k, true) else go attributeNameState (attr_new [] k0)
      end
  | beforeAttributeValueState =>
      match c with
      | None => go attributeValueUnQuotedState k0
      | Some x =>
          if x =? 34 then go attributeValueDoubleQuotedState k else
          if x =? 39 then go attributeValueSingleQuotedState k else
          if x =? 62 then go dataState (emit_tag k) else
          if is_space x then (k, true) else go attributeValueUnQuotedState k0
      end
  | attributeValueDoubleQuotedState =>
      match c with
      | None => go dataState k0
      | Some x =>
          if x =? 34 then go afterAttributeValueState k else
          if x =? 38 then (charref_attr k, true) else
          (attr_val_app [nulfix x] k, true)
      end
  | attributeValueSingleQuotedState =>
      match c with
      | None => go dataState k0
      | Some x =>
          if x =? 39 then go afterAttributeValueState k else
          if x =? 38 then (charref_attr k, true) else
          (attr_val_app [nulfix x] k, true)
      end
  | attributeValueUnQuotedState =>
      match c with
      | None => go dataState k0
      | Some x =>
          if x =? 38 then (charref_attr k, true) else
          if x =? 62 then go dataState (emit_tag k) else
          if is_space x then go beforeAttributeNameState k else (attr_val_app [nulfix x] k, true)
      end
  | afterAttributeValueState =>
      match c with
      | None => go dataState k0
      | Some x =>
          if x =? 47 then go selfClosingStartTagState k else
          if x =? 62 then go dataState (emit_tag k) else
          if is_space x then go beforeAttributeNameState k else go beforeAttributeNameState k0
      end
  | selfClosingStartTagState =>
      match c with
      | None => go dataState k0
      | Some x =>
          if x =? 62 then go dataState (emit_tag (set_self_closing k)) else
          go beforeAttributeNameState k0
      end
  (* ---------------- comments ---------------- *)
  | bogusCommentState =>
      match c with
      | None => go dataState (emit_cur k0)
      | Some x =>
          if x =? 62 then go dataState (emit_cur k) else
          (data_app [nulfix x] k, true)
      end
  | markupDeclarationOpenState =>
      match next_are false [45; 45] (inp k0) with
      | Some r => go commentStartState (set_cur (CComment []) (set_inp r k0))
      | None =>
          match next_are true w_DOCTYPE (inp k0) with
          | Some r => go doctypeState (set_cur (CDoctype [] None None true) (set_inp r k0))      (* N5 *)
          | None =>
              match next_are false w_CDATA (inp k0) with
              | Some r => if cdata_ok k0 then go cdataSectionState (set_inp r k0)
                          else go bogusCommentState (set_cur (CComment []) k0)       (* N8 *)
              | None => go bogusCommentState (set_cur (CComment []) k0)
              end
          end
      end
  | commentStartState =>
      match c with
      | None => go commentState k0
      | Some x =>
          if x =? 45 then go commentStartDashState k else
          if x =? 62 then go dataState (emit_cur k) else
          go commentState k0
      end
  | commentStartDashState =>
      match c with
      | None => go dataState (emit_cur k0)
      | Some x =>
          if x =? 45 then go commentEndState k else
          if x =? 62 then go dataState (emit_cur k) else
          go commentState (data_app [45] k0)
      end
  | commentState =>
      match c with
      | None => go dataState (emit_cur k0)
      | Some x =>
          if x =? 45 then go commentEndDashState k else
          (data_app [nulfix x] k, true)            (* N4: "<" is appended like any other character *)
      end
  | commentEndDashState =>
      match c with
      | None => go dataState (emit_cur k0)
      | Some x =>
          if x =? 45 then go commentEndState k else
          go commentState (data_app [45] k0)
      end
  | commentEndState =>
      match c with
      | None => go dataState (emit_cur k0)
      | Some x =>
          if x =? 62 then go dataState (emit_cur k) else
          if x =? 33 then go commentEndBangState k else
          if x =? 45 then (data_app [45] k, true) else
          go commentState (data_app [45; 45] k0)
      end
  | commentEndBangState =>
      match c with
      | None => go dataState (emit_cur k0)
      | Some x =>
          if x =? 45 then go commentEndDashState (data_app [45; 45; 33] k) else
          if x =? 62 then go dataState (emit_cur k) else
          go commentState (data_app [45; 45; 33] k0)
      end
  (* ---------------- DOCTYPE ---------------- *)
  | doctypeState =>
      match c with
      | None => go dataState (emit_cur (fq k0))
      | Some x =>
          if is_space x then go beforeDoctypeNameState k else go beforeDoctypeNameState k0
      end
  | beforeDoctypeNameState =>
      match c with
      | None => go dataState (emit_cur (fq k0))
      | Some x =>
          if x =? 62 then go dataState (emit_cur (fq k)) else
          if is_space x then (k, true) else go doctypeNameState (name_set [lc (nulfix x)] k)
      end
  | doctypeNameState =>
      match c with
      | None => go dataState (emit_cur (fq k0))
      | Some x =>
          if x =? 62 then go dataState (emit_cur k) else
          if is_space x then go afterDoctypeNameState k else (name_app [lc (nulfix x)] k, true)
      end
  | afterDoctypeNameState =>
      match c with
      | None => go dataState (emit_cur (fq k0))
      | Some x =>
          if x =? 62 then go dataState (emit_cur k) else
           if is_space x then (k, true) else match next_are true w_PUBLIC (inp k0) with | Some r => go afterDoctypePublicKeywordState (set_inp r k0) | None => match next_are true w_SYSTEM (inp k0) with | Some r => go afterDoctypeSystemKeywordState (set_inp r k0) | None => go bogusDoctypeState (fq k0) end end
      end
  | afterDoctypePublicKeywordState =>                       (* N9 *)
      match c with
      | None => go dataState (emit_cur (fq k0))
      | Some x => if is_space x then go beforeDoctypePublicIdentifierState k
                  else go beforeDoctypePublicIdentifierState k0
      end
  | beforeDoctypePublicIdentifierState =>
      match c with
      | None => go dataState (emit_cur (fq k0))
      | Some x =>
          if x =? 34 then go doctypePublicIdentifierDoubleQuotedState (pub_set [] k) else
          if x =? 39 then go doctypePublicIdentifierSingleQuotedState (pub_set [] k) else
          if x =? 62 then go dataState (emit_cur (fq k)) else
          if is_space x then (k, true) else go bogusDoctypeState (fq k0)
      end
  | doctypePublicIdentifierDoubleQuotedState =>
      match c with
      | None => go dataState (emit_cur (fq k0))
      | Some x =>
          if x =? 34 then go afterDoctypePublicIdentifierState k else
          if x =? 62 then go dataState (emit_cur (fq k)) else
          (pub_app [nulfix x] k, true)
      end
  | doctypePublicIdentifierSingleQuotedState =>
      match c with
      | None => go dataState (emit_cur (fq k0))
      | Some x =>
          if x =? 39 then go afterDoctypePublicIdentifierState k else
          if x =? 62 then go dataState (emit_cur (fq k)) else
          (pub_app [nulfix x] k, true)
      end
  | afterDoctypePublicIdentifierState =>
      match c with
      | None => go dataState (emit_cur (fq k0))
      | Some x =>
          if x =? 62 then go dataState (emit_cur k) else
          if x =? 34 then go doctypeSystemIdentifierDoubleQuotedState (sys_set [] k) else
          if x =? 39 then go doctypeSystemIdentifierSingleQuotedState (sys_set [] k) else
          if is_space x then go betweenDoctypePublicAndSystemIdentifiersState k else go bogusDoctypeState (fq k0)
      end
  | betweenDoctypePublicAndSystemIdentifiersState =>
      match c with
      | None => go dataState (emit_cur (fq k0))
      | Some x =>
          if x =? 62 then go dataState (emit_cur k) else
          if x =? 34 then go doctypeSystemIdentifierDoubleQuotedState (sys_set [] k) else
          if x =? 39 then go doctypeSystemIdentifierSingleQuotedState (sys_set [] k) else
          if is_space x then (k, true) else go bogusDoctypeState (fq k0)
      end
  | afterDoctypeSystemKeywordState =>                       (* N9 *)
      match c with
      | None => go dataState (emit_cur (fq k0))
      | Some x => if is_space x then go beforeDoctypeSystemIdentifierState k
                  else go beforeDoctypeSystemIdentifierState k0
      end
  | beforeDoctypeSystemIdentifierState =>
      match c with
      | None => go dataState (emit_cur (fq k0))
      | Some x =>
          if x =? 34 then go doctypeSystemIdentifierDoubleQuotedState (sys_set [] k) else
          if x =? 39 then go doctypeSystemIdentifierSingleQuotedState (sys_set [] k) else
          if x =? 62 then go dataState (emit_cur (fq k)) else
          if is_space x then (k, true) else go bogusDoctypeState (fq k0)
      end
  | doctypeSystemIdentifierDoubleQuotedState =>
      match c with
      | None => go dataState (emit_cur (fq k0))
      | Some x =>
          if x =? 34 then go afterDoctypeSystemIdentifierState k else
          if x =? 62 then go dataState (emit_cur (fq k)) else
          (sys_app [nulfix x] k, true)
      end
  | doctypeSystemIdentifierSingleQuotedState =>
      match c with
      | None => go dataState (emit_cur (fq k0))
      | Some x =>
          if x =? 39 then go afterDoctypeSystemIdentifierState k else
          if x =? 62 then go dataState (emit_cur (fq k)) else
          (sys_app [nulfix x] k, true)
      end
  | afterDoctypeSystemIdentifierState =>
      match c with
      | None => go dataState (emit_cur (fq k0))
      | Some x =>
          if x =? 62 then go dataState (emit_cur k) else
          if is_space x then (k, true) else go bogusDoctypeState k0       (* force-quirks stays off *)
      end
  | bogusDoctypeState =>
      match c with
      | None => go dataState (emit_cur k0)
      | Some x =>
          if x =? 62 then go dataState (emit_cur k) else
          (k, true)
      end
  (* ---------------- CDATA ---------------- *)
  | cdataSectionState =>
      match c with
      | None => go dataState k0
      | Some x =>
          if x =? 93 then go cdataSectionBracketState k else
          (emitc x k, true)                        (* U+0000 is emitted as is *)
      end
  | cdataSectionBracketState =>
      match c with
      | None => go cdataSectionState (emitc 93 k0)
      | Some x =>
          if x =? 93 then go cdataSectionEndState k else
          go cdataSectionState (emitc 93 k0)
      end
  | cdataSectionEndState =>
      match c with
      | None => go cdataSectionState (emits [93; 93] k0)
      | Some x =>
          if x =? 93 then (emitc 93 k, true) else
          if x =? 62 then go dataState k else
          go cdataSectionState (emits [93; 93] k0)
      end
  (* states that exist only in html5lib (character references are taken in place, N6) *)
  | entityDataState => go dataState (charref_text k0)
  | characterReferenceInRcdata => go rcdataState (charref_text k0)
  end.

Fixpoint sp_run (fuel : nat) (k : tk) : option tk :=
  match fuel with
  | O => None
  | S f => let '(k', cont) := sp_step k in if cont then sp_run f k' else Some k'
  end.

