(* Spec/ContentCharset.v -- the standard's "algorithm for extracting a character encoding from a meta element"
   (HTML, 2020), transcribed as a function on the list of characters of the (lower-cased) attribute value; no
   positions, no exceptions.  Hand-written; trusted base.

     1. position := start of s
     2. Loop: find the first "charset" after position; none: return nothing
     3. skip ASCII whitespace after it
     4. if the next character is not "=": position := just before that character; go to Loop
     5. skip ASCII whitespace after the "="
     6. next character:
          a quote with a later matching quote  -> the characters between them
          an unmatched quote                   -> nothing
          none                                 -> nothing
          otherwise                            -> this character up to (not including) the first ASCII whitespace
                                                  or ";" or the end of s
   (the last step of the standard, "get an encoding" from that label, is Model.C06.lookup and not part of this) *)
From Coq Require Import NArith List Bool Arith.
From Verif Require Import Sx Str.
Import ListNotations.
Local Open Scope N_scope.

Definition s_charset : str := [99;104;97;114;115;101;116].

(* what follows the first occurrence of p in s *)
Fixpoint after_first (p s : str) : option str :=
  if starts_with p s then Some (skipn (length p) s)
  else match s with [] => None | _ :: r => after_first p r end.

Fixpoint drop_ws (s : str) : str :=
  match s with c :: r => if is_space c then drop_ws r else s | [] => [] end.

(* the characters before the first one satisfying f (all of s if there is none) *)
Fixpoint before (f : N -> bool) (s : str) : str :=
  match s with c :: r => if f c then [] else c :: before f r | [] => [] end.
(* ... or None if no character satisfies f *)
Fixpoint before_strict (f : N -> bool) (s : str) : option str :=
  match s with
  | c :: r => if f c then Some [] else option_map (cons c) (before_strict f r)
  | [] => None
  end.

Definition label_end (c : N) : bool := is_space c || (c =? 59).

Definition value_at (s : str) : option str :=        (* step 6, s = what follows the "=" and the whitespace *)
  match s with
  | [] => None
  | q :: r => if (q =? 34) || (q =? 39) then before_strict (N.eqb q) r else Some (before label_end s)
  end.

Fixpoint extract (fuel : nat) (s : str) : option str :=
  match fuel with
  | O => None
  | S k =>
      match after_first s_charset s with
      | None => None
      | Some r =>
          match drop_ws r with
          | c :: r2 => if c =? 61 then value_at (drop_ws r2) else extract k (c :: r2)
          | [] => None
          end
      end
  end.

(* every round of the loop consumes at least the seven characters of "charset": length s rounds are enough *)
Definition extract_charset (s : str) : option str := extract (S (length s)) s.
