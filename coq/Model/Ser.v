(* Ser -- HTMLSerializer.serialize's token loop (text output, no encoding), hand-modelled and hash-pinned.
   Tables (rcdataElements, voidElements, booleanAttributes, entities, xmlEntities) and the two quoting
   character classes come from the translator.  The filters stacked in front of the loop are the models of
   C13/C15/C17/C18/C09; this file is the loop itself.  Shared by C08, C07 and C10. *)
From Coq Require Import NArith List Bool Arith.
From Verif Require Import Sx Str Tok.
From Verif.Gen Require Import Consts Entities Serializer.
Import ListNotations.
Local Open Scope N_scope.

Record sopts : Type := mk_sopts {
  quote_mode : N;            (* 0 "always", 1 "spec", 2 "legacy" *)
  quote_char : N;
  best_quote : bool;         (* use_best_quote_char *)
  minimize : bool;           (* minimize_boolean_attributes *)
  solidus : bool;            (* use_trailing_solidus *)
  space_solidus : bool;      (* space_before_trailing_solidus *)
  escape_lt : bool;          (* escape_lt_in_attrs *)
  escape_rcdata : bool;
  resolve_entities : bool
}.

Definition in_ranges (rs : list (N * N)) (c : N) : bool := existsb (fun r => (fst r <=? c) && (c <=? snd r)) rs.

(* str.replace of one character by a string *)
Definition replace_char (c : N) (by_ : str) (s : str) : str := flat_map (fun x => if x =? c then by_ else [x]) s.

Definition s_amp : str := [38;97;109;112;59].
Definition s_lt : str := [38;108;116;59].
Definition s_gt : str := [38;103;116;59].
Definition s_quot : str := [38;113;117;111;116;59].
Definition s_39 : str := [38;35;51;57;59].

(* xml.sax.saxutils.escape: & first, then > and < *)
Definition escape (s : str) : str := replace_char 60 s_lt (replace_char 62 s_gt (replace_char 38 s_amp s)).

Definition E_sysid_quotes : str :=
  [83;121;115;116;101;109;32;105;100;101;110;116;105;102;105;101;114;32;99;111;110;116;97;105;110;115;32;98;111;116;104;32;115;105;110;103;108;101;32;97;110;100;32;100;111;117;98;108;101;32;113;117;111;116;101;32;99;104;97;114;97;99;116;101;114;115].
Definition E_pubid_quotes : str :=
  [80;117;98;108;105;99;32;105;100;101;110;116;105;102;105;101;114;32;99;111;110;116;97;105;110;115;32;98;111;116;104;32;115;105;110;103;108;101;32;97;110;100;32;100;111;117;98;108;101;32;113;117;111;116;101;32;99;104;97;114;97;99;116;101;114;115].
Definition E_comment_start : str := [67;111;109;109;101;110;116;32;115;116;97;114;116;115;32;119;105;116;104;32;62;32;111;114;32;45;62].
Definition E_lt_slash_in_cdata : str :=
  [85;110;101;120;112;101;99;116;101;100;32;60;47;32;105;110;32;67;68;65;84;65].
Definition E_child_of_cdata : str :=
  [85;110;101;120;112;101;99;116;101;100;32;99;104;105;108;100;32;101;108;101;109;101;110;116;32;111;102;32;97;32;67;68;65;84;65;32;101;108;101;109;101;110;116].
Definition E_comment_dashes : str := [67;111;109;109;101;110;116;32;99;111;110;116;97;105;110;115;32;45;45].
Definition E_entity_pre : str := [69;110;116;105;116;121;32].
Definition E_entity_post : str := [32;110;111;116;32;114;101;99;111;103;110;105;122;101;100].

Definition has_char (c : N) (s : str) : bool := existsb (N.eqb c) s.
Definition is_bool_attr (elem attr : str) : bool :=
  let look k := match find (fun e => str_eqb (fst e) k) booleanAttributes with
                | Some e => mem_str attr (snd e) | None => false end in
  look elem || look [].

Definition s_doctype : str := [60;33;68;79;67;84;89;80;69;32].
Definition s_public : str := [32;80;85;66;76;73;67;32].
Definition s_system : str := [32;83;89;83;84;69;77].
Definition s_None : str := [78;111;110;101].
Definition nonempty (o : option str) : bool := match o with Some (_ :: _) => true | _ => false end.
Definition oget (o : option str) : str := match o with Some s => s | None => [] end.

Section WithOpts.
  Variable o : sopts.

  Definition ser_doctype (name pub sys : option str) : str * list str :=
    let d0 := s_doctype ++ match name with Some n => n | None => [] end in      (* token["name"] or "" (repaired in /repo: it wrote the word None) *)
    let '(d1, e1) :=
      if nonempty pub then
        let p := oget pub in
        let q := if has_char 34 p then 39 else 34 in
        (d0 ++ s_public ++ [q] ++ p ++ [q], if has_char 34 p && has_char 39 p then [E_pubid_quotes] else [])
      else if nonempty sys then (d0 ++ s_system, []) else (d0, []) in
    if nonempty sys then
      let s := oget sys in
      let both := has_char 34 s && has_char 39 s in
      let q := if has_char 34 s then 39 else 34 in
      (d1 ++ [32; q] ++ s ++ [q; 62], e1 ++ (if both then [E_sysid_quotes] else []))
    else (d1 ++ [62], e1).

  Definition needs_quote (v : str) : bool :=
    match v with
    | [] => true
    | _ => if quote_mode o =? 0 then true
           else if quote_mode o =? 1 then existsb (in_ranges quote_spec_class) v
           else existsb (in_ranges quote_legacy_class) v
    end.

  Definition ser_attr_value (v : str) : str :=
    let q := needs_quote v in
    let v1 := replace_char 38 s_amp v in
    let v2 := if escape_lt o then replace_char 60 s_lt v1 else v1 in
    if q then
      let qc := if best_quote o then
                  if has_char 39 v2 && negb (has_char 34 v2) then 34
                  else if has_char 34 v2 && negb (has_char 39 v2) then 39
                  else quote_char o
                else quote_char o in
      let v3 := if qc =? 39 then replace_char 39 s_39 v2 else replace_char 34 s_quot v2 in
      [qc] ++ v3 ++ [qc]
    else v2.

  Definition attr_has_value (elem : str) (a : attr) : bool :=
    negb (minimize o) || negb (is_bool_attr elem (snd (fst a))).
  Definition ser_attr (elem : str) (a : attr) : str :=
    let k := snd (fst a) in
    [32] ++ k ++ (if attr_has_value elem a then [61] ++ ser_attr_value (snd a) else []).

  (* the loop variable quote_attr after the attribute loop: True initially, then the quoting decision of the
     last attribute that was written with a value *)
  Definition last_quoted (elem : str) (a : attrs) : bool :=
    fold_left (fun q x => if attr_has_value elem x then needs_quote (snd x) else q) a true.

  (* [empty]: the token is an EmptyTag (only those get the trailing solidus) *)
  Definition ser_start (empty : bool) (name : str) (a : attrs) : str :=
    [60] ++ name ++ flat_map (ser_attr name) a ++
    (if empty && mem_str name voidElements && solidus o
     then (if space_solidus o || negb (last_quoted name a) then [32; 47] else [47]) else []) ++ [62].

  (* one token: (in_cdata, text, errors); None = the real code raises (KeyError on an unknown entity) *)
  Definition ser_token (in_cdata : bool) (t : token) : option (bool * str * list str) :=
    match t with
    | TDoctype n p s => let '(txt, e) := ser_doctype n p s in Some (in_cdata, txt, e)
    | TChars s =>
        if in_cdata then Some (in_cdata, s, if contains [60; 47] s then [E_lt_slash_in_cdata] else [])
        else Some (in_cdata, escape s, [])
    | TSpace s =>
        Some (in_cdata, s, if in_cdata && contains [60; 47] s then [E_lt_slash_in_cdata] else [])
    | TStart _ name a | TEmpty _ name a =>
        let enter := mem_str name rcdataElements && negb (escape_rcdata o) in
        Some (if enter then true else in_cdata, ser_start (match t with TEmpty _ _ _ => true | _ => false end) name a,
              if enter then [] else if in_cdata then [E_child_of_cdata] else [])
    | TEnd _ name =>
        let leave := mem_str name rcdataElements in
        Some (if leave then false else in_cdata, [60; 47] ++ name ++ [62],
              if leave then [] else if in_cdata then [E_child_of_cdata] else [])
    | TComment d =>
        Some (in_cdata, [60; 33; 45; 45] ++ d ++ [45; 45; 62],
              if contains [45; 45] d then [E_comment_dashes]
              else if starts_with [62] d || starts_with [45; 62] d then [E_comment_start] else [])
    | TEntity name =>
        let key := name ++ [59] in
        let known := existsb (fun e => str_eqb (fst e) key) entities in
        let errs := if known then [] else [E_entity_pre ++ name ++ E_entity_post] in
        if resolve_entities o && negb (mem_str key xmlEntities) then
          match find (fun e => str_eqb (fst e) key) entities with
          | Some e => Some (in_cdata, snd e, errs)
          | None => None
          end
        else Some (in_cdata, [38] ++ name ++ [59], errs)
    | TSerErr d => Some (in_cdata, [], [d])
    | TOther _ => None
    end.

  Fixpoint ser_loop (in_cdata : bool) (ts : list token) : option (str * list str) :=
    match ts with
    | [] => Some ([], [])
    | t :: r =>
        match ser_token in_cdata t with
        | None => None
        | Some (c', txt, e) =>
            match ser_loop c' r with
            | None => None
            | Some (txt', e') => Some (txt ++ txt', e ++ e')
            end
        end
    end.

  Definition Ser (ts : list token) : option (str * list str) := ser_loop false ts.
End WithOpts.

(* wire *)
Definition dec_opts (x : sx) : sopts :=
  mk_sopts (as_N (nth_sx 0 x)) (as_N (nth_sx 1 x)) (as_bool (nth_sx 2 x)) (as_bool (nth_sx 3 x))
           (as_bool (nth_sx 4 x)) (as_bool (nth_sx 5 x)) (as_bool (nth_sx 6 x)) (as_bool (nth_sx 7 x))
           (as_bool (nth_sx 8 x)).
Definition enc_ser (r : option (str * list str)) : sx :=
  match r with
  | None => L [A 1]
  | Some (txt, errs) => L [A 0; of_str txt; of_list of_str errs]
  end.
