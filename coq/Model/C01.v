(* C01 -- the whole pipeline: tokenizer model + tree construction model (Model/TC.v) = html5lib.parse /
   parseFragment with the DOM tree builder on a str input (no encoding detection). *)
From Coq Require Import NArith ZArith List Bool Arith String.
From Verif Require Import Sx Str Tok.
From Verif.Spec Require Lit.
From Verif.Spec Require Import TreeTables.
From Verif.Model Require Import CharRef TokBase TokHand TCdom TC C18.
From Verif.Gen Require Import Tokenizer.
Import ListNotations.
Local Open Scope list_scope.
Local Open Scope N_scope.
Local Notation length := List.length.

Definition conv (t : otok) : option ttok :=
  match t with
  | OErr _ | ONone => None
  | OChars s => Some (KChars s)
  | OSpace s => Some (KSpace s)
  | OStart n a sc => Some (KStart n (map (fun kv => ((None, fst kv), snd kv)) a) sc)
  | OEnd n _ _ => Some (KEnd n)
  | OComment c => Some (KComment' c)
  | ODoctype n p s c => Some (KDoctype' n p s c)
  end.

(* mainLoop's choice between the current phase and inForeignContent *)
Definition choose_phase (t : ttok) (s : ps) : phase :=
  match top s with
  | None => ph s
  | Some c =>
      let is_start := match t with KStart _ _ _ => true | _ => false end in
      let is_text := match t with KChars _ | KSpace _ => true | _ => false end in
      let start_name := match t with KStart n _ _ => n | _ => [] end in
      if opt_str_eqb (ens (d s) c) (htmlns s) then ph s
      else if is_mathml_text_ip s c &&
              ((is_start && negb (mem_str start_name [Lit.S "mglyph"; Lit.S "malignmark"])) || is_text) then ph s
      else if opt_str_eqb (ens (d s) c) (Some mathml_ns) && str_eqb (ename (d s) c) (Lit.S "annotation-xml") &&
              is_start && str_eqb start_name (Lit.S "svg") then ph s
      else if is_html_integration_point s c && (is_start || is_text) then ph s
      else inForeignContentP
  end.

Fixpoint feed (fuel : nat) (t : ttok) (s : ps) : ps :=
  match fuel with
  | O => crashed (Lit.S "model: out of fuel (reprocessing)") s
  | S f =>
      match crash s with
      | Some _ => s
      | None =>
          let '(s', r) := process call_fuel (choose_phase t s) t s in
          match r with Some t' => feed f t' s' | None => s' end
      end
  end.

Fixpoint eof_loop (fuel : nat) (s : ps) : ps :=
  match fuel with
  | O => crashed (Lit.S "EOF loop: assert self.phase not in phases") s
  | S f => match crash s with
           | Some _ => s
           | None => let '(s', again) := handle_eof (process call_fuel) s in if again then eof_loop f s' else s'
           end
  end.

Definition set_cdata (b : bool) (k : tk) : tk := mk_tk (st k) (inp k) (cur k) (tmp k) (out k) b (bad k).

Fixpoint main_loop (fuel : nat) (s : ps) : ps :=
  match fuel with
  | O => crashed (Lit.S "model: out of fuel (tokenizer steps)") s
  | S f =>
      match crash s with
      | Some _ => s
      | None =>
          let foreign := match top s with Some c => negb (opt_str_eqb (ens (d s) c) (htmlns s)) | None => false end in
          let '(k', cont) := step (set_cdata foreign (tok s)) in
          let toks := rev (out k') in
          let s := set_tok (set_out [] k') s in
          let s := if bad k' then crashed (Lit.S "tokenizer: exception") s else s in
          let s := fold_left (fun s t => match conv t with Some t2 => feed 64%nat t2 s | None => s end) toks s in
          if cont then main_loop f s else eof_loop 30%nat s
      end
  end.

Definition init_ps (dv : N) (nshtml scripting' : bool) (i : str) : ps :=
  mk_ps [mk_node KDoc [] None None] [] [] initialP initialP None None true false false None scripting' false
        initialP [] (mk_tk dataState i CNone [] [] false false)
        (if nshtml then Some html_ns else None) None dv.

Definition parse_document (dv : N) (nshtml scripting' : bool) (i : str) : ps :=
  main_loop (4 * length i + 8)%nat (init_ps dv nshtml scripting' i).

Definition parse_fragment (dv : N) (nshtml scripting' : bool) (container : str) (i : str) : ps :=
  let s := init_ps dv nshtml scripting' i in
  let c := lower_str container in
  let s := mk_ps (d s) (opn s) (afe s) beforeHtmlP (orig s) (headp s) (formp s) (fsok s) (ftab s) (quirks s) (Some c)
                 (scripting s) (dropnl s) (ttorig s) (ttchars s) (tok s) (htmlns s) (crash s) (dev s) in
  let s := if mem_str c cdata_elements then tok_state rcdataState s
           else if str_eqb c (Lit.S "script") then tok_state scriptDataState s
           else if str_eqb c (Lit.S "noscript") && negb scripting' then s
           else if mem_str c rcdata_elements then tok_state rawtextState s
           else if str_eqb c (Lit.S "plaintext") then tok_state plaintextState s else s in
  let s := insert_html_element s in
  let s := reset_insertion_mode s in
  main_loop (4 * length i + 8)%nat s.

(* attributes in canonical order for the comparison (dict order is not part of the tree) *)
Fixpoint canon (fuel : nat) (t : tree) : tree :=
  match fuel with
  | O => t
  | S f => match t with
           | TE ns nm a c => TE ns nm (sort_attrs a) (map (canon f) c)
           | other => other
           end
  end.

Definition result (fragment : bool) (s : ps) : sx :=
  match crash s with
  | Some why => L [A 1; of_str why]
  | None =>
      let forest := if fragment then children_trees (d s) (root s) else children_trees (d s) doc_id in
      L [A 0; L (map (fun t => enc_tree (S (length (d s))) (canon (S (length (d s))) t)) forest)]
  end.

(* input: (fragment?, container, scripting, namespace HTML elements?, characters, deviation switches) *)
Definition run_c01 (x : sx) : sx :=
  let frag := as_bool (nth_sx 0 x) in
  let cont := as_str (nth_sx 1 x) in
  let scr := as_bool (nth_sx 2 x) in
  let ns := as_bool (nth_sx 3 x) in
  let i := as_str (nth_sx 4 x) in
  let dv := as_N (nth_sx 5 x) in
  result frag (if frag then parse_fragment dv ns scr cont i else parse_document dv ns scr i).
