(* C16 -- HTMLParser.parseError: record, then raise the formatted message when strict.
   The message table E and every raise site (code + supplied variables) come from the translator. *)
From Coq Require Import NArith List Bool.
From Verif Require Import Sx Str Tok.
From Verif.Gen Require Import Errors.
Import ListNotations.
Local Open Scope N_scope.

Definition err : Type := str * list (str * bool).      (* error code, supplied datavars (name, certainly-an-int?) *)

(* E[errorcode] % datavars succeeds iff the code is a key of E, every %(name) of the template is supplied
   (else KeyError) and its conversion accepts the value: %s takes anything, %d %x %X %o ... need a number
   (else TypeError) *)
Definition template_vars (code : str) : option (list (str * N)) :=
  option_map snd (find (fun e => str_eqb (fst e) code) E_table).
Definition conv_ok (conv : N) (is_int : bool) : bool := (conv =? 115) || (conv =? 114) || is_int.
Definition var_ok (supplied : list (str * bool)) (v : str * N) : bool :=
  match find (fun k => str_eqb (fst k) (fst v)) supplied with
  | Some k => conv_ok (snd v) (snd k)
  | None => false
  end.
Definition format_ok (e : err) : bool :=
  match template_vars (fst e) with
  | Some vars => forallb (var_ok (snd e)) vars
  | None => false
  end.

Inductive exn := ParseErrorExn (e : err) | KeyErrorExn (e : err).

(* one call of parseError: append to .errors, then raise if strict *)
Definition parse_error (strict : bool) (errors : list err) (e : err) : list err * option exn :=
  (errors ++ [e], if strict then Some (if format_ok e then ParseErrorExn e else KeyErrorExn e) else None).

(* a parse = the sequence of parseError calls it makes (until one raises) *)
Fixpoint run_calls (strict : bool) (calls : list err) (errors : list err) : list err * option exn :=
  match calls with
  | [] => (errors, None)
  | e :: r => match parse_error strict errors e with
              | (errs, Some x) => (errs, Some x)
              | (errs, None) => run_calls strict r errs
              end
  end.

Definition dec_err (x : sx) : err :=
  (as_str (nth_sx 0 x), map (fun k => (as_str (nth_sx 0 k), as_bool (nth_sx 1 k))) (as_list (nth_sx 1 x))).
Definition enc_err (e : err) : sx := L [of_str (fst e); of_list (fun k => L [of_str (fst k); of_bool (snd k)]) (snd e)].

Definition run_c16 (x : sx) : sx :=
  let '(errs, ex) := run_calls (as_bool (nth_sx 0 x)) (map dec_err (as_list (nth_sx 1 x))) [] in
  L [of_list enc_err errs;
     match ex with None => L [] | Some (ParseErrorExn e) => L [A 1; enc_err e] | Some (KeyErrorExn e) => L [A 2; enc_err e] end].
