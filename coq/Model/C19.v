(* C19 -- treeadapters/sax.py: to_sax.  prefix_mapping and the qualified-name table come from the
   translator; the event loop is hand-modelled (hash-pinned). *)
From Coq Require Import NArith List Bool.
From Verif Require Import Sx Str Tok Tree.
From Verif.Gen Require Import Sax Consts.
Import ListNotations.
Local Open Scope N_scope.

Inductive event : Type :=
| EStartDoc | EEndDoc
| EStartPrefix (p ns : str) | EEndPrefix (p : str)
| EStartElem (ns : option str) (name : str) (a : attrs)
| EEndElem (ns : option str) (name : str)
| EChars (s : str).

(* events of one token; None = the `assert False, "Unknown token type"` branch *)
Definition tok_events (t : token) : option (list event) :=
  match t with
  | TDoctype _ _ _ => Some []
  | TStart ns n a => Some [EStartElem ns n a]
  | TEmpty ns n a => Some [EStartElem ns n a; EEndElem ns n]
  | TEnd ns n => Some [EEndElem ns n]
  | TChars s | TSpace s => Some [EChars s]
  | TComment _ => Some []
  | TEntity _ | TSerErr _ | TOther _ => None
  end.

Fixpoint body_events (ts : list token) : option (list event) :=
  match ts with
  | [] => Some []
  | t :: r => match tok_events t, body_events r with
              | Some a, Some b => Some (a ++ b)
              | _, _ => None
              end
  end.

Definition Sax (ts : list token) : option (list event) :=
  match body_events ts with
  | Some b => Some (EStartDoc :: map (fun pn => EStartPrefix (fst pn) (snd pn)) prefix_mapping
                    ++ b ++ map (fun pn => EEndPrefix (fst pn)) prefix_mapping ++ [EEndDoc])
  | None => None
  end.

(* AttributesNSImpl.getQNameByName *)
Definition qname (k : akey) : option str :=
  option_map snd (find (fun e => akey_eqb (fst e) k) unadjustForeignAttributes).

(* the events the handler saw before the assertion fired are not modelled: outcome only *)
Definition enc_event (e : event) : sx :=
  match e with
  | EStartDoc => L [A 0]
  | EEndDoc => L [A 1]
  | EStartPrefix p ns => L [A 2; of_str p; of_str ns]
  | EEndPrefix p => L [A 3; of_str p]
  | EStartElem ns n a => L [A 4; of_opt of_str ns; of_str n; enc_attrs a;
                            of_list (fun kv => of_opt of_str (qname (fst kv))) a]
  | EEndElem ns n => L [A 5; of_opt of_str ns; of_str n]
  | EChars s => L [A 6; of_str s]
  end.

(* rebuild a forest from an event stream (what a SAX consumer building a tree does) *)
Definition push_text (s : str) (cur : list node) : list node :=
  match s with
  | [] => cur
  | _ => match cur with Text t :: c => Text (t ++ s) :: c | _ => Text s :: cur end
  end.

Definition frame : Type := option str * str * attrs * list node.

Fixpoint rebuild_go (evs : list event) (stack : list frame) (cur : list node) : option (list node) :=
  match evs with
  | [] => match stack with [] => Some (rev cur) | _ => None end
  | EStartElem ns n a :: r => rebuild_go r ((ns, n, a, cur) :: stack) []
  | EEndElem ns n :: r =>
      match stack with
      | (ns', n', a, up) :: st =>
          if opt_str_eqb ns ns' && str_eqb n n' then rebuild_go r st (Elem ns' n' a (rev cur) :: up) else None
      | [] => None
      end
  | EChars s :: r => rebuild_go r stack (push_text s cur)
  | _ :: r => rebuild_go r stack cur
  end.
Definition sax_rebuild (evs : list event) : option (list node) := rebuild_go evs [] [].

Definition run_c19 (x : sx) : sx :=
  match as_N (nth_sx 0 x) with
  | 0 => (* token stream -> events *)
      match Sax (dec_tokens (nth_sx 1 x)) with
      | Some evs => L [A 1; of_list enc_event evs]
      | None => L [A 2]
      end
  | _ => (* tree -> walk -> events -> rebuilt forest *)
      let kids := map (dec_node 200) (as_list (nth_sx 1 x)) in
      match Sax (walk_all voidElements html_ns kids) with
      | Some evs => match sax_rebuild evs with
                    | Some f => L [A 1; of_list enc_node f]
                    | None => L [A 3]
                    end
      | None => L [A 2]
      end
  end.
