(* C09 -- filters/sanitizer.py: sanitize_token / allowed_token / disallowed_token with the allow-lists as
   parameters (defaults regenerated from the source), the URI pipeline (unescape, strip, lower, urlsplit scheme,
   data: content type), SVG url() stripping.  sanitize_css is a parameter here (not modelled).  Hand-modelled. *)
From Coq Require Import NArith List Bool Arith.
From Verif Require Import Sx Str Tok.
From Verif.Gen Require Import Sanitizer Consts.
From Verif.Gen Require Sax.
Import ListNotations.
Local Open Scope N_scope.

Definition in_rng (rs : list (N * N)) (c : N) : bool := existsb (fun r => (fst r <=? c) && (c <=? snd r)) rs.
Definition mem_key (k : akey) (l : list akey) : bool := existsb (akey_eqb k) l.
Definition mem_N (c : N) (l : str) : bool := existsb (N.eqb c) l.

Record lists := { l_elements : list akey; l_attributes : list akey; l_protocols : list str;
                  l_content_types : list str; l_uri_attrs : list akey; l_ref_attrs : list akey }.
Definition default_lists : lists :=
  {| l_elements := allowed_elements; l_attributes := allowed_attributes; l_protocols := allowed_protocols;
     l_content_types := allowed_content_types; l_uri_attrs := attr_val_is_uri; l_ref_attrs := svg_attr_val_allows_ref |}.

(* ---------- xml.sax.saxutils.escape / unescape ---------- *)
Definition s_lt : str := [38;108;116;59].
Definition s_gt : str := [38;103;116;59].
Definition s_amp : str := [38;97;109;112;59].
Definition unescape (s : str) : str :=
  replace_all s_amp [38] (replace_all s_gt [62] (replace_all s_lt [60] s)).
Definition escape (s : str) : str :=
  replace_all [62] s_gt (replace_all [60] s_lt (replace_all [38] s_amp s)).

(* ---------- str.lower() ---------- *)
Definition py_lower_char (c : N) : str :=
  if c <? 128 then [ascii_lower c]
  else match find (fun e => fst e =? c) py_lower_table with Some e => snd e | None => [c] end.
Definition py_lower (s : str) : str := flat_map py_lower_char s.

(* ---------- urllib.parse.urlsplit: the scheme (None = no scheme recognised) and the rest ---------- *)
Definition find_colon (s : str) : option nat :=
  (fix go (s : str) (i : nat) : option nat :=
     match s with [] => None | c :: r => if c =? 58 then Some i else go r (S i) end) s O.
Definition url_scheme (v : str) : option str * str :=
  let u := filter (fun c => negb (mem_N c url_remove_chars)) (drop_while (fun c => mem_N c url_lstrip_chars) v) in
  match find_colon u with
  | Some (S i) =>
      match u with
      | c0 :: _ =>
          if (c0 <? 128) && is_alpha c0 && forallb (fun c => mem_N c scheme_chars) (firstn (S i) u)
          then (Some (lower_str (firstn (S i) u)), skipn (S (S i)) u)
          else (None, u)
      | [] => (None, u)
      end
  | _ => (None, u)
  end.
(* the path component for a data: URI: up to the first '?' or '#' (no netloc: the rest does not start with //) *)
Definition url_path (rest : str) : str := take_while (fun c => negb ((c =? 35) || (c =? 63))) rest.

(* ---------- data_content_type regex (re.VERBOSE) as a deterministic scanner ---------- *)
Definition ct_char (c : N) : bool := is_alpha c || is_digit c || (c =? 45) || (c =? 46).
Definition cs_char (c : N) : bool := is_alpha c || is_digit c || (c =? 45).
Definition s_charset_eq : str := [59;99;104;97;114;115;101;116;61].    (* ;charset= *)
Definition s_base64 : str := [59;98;97;115;101;54;52].                 (* ;base64 *)
(* after the content type: one of  ""  ;charset=X  ;charset=X;base64  ;base64  ;base64;charset=X , then a comma,
   then anything without a newline (a single trailing newline is allowed by $) *)
Definition comma_rest (t : str) : bool :=
  match t with
  | 44 :: r => forallb (fun c => negb (c =? 10)) (match rev r with x :: r' => if x =? 10 then rev r' else r | [] => r end)
  | _ => false
  end.
Definition eat_charset (t : str) : option str :=
  if starts_with s_charset_eq t then
    let r := skipn 9 t in
    match take_while cs_char r with [] => None | run => Some (skipn (length run) r) end
  else None.
Definition eat_base64 (t : str) : option str := if starts_with s_base64 t then Some (skipn 7 t) else None.
Definition after_params (s : str) : bool :=
  comma_rest s
  || match eat_charset s with
     | Some t => comma_rest t || match eat_base64 t with Some t2 => comma_rest t2 | None => false end
     | None => false
     end
  || match eat_base64 s with
     | Some t => comma_rest t || match eat_charset t with Some t2 => comma_rest t2 | None => false end
     | None => false
     end.
Definition data_content_type (path : str) : option str :=
  let a := take_while ct_char path in
  match a, skipn (length a) path with
  | _ :: _, 47 :: r =>
      let b := take_while ct_char r in
      match b with
      | _ :: _ => if after_params (skipn (length b) r) then Some (a ++ [47] ++ b) else None
      | [] => None
      end
  | _, _ => None
  end.

(* ---------- the URI gate: keep the attribute? (raises = urlparse raised ValueError: supplied by the harness) ---------- *)
Definition uri_kept (L : lists) (v : str) : bool :=
  let stripped := filter (fun c => negb (in_rng uri_strip_class c)) (unescape v) in
  let val := filter (fun c => negb (c =? 65533)) (py_lower stripped) in
  match url_scheme val with
  | (Some sch, rest) =>
      match sch with
      | [] => true
      | _ =>
          if negb (mem_str sch L.(l_protocols)) then false
          else if str_eqb sch [100;97;116;97] then
            match data_content_type (url_path rest) with
            | Some ct => mem_str ct L.(l_content_types)
            | None => false
            end
          else true
      end
  | (None, _) => true
  end.

(* ---------- re.sub(r'url\s*\(\s*[^#\s][^)]+?\)', ' ', s) ---------- *)
Definition re_space (c : N) : bool := in_rng re_space_class c.
(* does the pattern match at the head of s?  returns the rest after the match *)
Definition url_ref_match (s : str) : option str :=
  match s with
  | 117 :: 114 :: 108 :: r =>
      match drop_while re_space r with
      | 40 :: r1 =>
          match drop_while re_space r1 with
          | c :: r2 =>
              if (c =? 35) || re_space c then None
              else match take_while (fun x => negb (x =? 41)) r2 with
                   | [] => None
                   | run => match skipn (length run) r2 with 41 :: r3 => Some r3 | _ => None end
                   end
          | [] => None
          end
      | _ => None
      end
  | _ => None
  end.
Fixpoint strip_url_refs (fuel : nat) (s : str) : str :=
  match fuel with
  | O => s
  | S f => match s with
           | [] => []
           | c :: r => match url_ref_match s with
                       | Some rest => 32 :: strip_url_refs f rest
                       | None => c :: strip_url_refs f r
                       end
           end
  end.
Definition svg_ref_value (v : str) : str := let u := unescape v in strip_url_refs (S (length u)) u.

(* ---------- tokens ---------- *)
Section San.
  Variable L : lists.
  Variable css : str -> str.                      (* sanitize_css: not modelled *)

  Definition element_allowed (ns : option str) (name : str) : bool :=
    mem_key (ns, name) L.(l_elements) ||
    (match ns with None => mem_key (Some Sax.html_ns, name) L.(l_elements) | Some _ => false end).

  Definition style_key : akey := (None, [115;116;121;108;101]).

  Definition san_attrs (a : attrs) : attrs :=
    let a1 := filter (fun kv => mem_key (fst kv) L.(l_attributes)) a in
    let a2 := filter (fun kv => negb (mem_key (fst kv) L.(l_uri_attrs)) || uri_kept L (snd kv)) a1 in
    let a3 := map (fun kv => if mem_key (fst kv) L.(l_ref_attrs) then (fst kv, svg_ref_value (snd kv)) else kv) a2 in
    map (fun kv => if akey_eqb (fst kv) style_key then (fst kv, css (snd kv)) else kv) a3.

  Definition prefix_of (ns : str) : str :=
    match find (fun e => str_eqb (fst e) ns) prefixes with Some e => snd e | None => [] end.
  Definition render_attr (kv : attr) : str :=
    let '((ns, name), v) := kv in
    [32] ++ (match ns with None => name | Some n => prefix_of n ++ [58] ++ name end) ++ [61; 34] ++ escape v ++ [34].

  (* disallowed_token: the tag as text.  selfClosing is not part of walker tokens (token.get returns None) *)
  Definition disallowed (t : token) : token :=
    match t with
    | TEnd _ name => TChars ([60; 47] ++ name ++ [62])
    | TStart _ name a | TEmpty _ name a => TChars ([60] ++ name ++ flat_map render_attr a ++ [62])
    | other => other
    end.

  Definition sanitize (t : token) : option token :=
    match t with
    | TStart ns name a => Some (if element_allowed ns name then TStart ns name (san_attrs a) else disallowed t)
    | TEmpty ns name a => Some (if element_allowed ns name then TEmpty ns name (san_attrs a) else disallowed t)
    | TEnd ns name => Some (if element_allowed ns name then t else disallowed t)
    | TComment _ => None
    | other => Some other
    end.

  Definition San (ts : list token) : list token := flat_map (fun t => match sanitize t with Some x => [x] | None => [] end) ts.
End San.

Definition dec_lists (x : sx) : lists :=
  let keys i := map dec_akey (as_list (nth_sx i x)) in
  let strs i := map as_str (as_list (nth_sx i x)) in
  {| l_elements := keys 0%nat; l_attributes := keys 1%nat; l_protocols := strs 2%nat; l_content_types := strs 3%nat;
     l_uri_attrs := keys 4%nat; l_ref_attrs := keys 5%nat |}.

(* urlparse raises ValueError for malformed bracketed hosts and some non-ASCII authorities (NFKC check):
   not modelled -- such values are outside the modelled domain *)
Definition uri_outside (v : str) : bool :=
  existsb (fun c => (c =? 91) || (c =? 93)) v || (contains [47; 47] v && existsb (fun c => 128 <=? c) v).
Definition tok_outside (L : lists) (t : token) : bool :=
  match t with
  | TStart _ _ a | TEmpty _ _ a => existsb (fun kv => mem_key (fst kv) L.(l_uri_attrs) && uri_outside (snd kv)) a
  | _ => false
  end.
Definition outside_marker : sx := L [A 4242424242].

Definition run_c09 (x : sx) : sx :=
  let arg := nth_sx 1 x in
  match as_N (nth_sx 0 x) with
  | 0 => if existsb (tok_outside default_lists) (dec_tokens arg) then outside_marker
         else enc_tokens (San default_lists (fun s => s) (dec_tokens arg))
  | 1 => if existsb (tok_outside (dec_lists (nth_sx 2 x))) (dec_tokens arg) then outside_marker
         else enc_tokens (San (dec_lists (nth_sx 2 x)) (fun s => s) (dec_tokens arg))
  | 2 => of_bool (uri_kept default_lists (as_str arg))
  | 3 => of_str (svg_ref_value (as_str arg))
  | 4 => let '(s, r) := url_scheme (as_str arg) in L [of_opt of_str s; of_str r]
  | _ => of_opt of_str (data_content_type (as_str arg))
  end.
