(* C04 -- the two tree-builder back ends as stores of nodes driven by the parser's node primitives.
   E: treebuilders/etree.py (ElementTree: .text/.tail, real child list, and the wrapper's shadow list
   _childNodes);  D: treebuilders/dom.py (minidom: text nodes are children).  Hand-modelled, hash-pinned. *)
From Coq Require Import NArith List Bool Arith.
From Verif Require Import Sx Str Tok Tree.
Import ListNotations.
Local Open Scope N_scope.

Inductive kind :=
| KElem (ns : option str) (name : str) (a : attrs)
| KComm (data : str)
| KDoct (name pub sys : option str)
| KRoot.                                         (* Document / DocumentFragment *)

Inductive outcome := Ok | ValueErr | TypeErr | Obs (b : bool).

Definition upd {T} (i : nat) (f : T -> T) (l : list T) : list T :=
  (fix go (i : nat) (l : list T) : list T :=
     match l with
     | [] => []
     | x :: r => match i with O => f x :: r | S i' => x :: go i' r end
     end) i l.

Fixpoint index_of (x : nat) (l : list nat) : option nat :=
  match l with
  | [] => None
  | y :: r => if Nat.eqb x y then Some O else option_map S (index_of x r)
  end.
Fixpoint insert_at {T} (i : nat) (x : T) (l : list T) : list T :=
  match i, l with
  | O, _ => x :: l
  | S i', y :: r => y :: insert_at i' x r
  | S _, [] => [x]
  end.
Fixpoint remove_first (x : nat) (l : list nat) : list nat :=
  match l with [] => [] | y :: r => if Nat.eqb x y then r else y :: remove_first x r end.

Definition oapp (o : option str) (s : str) : str := match o with Some t => t ++ s | None => s end.
Definition falsy (o : option str) : bool := match o with Some (_ :: _) => false | _ => true end.

(* ======================= E: ElementTree back end ======================= *)
Record erec := { ek : kind; etext : option str; ekids : list nat; etail : option str; eshadow : list nat;
                 eparent : option nat }.
Definition enew (k : kind) : erec :=
  {| ek := k; etext := None; ekids := []; etail := None; eshadow := []; eparent := None |}.
Definition estore := list erec.
Definition eget (s : estore) (i : nat) : erec := nth i s (enew KRoot).

Definition e_set_parent (c : nat) (p : option nat) (s : estore) : estore :=
  upd c (fun r => {| ek := ek r; etext := etext r; ekids := ekids r; etail := etail r; eshadow := eshadow r; eparent := p |}) s.
Definition e_set_kids (p : nat) (kids shadow : list nat) (s : estore) : estore :=
  upd p (fun r => {| ek := ek r; etext := etext r; ekids := kids; etail := etail r; eshadow := shadow; eparent := eparent r |}) s.
Definition e_set_text (p : nat) (t : option str) (s : estore) : estore :=
  upd p (fun r => {| ek := ek r; etext := t; ekids := ekids r; etail := etail r; eshadow := eshadow r; eparent := eparent r |}) s.
Definition e_set_tail (p : nat) (t : option str) (s : estore) : estore :=
  upd p (fun r => {| ek := ek r; etext := etext r; ekids := ekids r; etail := t; eshadow := eshadow r; eparent := eparent r |}) s.

Definition e_append (p c : nat) (s : estore) : estore :=
  let r := eget s p in
  e_set_parent c (Some p) (e_set_kids p (ekids r ++ [c]) (eshadow r ++ [c]) s).

Definition e_insert_before (p n ref : nat) (s : estore) : estore * outcome :=
  let r := eget s p in
  match index_of ref (ekids r) with
  | None => (s, ValueErr)
  | Some i => (e_set_parent n (Some p) (e_set_kids p (insert_at i n (ekids r)) (insert_at i n (eshadow r)) s), Ok)
  end.

Definition e_remove (p n : nat) (s : estore) : estore * outcome :=
  let r := eget s p in
  match index_of n (eshadow r) with
  | None => (s, ValueErr)
  | Some _ =>
      match index_of n (ekids r) with
      | None => (e_set_kids p (ekids r) (remove_first n (eshadow r)) s, ValueErr)
      | Some _ => (e_set_parent n None (e_set_kids p (remove_first n (ekids r)) (remove_first n (eshadow r)) s), Ok)
      end
  end.

(* text += data after "if not text: text = ''" *)
Definition add_text (o : option str) (d : str) : option str := Some ((if falsy o then [] else oapp o []) ++ d).

Definition e_insert_text (p : nat) (d : str) (before : option nat) (s : estore) : estore * outcome :=
  let r := eget s p in
  match ekids r with
  | [] => (e_set_text p (add_text (etext r) d) s, Ok)
  | _ =>
      match before with
      | None => let l := last (ekids r) O in (e_set_tail l (add_text (etail (eget s l)) d) s, Ok)
      | Some ref =>
          match index_of ref (ekids r) with
          | None => (s, ValueErr)
          | Some O => (e_set_text p (add_text (etext r) d) s, Ok)
          | Some (S i) => let l := nth i (ekids r) O in (e_set_tail l (add_text (etail (eget s l)) d) s, Ok)
          end
      end
  end.

Definition e_reparent (src dst : nat) (s : estore) : estore * outcome :=
  let rs := eget s src in
  let rd := eget s dst in
  let step1 : option estore :=
    match eshadow rd with
    | _ :: _ =>
        let l := last (eshadow rd) O in
        match etail (eget s l), etext rs with
        | Some t, Some x => Some (e_set_tail l (Some (t ++ x)) s)
        | _, _ => None                                  (* None += str / str += None *)
        end
    | [] =>
        let t0 := if falsy (etext rd) then Some [] else etext rd in
        Some (e_set_text dst (match etext rs with Some x => Some (oapp t0 x) | None => t0 end) s)
    end in
  match step1 with
  | None => (s, TypeErr)
  | Some s1 =>
      let s2 := e_set_text src (Some []) s1 in
      let s3 := fold_left (fun st c => e_append dst c st) (eshadow rs) s2 in
      (e_set_kids src [] [] s3, Ok)
  end.

Definition e_clone (src : nat) (s : estore) : estore :=
  s ++ [enew (match ek (eget s src) with KElem ns n a => KElem ns n a | k => k end)].

Definition e_has_content (n : nat) (s : estore) : bool :=
  let r := eget s n in negb (falsy (etext r)) || negb (Nat.eqb (length (ekids r)) 0).

(* ======================= D: minidom back end ======================= *)
Inductive dchild := DT (s : str) | DN (i : nat).
Record drec := { dk : kind; dkids : list dchild; dpdom : option nat; dparent : option nat }.
Definition dnew (k : kind) : drec := {| dk := k; dkids := []; dpdom := None; dparent := None |}.
Definition dstore := list drec.
Definition dget (s : dstore) (i : nat) : drec := nth i s (dnew KRoot).

Definition is_dn (x : nat) (c : dchild) : bool := match c with DN i => Nat.eqb i x | DT _ => false end.
Fixpoint d_index (x : nat) (l : list dchild) : option nat :=
  match l with [] => None | c :: r => if is_dn x c then Some O else option_map S (d_index x r) end.
Fixpoint d_remove (x : nat) (l : list dchild) : list dchild :=
  match l with [] => [] | c :: r => if is_dn x c then r else c :: d_remove x r end.

Definition d_set_kids (p : nat) (k : list dchild) (s : dstore) : dstore :=
  upd p (fun r => {| dk := dk r; dkids := k; dpdom := dpdom r; dparent := dparent r |}) s.
Definition d_set_pdom (c : nat) (p : option nat) (s : dstore) : dstore :=
  upd c (fun r => {| dk := dk r; dkids := dkids r; dpdom := p; dparent := dparent r |}) s.
Definition d_set_parent (c : nat) (p : option nat) (s : dstore) : dstore :=
  upd c (fun r => {| dk := dk r; dkids := dkids r; dpdom := dpdom r; dparent := p |}) s.

(* minidom: a node that already has a parent is removed from it first *)
Definition d_detach (c : nat) (s : dstore) : dstore :=
  match dpdom (dget s c) with
  | Some q => d_set_pdom c None (d_set_kids q (d_remove c (dkids (dget s q))) s)
  | None => s
  end.

Definition d_dom_append (p c : nat) (s : dstore) : dstore :=
  let s1 := d_detach c s in
  d_set_pdom c (Some p) (d_set_kids p (dkids (dget s1 p) ++ [DN c]) s1).

Definition d_append (p c : nat) (s : dstore) : dstore := d_dom_append p c (d_set_parent c (Some p) s).

Definition d_insert_before (p n ref : nat) (s : dstore) : dstore * outcome :=
  let s1 := d_detach n s in
  match d_index ref (dkids (dget s1 p)) with
  | None => (s1, ValueErr)
  | Some i => (d_set_parent n (Some p) (d_set_pdom n (Some p) (d_set_kids p (insert_at i (DN n) (dkids (dget s1 p))) s1)), Ok)
  end.

Definition d_remove_child (p n : nat) (s : dstore) : dstore :=
  let s1 := match dpdom (dget s n) with
            | Some q => if Nat.eqb q p then d_detach n s else s
            | None => s
            end in
  d_set_parent n None s1.

Definition d_insert_text (p : nat) (d : str) (before : option nat) (s : dstore) : dstore * outcome :=
  match before with
  | None => (d_set_kids p (dkids (dget s p) ++ [DT d]) s, Ok)
  | Some ref =>
      match d_index ref (dkids (dget s p)) with
      | None => (s, ValueErr)
      | Some i => (d_set_kids p (insert_at i (DT d) (dkids (dget s p))) s, Ok)
      end
  end.

Definition d_reparent (src dst : nat) (s : dstore) : dstore :=
  let moved := dkids (dget s src) in
  let s1 := d_set_kids src [] s in
  let s2 := d_set_kids dst (dkids (dget s1 dst) ++ moved) s1 in
  fold_left (fun st c => match c with DN i => d_set_pdom i (Some dst) st | DT _ => st end) moved s2.

Definition d_clone (src : nat) (s : dstore) : dstore := s ++ [dnew (dk (dget s src))].
Definition d_has_content (n : nat) (s : dstore) : bool := negb (Nat.eqb (length (dkids (dget s n))) 0).

(* ======================= abstraction to forests ======================= *)
Definition opt_text (o : option str) : list node := match o with Some (c :: r) => [Text (c :: r)] | _ => [] end.

Fixpoint e_node (fuel : nat) (s : estore) (i : nat) : list node :=
  match fuel with
  | O => []
  | S f =>
      let r := eget s i in
      let kids := opt_text (etext r) ++ flat_map (fun k => e_node f s k ++ opt_text (etail (eget s k))) (ekids r) in
      match ek r with
      | KElem ns n a => [Elem ns n a kids]
      | KComm d => [Comm d]
      | KDoct n p sy => [Doct n p sy]
      | KRoot => kids
      end
  end.

Fixpoint d_node (fuel : nat) (s : dstore) (i : nat) : list node :=
  match fuel with
  | O => []
  | S f =>
      let r := dget s i in
      let kids := flat_map (fun c => match c with DT t => [Text t] | DN k => d_node f s k end) (dkids r) in
      match dk r with
      | KElem ns n a => [Elem ns n a kids]
      | KComm d => [Comm d]
      | KDoct n p sy => [Doct n p sy]
      | KRoot => kids
      end
  end.

(* merge adjacent text, drop empty text *)
Definition push_text (s : str) (cur : list node) : list node :=
  match s with
  | [] => cur
  | _ => match cur with Text t :: c => Text (t ++ s) :: c | _ => Text s :: cur end
  end.
Fixpoint cpush (cur : list node) (n : node) : list node :=
  match n with
  | Text s => push_text s cur
  | Elem ns nm a kids => Elem ns nm a (rev (fold_left cpush kids [])) :: cur
  | other => other :: cur
  end.
Definition coalesce (kids : list node) : list node := rev (fold_left cpush kids []).

(* ======================= op sequences ======================= *)
Inductive op :=
| OCreate (k : kind)
| OAppend (p c : nat) | OInsertBefore (p n ref : nat) | OInsertText (p : nat) (d : str) (before : option nat)
| ORemove (p n : nat) | OReparent (src dst : nat) | OClone (src : nat) | OHasContent (n : nat).

Definition e_step (s : estore) (o : op) : estore * outcome :=
  match o with
  | OCreate k => (s ++ [enew k], Ok)
  | OAppend p c => (e_append p c s, Ok)
  | OInsertBefore p n ref => e_insert_before p n ref s
  | OInsertText p d b => e_insert_text p d b s
  | ORemove p n => e_remove p n s
  | OReparent a b => e_reparent a b s
  | OClone a => (e_clone a s, Ok)
  | OHasContent n => (s, Obs (e_has_content n s))
  end.
Definition d_step (s : dstore) (o : op) : dstore * outcome :=
  match o with
  | OCreate k => (s ++ [dnew k], Ok)
  | OAppend p c => (d_append p c s, Ok)
  | OInsertBefore p n ref => d_insert_before p n ref s
  | OInsertText p d b => d_insert_text p d b s
  | ORemove p n => (d_remove_child p n s, Ok)
  | OReparent a b => (d_reparent a b s, Ok)
  | OClone a => (d_clone a s, Ok)
  | OHasContent n => (s, Obs (d_has_content n s))
  end.

Definition is_err (o : outcome) : bool := match o with ValueErr | TypeErr => true | _ => false end.

Fixpoint run_ops {S} (step : S -> op -> S * outcome) (s : S) (ops : list op) : S * list outcome :=
  match ops with
  | [] => (s, [])
  | o :: r => let '(s1, out) := step s o in
              if is_err out then (s1, [out])
              else let '(s2, outs) := run_ops step s1 r in (s2, out :: outs)
  end.

Fixpoint nat_list_eqb (a b : list nat) : bool :=
  match a, b with
  | [], [] => true
  | x :: a', y :: b' => Nat.eqb x y && nat_list_eqb a' b'
  | _, _ => false
  end.

(* ---- wire ---- *)
Definition dec_kind (x : sx) : kind :=
  match as_N (nth_sx 0 x) with
  | 0 => KElem (as_opt as_str (nth_sx 1 x)) (as_str (nth_sx 2 x)) (dec_attrs (nth_sx 3 x))
  | 1 => KComm (as_str (nth_sx 1 x))
  | 2 => KDoct (as_opt as_str (nth_sx 1 x)) (as_opt as_str (nth_sx 2 x)) (as_opt as_str (nth_sx 3 x))
  | _ => KRoot
  end.
Definition nn (i : nat) (x : sx) : nat := N.to_nat (as_N (nth_sx i x)).
Definition dec_op (x : sx) : op :=
  match as_N (nth_sx 0 x) with
  | 0 => OCreate (dec_kind (nth_sx 1 x))
  | 1 => OAppend (nn 1 x) (nn 2 x)
  | 2 => OInsertBefore (nn 1 x) (nn 2 x) (nn 3 x)
  | 3 => OInsertText (nn 1 x) (as_str (nth_sx 2 x)) (as_opt (fun y => N.to_nat (as_N y)) (nth_sx 3 x))
  | 4 => ORemove (nn 1 x) (nn 2 x)
  | 5 => OReparent (nn 1 x) (nn 2 x)
  | 6 => OClone (nn 1 x)
  | _ => OHasContent (nn 1 x)
  end.
Definition enc_outcome (o : outcome) : sx :=
  match o with Ok => A 0 | ValueErr => A 1 | TypeErr => A 2 | Obs b => L [of_bool b] end.
Definition enc_onat (o : option nat) : sx := of_opt of_nat o.

Definition run_c04 (x : sx) : sx :=
  let ops := map dec_op (as_list (nth_sx 1 x)) in
  let root := nn 2 x in
  match as_N (nth_sx 0 x) with
  | 0 => let '(s, outs) := run_ops e_step [] ops in
         L [of_list enc_outcome outs; of_list enc_node (e_node 200 s root);
            of_list (fun r => enc_onat (eparent r)) s;
            of_bool (forallb (fun r => nat_list_eqb (ekids r) (eshadow r)) s)]
  | _ => let '(s, outs) := run_ops d_step [] ops in
         L [of_list enc_outcome outs; of_list enc_node (coalesce (d_node 200 s root));
            of_list (fun r => enc_onat (dparent r)) s; of_bool true]
  end.
