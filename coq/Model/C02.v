(* C02 -- the tokenizer model: the main loop of HTMLTokenizer.__iter__ over the generated state functions
   (Gen/Tokenizer.v) and the hand-modelled ones (Model/TokHand.v), and the wire format of its runs. *)
From Coq Require Import NArith List Bool Arith.
From Verif Require Import Sx Str.
From Verif.Model Require Import CharRef TokBase TokHand.
From Verif.Gen Require Import Tokenizer.
From Verif.Spec Require Import TokSpec.
Import ListNotations.
Local Open Scope N_scope.

(* while self.state(): drain the queue *)
Fixpoint run_loop (fuel : nat) (k : tk) : option tk :=
  match fuel with
  | O => None
  | S f => let '(k', cont) := step k in if cont then run_loop f k' else Some k'
  end.

Definition init_tk (s : tstate) (c : ctok) (t : str) (cdata : bool) (i : str) : tk :=
  mk_tk s i c t [] cdata false.

(* more than enough: see tok_terminates in Proofs/C02.v *)
Definition fuel_for (i : str) : nat := (4 * length i + 8)%nat.

Definition tokenize (s : tstate) (c : ctok) (t : str) (cdata : bool) (i : str) : option tk :=
  run_loop (fuel_for i) (init_tk s c t cdata i).
Definition sp_tokenize (s : tstate) (c : ctok) (t : str) (cdata : bool) (i : str) : option tk :=
  sp_run (fuel_for i) (init_tk s c t cdata i).

(* ---- wire ---- *)
Definition enc_pairs (a : pairs) : sx := of_list (fun kv => L [of_str (fst kv); of_str (snd kv)]) a.
Definition enc_b (b : bool) : sx := A (if b then 1 else 0).
Definition enc_otok (t : otok) : sx :=
  match t with
  | OErr c => L [A 0; of_str c]
  | OChars s => L [A 1; of_str s]
  | OSpace s => L [A 2; of_str s]
  | OStart n a sc => L [A 3; of_str n; enc_pairs a; enc_b sc]
  | OEnd n a sc => L [A 4; of_str n; enc_pairs a; enc_b sc]
  | OComment s => L [A 5; of_str s]
  | ODoctype n p s c => L [A 6; of_str n; of_opt of_str p; of_opt of_str s; enc_b c]
  | ONone => L [A 7]
  end.

Definition outside : sx := L [A 4242424242].

(* what the property compares: parse errors dropped, character tokens split into single characters (so that
   adjacent ones compare after concatenation), end tags reduced to their name *)
Definition flat_tok (t : otok) : list otok :=
  match t with
  | OErr _ => []
  | OChars s => map (fun c => OChars [c]) s
  | OSpace s => map (fun c => OChars [c]) s
  | OEnd n _ _ => [OEnd n [] false]
  | t => [t]
  end.
Definition flat (l : list otok) : list otok := flat_map flat_tok l.
(* for the wire only: adjacent single characters joined again *)
Fixpoint coalesce (l : list otok) : list otok :=
  match l with
  | OChars a :: r => match coalesce r with
                     | OChars b :: r' => OChars (a ++ b) :: r'
                     | r' => OChars a :: r'
                     end
  | t :: r => t :: coalesce r
  | [] => []
  end.

Definition dec_pairs (x : sx) : pairs := map (fun p => (as_str (nth_sx 0 p), as_str (nth_sx 1 p))) (as_list x).
Definition dec_b (x : sx) : bool := negb (as_N x =? 0).
Definition dec_cur (x : sx) : ctok :=
  match as_list x with
  | [] => CNone
  | _ => match as_N (nth_sx 0 x) with
         | 0 => CTag (dec_b (nth_sx 1 x)) (as_str (nth_sx 2 x)) (dec_pairs (nth_sx 3 x)) (dec_b (nth_sx 4 x))
         | 1 => CComment (as_str (nth_sx 1 x))
         | _ => CDoctype (as_str (nth_sx 1 x)) (as_opt as_str (nth_sx 2 x)) (as_opt as_str (nth_sx 3 x))
                         (dec_b (nth_sx 4 x))
         end
  end.

Definition enc_result (flatten : bool) (r : option tk) : sx :=
  match r with
  | None => L [A 9999]
  | Some k => if bad k then L [A 1; L []]
              else L [A 0; of_list enc_otok (if flatten then coalesce (flat (rev (out k))) else rev (out k))]
  end.

(* input: (mode, state index in impl_states, current token, cdata allowed, characters, temporary buffer)
   mode 0: the model's run, token for token (errors included); 1: S_tok's run, flattened;
   2: the model's run, flattened *)
Definition run_c02 (x : sx) : sx :=
  let mode := as_N (nth_sx 0 x) in
  let s := nth (N.to_nat (as_N (nth_sx 1 x))) impl_states dataState in
  let c := dec_cur (nth_sx 2 x) in
  let cd := dec_b (nth_sx 3 x) in
  let i := as_str (nth_sx 4 x) in
  let t := as_str (nth_sx 5 x) in
  if mode =? 0 then enc_result false (tokenize s c t cd i)
  else if mode =? 1 then enc_result true (sp_tokenize s c t cd i)
  else enc_result true (tokenize s c t cd i).
