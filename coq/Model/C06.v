(* C06 -- encoding determination: lookupEncoding, detectBOM, the precedence chain of determineEncoding and the
   meta prescan mini-parser (EncodingBytes / EncodingParser / ContentAttrParser) with StopIteration as an
   explicit outcome.  Label table and the order of the sources from the translator; the rest hand-modelled. *)
From Coq Require Import NArith List Bool Arith.
From Verif Require Import Sx Str Tok.
From Verif.Gen Require Import Encodings.
Import ListNotations.
Local Open Scope N_scope.

(* ---------- lookupEncoding ---------- *)
Definition is_label_ws (c : N) : bool := (c =? 9) || (c =? 10) || (c =? 12) || (c =? 13) || (c =? 32).
Definition lookup (label : str) : option str :=
  if forallb (fun c => c <? 128) label then
    let l := lower_str (strip is_label_ws label) in
    option_map snd (find (fun e => str_eqb (fst e) l) LABELS)
  else None.
Definition lookup_opt (o : option str) : option str := match o with Some l => lookup l | None => None end.

Definition utf8 : str := [117;116;102;45;56].
Definition utf16le : str := [117;116;102;45;49;54;108;101].
Definition utf16be : str := [117;116;102;45;49;54;98;101].
Definition win1252 : str := [119;105;110;100;111;119;115;45;49;50;53;50].
Definition is_utf16 (n : str) : bool := starts_with [117;116;102;45;49;54] n.

(* ---------- detectBOM on the first (at most) four bytes ---------- *)
Definition detect_bom (b : str) : option str :=
  match b with
  | 239 :: 187 :: 191 :: _ => lookup utf8
  | 255 :: 254 :: _ => lookup utf16le
  | 254 :: 255 :: _ => lookup utf16be
  | _ => None
  end.

(* ---------- the prescan ---------- *)
Section Prescan.
  Variable d : str.                       (* already lower-cased: EncodingBytes.__new__ *)
  Definition len : nat := length d.
  Definition byte (p : nat) : N := nth p d 0.
  Definition R (T : Type) : Type := option (T * nat).     (* None = StopIteration *)

  Definition getpos (p : nat) : option nat := if Nat.leb len p then None else Some p.
  Definition nextb (p : nat) : R N := if Nat.leb len (S p) then None else Some (byte (S p), S p).
  Definition prevb (p : nat) : option nat := if Nat.leb len p then None else Some (pred p).

  Fixpoint scan (f : N -> bool) (fuel : nat) (q : nat) : option N * nat :=
    match fuel with
    | O => (None, q)
    | S k => if Nat.leb len q then (None, len) else if f (byte q) then (Some (byte q), q) else scan f k (S q)
    end.
  (* skip(chars): first byte NOT in chars;  skipUntil(chars): first byte in chars *)
  Definition skip (inset : N -> bool) (p : nat) : R (option N) :=
    match getpos p with None => None | Some _ => Some (scan (fun c => negb (inset c)) (S len) p) end.
  Definition skip_until (inset : N -> bool) (p : nat) : R (option N) :=
    match getpos p with None => None | Some _ => Some (scan inset (S len) p) end.

  Definition match_bytes (b : str) (p : nat) : R bool :=
    match getpos p with
    | None => None
    | Some _ => if starts_with b (skipn p d) then Some (true, (p + length b)%nat) else Some (false, p)
    end.

  Fixpoint find_from (b : str) (fuel : nat) (q : nat) : option nat :=
    match fuel with
    | O => None
    | S k => if Nat.ltb len (q + length b) then None
             else if starts_with b (skipn q d) then Some q else find_from b k (S q)
    end.
  Definition jump_to (b : str) (p : nat) : R unit :=
    match getpos p with
    | None => None
    | Some _ => match find_from b (S len) p with
                | Some i => Some (tt, (i + length b - 1)%nat)
                | None => None
                end
    end.
  Definition current (p : nat) : option N := match getpos p with Some _ => Some (byte p) | None => None end.
End Prescan.

Definition is_sp (c : N) : bool := is_space c.
Definition is_sp_or_slash (c : N) : bool := is_space c || (c =? 47).
Definition is_sp_angle (c : N) : bool := is_space c || (c =? 62) || (c =? 60).

(* ContentAttrParser.parse on the (lower-cased) attribute value.  The search for "charset" followed by "=" loops
   and an unquoted value ends at ";" as well (both repaired in /repo) *)
Definition is_sp_or_semi (c : N) : bool := is_space c || (c =? 59).
Fixpoint content_find (fuel : nat) (v : str) (from : nat) : option nat :=       (* the position of the "=" *)
  match fuel with
  | O => None
  | S k =>
      match find_from v [99;104;97;114;115;101;116] (S (length v)) from with
      | None => None
      | Some i =>
          match skip v is_sp (i + 7)%nat with                   (* position += 1 after jumpTo *)
          | None => None
          | Some (_, p1) =>
              match current v p1 with
              | Some c => if c =? 61 then Some p1 else content_find k v p1
              | None => None
              end
          end
      end
  end.
Definition content_charset (v : str) : option str :=
  match content_find (S (length v)) v 0 with
  | None => None
  | Some p1 =>
              match skip v is_sp (S p1) with
              | None => None
              | Some (_, p2) =>
                  match current v p2 with
                  | None => None
                  | Some q =>
                      if (q =? 34) || (q =? 39) then
                        match getpos v (S p2) with
                        | None => None
                        | Some old => match find_from v [q] (S (length v)) old with
                                      | Some j => Some (firstn (j - old) (skipn old v))
                                      | None => None
                                      end
                        end
                      else
                        match scan v is_sp_or_semi (S (length v)) p2 with
                        | (Some _, j) => Some (firstn (j - p2) (skipn p2 v))
                        | (None, _) => Some (skipn p2 v)
                        end
                  end
              end
  end.

Section Parser.
  Variable d : str.

  (* getAttribute: Some (Some (name, value)) | Some None (no more attributes) | None (StopIteration) *)
  Fixpoint attr_value_unquoted (fuel : nat) (p : nat) (name acc : str) : R (option (str * str)) :=
    match fuel with
    | O => None
    | S k => match nextb d p with
             | None => None
             | Some (c, p1) => if is_sp_angle c then Some (Some (name, rev acc), p1)
                               else attr_value_unquoted k p1 name (ascii_lower c :: acc)
             end
    end.
  Fixpoint attr_value_quoted (fuel : nat) (q : N) (p : nat) (name acc : str) : R (option (str * str)) :=
    match fuel with
    | O => None
    | S k => match nextb d p with
             | None => None
             | Some (c, p1) =>
                 if c =? q then match nextb d p1 with
                                | None => None
                                | Some (_, p2) => Some (Some (name, rev acc), p2)
                                end
                 else attr_value_quoted k q p1 name (ascii_lower c :: acc)
             end
    end.
  (* step 4: the attribute name; returns (name, c after the name, position) or a finished attribute *)
  Fixpoint attr_name (fuel : nat) (c : N) (p : nat) (acc : str) : R (str * option N + option (str * str)) :=
    match fuel with
    | O => None
    | S k =>
        if (c =? 61) && negb (match acc with [] => true | _ => false end) then Some (inl (rev acc, Some c), p)
        else if is_space c then
          match skip d is_sp p with
          | None => None
          | Some (c1, p1) => Some (inl (rev acc, c1), p1)
          end
        else if (c =? 47) || (c =? 62) then Some (inr (Some (rev acc, [])), p)
        else match nextb d p with
             | None => None
             | Some (c1, p1) => attr_name k c1 p1 (ascii_lower c :: acc)
             end
    end.

  Definition get_attribute (p : nat) : R (option (str * str)) :=
    match skip d is_sp_or_slash p with
    | None => None
    | Some (None, p1) => Some (None, p1)
    | Some (Some c, p1) =>
        if c =? 62 then Some (None, p1)
        else
          match attr_name (S (len d)) c p1 [] with
          | None => None
          | Some (inr r, p2) => Some (r, p2)
          | Some (inl (name, c2), p2) =>
              match c2 with
              | Some 61 =>
                  match nextb d p2 with
                  | None => None
                  | Some (_, p3) =>
                      match skip d is_sp p3 with
                      | None => None
                      | Some (None, p4) => Some (None, p4)
                      | Some (Some c4, p4) =>
                          if (c4 =? 39) || (c4 =? 34) then attr_value_quoted (S (len d)) c4 p4 name []
                          else if c4 =? 62 then Some (Some (name, []), p4)
                          else attr_value_unquoted (S (len d)) p4 name [ascii_lower c4]
                      end
                  end
              | _ => match prevb d p2 with
                     | None => None
                     | Some p3 => Some (Some (name, []), p3)
                     end
              end
          end
    end.

  Definition s_http_equiv : str := [104;116;116;112;45;101;113;117;105;118].
  Definition s_content_type : str := [99;111;110;116;101;110;116;45;116;121;112;101].
  Definition s_charset : str := [99;104;97;114;115;101;116].
  Definition s_content : str := [99;111;110;116;101;110;116].

  (* handleMeta's attribute loop: inl enc = found (return False), inr p = keep going (return True) *)
  Fixpoint meta_attrs (fuel : nat) (p : nat) (pragma : bool) (pending : option str) : option (str + nat) :=
    match fuel with
    | O => None
    | S k =>
        match get_attribute p with
        | None => None
        | Some (None, p1) => Some (inr p1)
        | Some (Some (n, v), p1) =>
            if str_eqb n s_http_equiv then
              let pr := str_eqb v s_content_type in
              match pr, pending with
              | true, Some e => Some (inl e)
              | _, _ => meta_attrs k p1 pr pending
              end
            else if str_eqb n s_charset then
              match lookup v with Some e => Some (inl e) | None => meta_attrs k p1 pragma pending end
            else if str_eqb n s_content then
              match content_charset (lower_str v) with
              | Some t => match lookup t with
                          | Some e => if pragma then Some (inl e) else meta_attrs k p1 pragma (Some e)
                          | None => meta_attrs k p1 pragma pending
                          end
              | None => meta_attrs k p1 pragma pending
              end
            else meta_attrs k p1 pragma pending
        end
    end.

  Fixpoint all_attrs (fuel : nat) (p : nat) : option nat :=
    match fuel with
    | O => None
    | S k => match get_attribute p with
             | None => None
             | Some (None, p1) => Some p1
             | Some (Some _, p1) => all_attrs k p1
             end
    end.

  Definition handle_other (p : nat) : option nat := option_map snd (jump_to d [62] p).

  Definition handle_tag (endTag : bool) (p : nat) : option nat :=
    match current d p with
    | None => None
    | Some c =>
        if negb (is_alpha c) then
          if endTag then match prevb d p with Some p1 => (match handle_other p1 with Some p2 => Some p2 | None => None end) | None => None end
          else Some p
        else
          match skip_until d is_sp_angle p with
          | None => None
          | Some (Some 60, p1) => prevb d p1
          | Some (_, p1) => all_attrs (S (len d)) p1
          end
    end.

  (* one dispatch after "<": inl enc = stop with this encoding; inr (Some p) = continue; inr None = stop without *)
  Definition dispatch (p : nat) : str + option nat :=
    let try_ (k : str) := match match_bytes d k p with Some (true, p1) => Some p1 | _ => None end in
    match try_ [60;33;45;45] with
    | Some p1 => inr (option_map snd (jump_to d [45;45;62] p1))
    | None =>
    match try_ [60;109;101;116;97] with
    | Some p1 =>
        match current d p1 with
        | None => inr None
        | Some c => if negb (is_space c) && negb (c =? 47)
                    then inr (handle_tag false (p1 - 4))       (* some other tag name (repaired in /repo) *)
                    else match meta_attrs (S (len d)) p1 false None with
                         | None => inr None
                         | Some (inl e) => inl e
                         | Some (inr p2) => inr (Some p2)
                         end
        end
    | None =>
    match try_ [60;47] with
    | Some p1 => inr (match nextb d p1 with Some (_, p2) => handle_tag true p2 | None => None end)
    | None =>
    match try_ [60;33] with
    | Some p1 => inr (handle_other p1)
    | None =>
    match try_ [60;63] with
    | Some p1 => inr (handle_other p1)
    | None =>
    match try_ [60] with
    | Some p1 => inr (handle_tag false p1)
    | None => inr None
    end end end end end end.

  (* the main loop: for _ in self.data: jumpTo("<"); dispatch.  [start] = None before the first next() *)
  Fixpoint main_loop (fuel : nat) (p : option nat) : option str :=
    match fuel with
    | O => None
    | S k =>
        let np := match p with None => O | Some q => S q end in
        if Nat.leb (len d) np then None
        else match jump_to d [60] np with
             | None => None
             | Some (_, p1) => match dispatch p1 with
                               | inl e => Some e
                               | inr (Some p2) => main_loop k (Some p2)
                               | inr None => None
                               end
             end
    end.
End Parser.

Definition prescan (raw : str) : option str :=
  let d := lower_str raw in
  if contains [60;109;101;116;97] d then main_loop d (S (length d)) None else None.

(* detectEncodingMeta: the first numBytesMeta bytes; utf-16 means utf-8 *)
Definition detect_meta (raw : str) : option str :=
  match prescan (firstn (N.to_nat numBytesMeta) raw) with
  | Some e => if str_eqb e utf16le || str_eqb e utf16be then lookup utf8
              else if str_eqb e [120;45;117;115;101;114;45;100;101;102;105;110;101;100] then lookup win1252   (* x-user-defined *)
              else Some e
  | None => None
  end.

(* ---------- determineEncoding ---------- *)
Record args := { a_override : option str; a_transport : option str; a_parent : option str;
                 a_likely : option str; a_default : option str }.

Definition determine (bom : option str) (a : args) (meta : option str) : str * bool :=   (* (name, certain?) *)
  match bom with Some e => (e, true) | None =>
  match lookup_opt (a_override a) with Some e => (e, true) | None =>
  match lookup_opt (a_transport a) with Some e => (e, true) | None =>
  match meta with Some e => (e, false) | None =>
  match (match lookup_opt (a_parent a) with Some e => if is_utf16 e then None else Some e | None => None end) with
  | Some e => (e, false) | None =>
  match lookup_opt (a_likely a) with Some e => (e, false) | None =>
  match lookup_opt (a_default a) with Some e => (e, false) | None => (win1252, false)
  end end end end end end end.

Definition run_c06 (x : sx) : sx :=
  let arg := nth_sx 1 x in
  match as_N (nth_sx 0 x) with
  | 0 => of_opt of_str (prescan (as_str arg))
  | 1 => of_opt of_str (lookup (as_str arg))
  | 2 => of_opt of_str (content_charset (lower_str (as_str arg)))
  | _ => let raw := as_str arg in
         let o i := as_opt as_str (nth_sx i x) in
         let a := {| a_override := o 2%nat; a_transport := o 3%nat; a_parent := o 4%nat; a_likely := o 5%nat; a_default := o 6%nat |} in
         let '(e, c) := determine (detect_bom (firstn 4 raw)) a (detect_meta raw) in
         L [of_str e; of_bool c]
  end.
