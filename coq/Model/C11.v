(* C11 -- tree walkers.  NonRecursiveTreeWalker.__iter__ over (a) a zipper on abstract trees -- what the DOM
   walker's firstChild/nextSibling/parentNode give -- and (b) the (element, key, parents, flag) cursors of the
   ElementTree walker over the .text/.tail representation.  Lint filter.  Hand-modelled, hash-pinned. *)
From Coq Require Import NArith List Bool.
From Verif Require Import Sx Str Tok Tree.
From Verif.Gen Require Import Consts Sax.
Import ListNotations.
Local Open Scope N_scope.

Notation is_voidH := (is_void voidElements html_ns).

(* ================= (a) zipper cursor ================= *)
(* a frame: the parent's own data (None = document / fragment root), left siblings (reversed), right siblings *)
Definition pinfo : Type := option (option str * str * attrs).
Record frame := { f_info : pinfo; f_left : list node; f_right : list node }.
Definition loc : Type := node * list frame.

Definition rebuild_parent (fr : frame) (focus : node) : list node := rev (f_left fr) ++ focus :: f_right fr.

Definition z_first (z : loc) : option loc :=
  match fst z with
  | Elem ns name a (k :: ks) => Some (k, {| f_info := Some (ns, name, a); f_left := []; f_right := ks |} :: snd z)
  | _ => None
  end.
Definition z_next (z : loc) : option loc :=
  match snd z with
  | fr :: p => match f_right fr with
               | r :: rs => Some (r, {| f_info := f_info fr; f_left := fst z :: f_left fr; f_right := rs |} :: p)
               | [] => None
               end
  | [] => None
  end.
(* parent: Some (inl loc) = an element, Some (inr kids) = the document root *)
Definition z_parent (z : loc) : option (loc + list node) :=
  match snd z with
  | fr :: p => match f_info fr with
               | Some (ns, name, a) => Some (inl (Elem ns name a (rebuild_parent fr (fst z)), p))
               | None => Some (inr (rebuild_parent fr (fst z)))
               end
  | [] => None
  end.

Definition open_tokens (n : node) : list token * bool :=        (* tokens, hasChildren *)
  match n with
  | Elem ns name a kids =>
      if is_voidH ns name
      then (TEmpty ns name a :: (match kids with [] => [] | _ => [TSerErr void_msg] end), false)
      else ([TStart ns name a], match kids with [] => false | _ => true end)
  | Text s => (text_tokens s, false)
  | Comm s => ([TComment s], false)
  | Doct n p s => ([TDoctype n p s], false)
  end.
Definition close_tokens (n : node) : list token :=
  match n with
  | Elem ns name a _ => if is_voidH ns name then [] else [TEnd ns name]
  | _ => []
  end.

Inductive wstate := SOpen (z : loc) | SClose (z : loc) | SCloseDoc | SDone.

(* is_root: the walk started at this node (self.tree is currentNode) *)
Definition is_root (z : loc) : bool := match snd z with [] => true | _ => false end.

Fixpoint nrw (fuel : nat) (st : wstate) : option (list token) :=
  match fuel with
  | O => None
  | S f =>
      match st with
      | SDone => Some []
      | SCloseDoc => Some []                      (* DOCUMENT has no end tag and is the root: stop *)
      | SOpen z =>
          let '(toks, hasc) := open_tokens (fst z) in
          option_map (app toks)
            (match (if hasc then z_first z else None) with
             | Some c => nrw f (SOpen c)
             | None => nrw f (SClose z)
             end)
      | SClose z =>
          option_map (app (close_tokens (fst z)))
            (if is_root z then Some []
             else match z_next z with
                  | Some s => nrw f (SOpen s)
                  | None => match z_parent z with
                            | Some (inl p) => nrw f (SClose p)
                            | Some (inr _) => nrw f SCloseDoc
                            | None => Some []
                            end
                  end)
      end
  end.

(* walking from an element / a document *)
Definition walk_node_nrw (fuel : nat) (n : node) : option (list token) := nrw fuel (SOpen (n, [])).
Definition walk_doc_nrw (fuel : nat) (kids : list node) : option (list token) :=
  match kids with
  | [] => Some []
  | k :: ks => nrw fuel (SOpen (k, [{| f_info := None; f_left := []; f_right := ks |}]))
  end.

Fixpoint size (n : node) : nat :=
  match n with Elem _ _ _ kids => S (fold_right (fun k acc => size k + acc)%nat O kids) | _ => 1%nat end.
Definition fsize (kids : list node) : nat := fold_right (fun k acc => size k + acc)%nat O kids.

(* ================= (b) ElementTree representation and cursor ================= *)
(* an element: tag data, .text, children each with its .tail;  comments/doctype are elements with special tags *)
Inductive enode : Type :=
| EEl (ns : option str) (name : str) (a : attrs) (text : str) (kids : list (enode * str))
| ECo (data : str)
| EDo (name pub sys : option str).

(* abstract forest -> ElementTree representation (adjacent text concatenated, as ElementTree stores it) *)
Fixpoint toE (n : node) : enode :=
  match n with
  | Elem ns name a kids =>
      let '(t, ch) :=
        (fix go (kids : list node) : str * list (enode * str) :=
           match kids with
           | [] => ([], [])
           | k :: r =>
               let '(lead, ch) := go r in
               match k with
               | Text s => (s ++ lead, ch)
               | _ => ([], (toE k, lead) :: ch)
               end
           end) kids in
      EEl ns name a t ch
  | Text s => ECo s            (* unreachable: text never becomes an element *)
  | Comm s => ECo s
  | Doct n p s => EDo n p s
  end.

(* cursor = (element, key, parents, flag); the bare element is the walk root *)
Inductive eflag := FNone | FText | FTail.
Record ecur := { c_elt : enode; c_tail : str; c_key : nat; c_parents : list enode; c_flag : eflag; c_bare : bool }.

Definition e_kids (e : enode) : list (enode * str) := match e with EEl _ _ _ _ k => k | _ => [] end.
Definition e_text (e : enode) : str := match e with EEl _ _ _ t _ => t | _ => [] end.

Definition e_open (c : ecur) : list token * bool :=
  match c_flag c with
  | FText => (text_tokens (e_text (c_elt c)), false)
  | FTail => (text_tokens (c_tail c), false)
  | FNone =>
      match c_elt c with
      | EEl ns name a t k =>
          let hasc := negb (Nat.eqb (length k) 0) || negb (match t with [] => true | _ => false end) in
          if is_voidH ns name then (TEmpty ns name a :: (if hasc then [TSerErr void_msg] else []), false)
          else ([TStart ns name a], hasc)
      | ECo s => ([TComment s], false)
      | EDo n p s => ([TDoctype n p s], false)
      end
  end.
Definition e_close (c : ecur) : list token :=
  match c_flag c, c_elt c with
  | FNone, EEl ns name _ _ _ => if is_voidH ns name then [] else [TEnd ns name]
  | _, _ => []
  end.

Definition nth_kid (p : enode) (i : nat) : option (enode * str) := nth_error (e_kids p) i.

(* getParentNode.  The real code finds the parent's index with list.index (object identity/equality);
   the model carries positions instead: parents are stored with their own (key, tail).  To stay executable
   without identities, the cursor's parent stack is a stack of full cursors' data. *)
Record pframe := { p_elt : enode; p_tail : str; p_key : nat }.

(* ---- executable walker over the E representation, with a stack of parent frames ---- *)
Record ecur2 := { e2_elt : enode; e2_tail : str; e2_key : nat; e2_parents : list pframe; e2_flag : eflag; e2_bare : bool }.

Definition e2_open (c : ecur2) : list token * bool :=
  e_open {| c_elt := e2_elt c; c_tail := e2_tail c; c_key := e2_key c; c_parents := []; c_flag := e2_flag c; c_bare := e2_bare c |}.
Definition e2_close (c : ecur2) : list token :=
  e_close {| c_elt := e2_elt c; c_tail := e2_tail c; c_key := e2_key c; c_parents := []; c_flag := e2_flag c; c_bare := e2_bare c |}.

Definition e2_first (c : ecur2) : option ecur2 :=
  match e2_flag c with
  | FText | FTail => None
  | FNone =>
      match e_text (e2_elt c) with
      | _ :: _ => Some {| e2_elt := e2_elt c; e2_tail := e2_tail c; e2_key := e2_key c; e2_parents := e2_parents c;
                          e2_flag := FText; e2_bare := false |}
      | [] => match e_kids (e2_elt c) with
              | (k, tl) :: _ => Some {| e2_elt := k; e2_tail := tl; e2_key := 0;
                                        e2_parents := {| p_elt := e2_elt c; p_tail := e2_tail c; p_key := e2_key c |} :: e2_parents c;
                                        e2_flag := FNone; e2_bare := false |}
              | [] => None
              end
      end
  end.

Definition e2_next (c : ecur2) : option ecur2 :=
  if e2_bare c then None else
  match e2_flag c with
  | FText =>
      match e_kids (e2_elt c) with
      | (k, tl) :: _ => Some {| e2_elt := k; e2_tail := tl; e2_key := 0;
                                e2_parents := {| p_elt := e2_elt c; p_tail := e2_tail c; p_key := e2_key c |} :: e2_parents c;
                                e2_flag := FNone; e2_bare := false |}
      | [] => None
      end
  | fl =>
      match e2_tail c, fl with
      | _ :: _, FNone => Some {| e2_elt := e2_elt c; e2_tail := e2_tail c; e2_key := e2_key c;
                                 e2_parents := e2_parents c; e2_flag := FTail; e2_bare := false |}
      | _, _ =>
          match e2_parents c with
          | p :: _ => match nth_kid (p_elt p) (S (e2_key c)) with
                      | Some (k, tl) => Some {| e2_elt := k; e2_tail := tl; e2_key := S (e2_key c);
                                                e2_parents := e2_parents c; e2_flag := FNone; e2_bare := false |}
                      | None => None
                      end
          | [] => None
          end
      end
  end.

(* parent: text of an element -> the element itself; otherwise pop the parents stack.
   [root_depth]: the walk root is the bare element at the bottom of the stack *)
Definition e2_parent (c : ecur2) : option ecur2 :=
  match e2_flag c with
  | FText => Some {| e2_elt := e2_elt c; e2_tail := e2_tail c; e2_key := e2_key c; e2_parents := e2_parents c;
                     e2_flag := FNone; e2_bare := match e2_parents c with [] => true | _ => false end |}
  | _ => match e2_parents c with
         | p :: ps => Some {| e2_elt := p_elt p; e2_tail := p_tail p; e2_key := p_key p; e2_parents := ps;
                              e2_flag := FNone; e2_bare := match ps with [] => true | _ => false end |}
         | [] => None
         end
  end.

Inductive estate := EOpen (c : ecur2) | EClose (c : ecur2).

(* the document root (DOCUMENT_ROOT / DOCUMENT_FRAGMENT element) is an EEl whose own tokens are suppressed *)
Fixpoint enrw (fuel : nat) (isdoc : bool) (st : estate) : option (list token) :=
  match fuel with
  | O => None
  | S f =>
      match st with
      | EOpen c =>
          let root_doc := isdoc && e2_bare c in
          let '(toks, hasc) := if root_doc then ([], true) else e2_open c in
          option_map (app toks)
            (match (if hasc then e2_first c else None) with
             | Some k => enrw f isdoc (EOpen k)
             | None => enrw f isdoc (EClose c)
             end)
      | EClose c =>
          let root_doc := isdoc && e2_bare c in
          option_map (app (if root_doc then [] else e2_close c))
            (if e2_bare c then Some []
             else match e2_next c with
                  | Some s => enrw f isdoc (EOpen s)
                  | None => match e2_parent c with
                            | Some p => enrw f isdoc (EClose p)
                            | None => Some []
                            end
                  end)
      end
  end.

Definition ewalk (fuel : nat) (isdoc : bool) (root : enode) : option (list token) :=
  enrw fuel isdoc (EOpen {| e2_elt := root; e2_tail := []; e2_key := 0; e2_parents := []; e2_flag := FNone; e2_bare := true |}).

(* ================= lint.Filter ================= *)
Definition ns_ok (ns : option str) : bool := match ns with Some [] => false | _ => true end.
Definition nonempty (s : str) : bool := match s with [] => false | _ => true end.
Definition attrs_ok (a : attrs) : bool := forallb (fun kv => ns_ok (fst (fst kv)) && nonempty (snd (fst kv))) a.

Fixpoint lint (open_ : list (option str * str)) (ts : list token) : bool :=
  match ts with
  | [] => true
  | t :: r =>
      match t with
      | TStart ns name a =>
          ns_ok ns && nonempty name && negb (is_voidH ns name) && attrs_ok a && lint ((ns, name) :: open_) r
      | TEmpty ns name a => ns_ok ns && nonempty name && is_voidH ns name && attrs_ok a && lint open_ r
      | TEnd ns name =>
          ns_ok ns && nonempty name && negb (is_voidH ns name) &&
          match open_ with
          | (ns', name') :: o => opt_str_eqb ns ns' && str_eqb name name' && lint o r
          | [] => false
          end
      | TChars s => nonempty s && lint open_ r
      | TSpace s => nonempty s && forallb is_space s && lint open_ r
      | TOther _ => false
      | _ => lint open_ r
      end
  end.

(* ================= entry points ================= *)
Definition of_opt_toks (o : option (list token)) : sx :=
  match o with Some ts => L [A 1; enc_tokens ts] | None => L [A 0] end.

Definition run_c11 (x : sx) : sx :=
  let arg := nth_sx 1 x in
  match as_N (nth_sx 0 x) with
  | 0 => enc_tokens (text_tokens (as_str arg))
  | 1 => let kids := map (dec_node 300) (as_list arg) in
         of_opt_toks (walk_doc_nrw (2 * fsize kids + 4) kids)
  | 2 => let n := dec_node 300 arg in of_opt_toks (walk_node_nrw (2 * size n + 4) n)
  | 3 => let kids := map (dec_node 300) (as_list arg) in
         of_opt_toks (ewalk (4 * fsize kids + 8) true (toE (Elem None [] [] kids)))
  | 4 => let n := dec_node 300 arg in of_opt_toks (ewalk (4 * size n + 8) false (toE n))
  | _ => of_bool (lint [] (dec_tokens arg))
  end.
