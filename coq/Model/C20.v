(* C20 -- _ihatexml.InfosetFilter.  Character-class tables come from the translator (Gen/IHateXml.v);
   the methods are hand-modelled (hash-pinned). *)
From Coq Require Import NArith List Bool.
From Verif Require Import Sx Str Tok.
From Verif.Gen Require Import IHateXml.
Import ListNotations.
Local Open Scope N_scope.

Definition in_ranges (rs : list (N * N)) (c : N) : bool :=
  existsb (fun r => (fst r <=? c) && (c <=? snd r)) rs.

Definition bad_first (c : N) : bool := in_ranges nonXmlNameFirstBMPRegexp c.
Definition bad_rest (c : N) : bool := in_ranges nonXmlNameBMPRegexp c.

(* "U%05X" % ord(char) *)
Fixpoint hex_fuel (fuel : nat) (c : N) (acc : str) : str :=
  match fuel with
  | O => acc
  | S f => let acc' := hex_digit (c mod 16) :: acc in
           if c / 16 =? 0 then acc' else hex_fuel f (c / 16) acc'
  end.
Definition hexstr (c : N) : str := hex_fuel 40 c [].
Definition pad5 (s : str) : str := repeat 48 (5 - length s) ++ s.
Definition esc (c : N) : str := 85 :: pad5 (hexstr c).

Definition enc_rest (r : str) : str := flat_map (fun x => if bad_rest x then esc x else [x]) r.

(* toXmlName; None = IndexError on the empty name *)
Definition toXmlName (n : str) : option str :=
  match n with
  | [] => None
  | c :: r => Some ((if bad_first c then esc c else [c]) ++ enc_rest r)
  end.

(* the pattern U[\dA-F]{5,5} *)
Definition pathex (c : N) : bool := in_ranges re_digit_class c || ((65 <=? c) && (c <=? 70)).
Fixpoint hexk (k : nat) (s : str) : bool :=
  match k with
  | O => true
  | S k' => match s with c :: s' => pathex c && hexk k' s' | [] => false end
  end.
Definition hexval (c : N) : N :=
  match re_digit_value c with Some v => v | None => c - 55 end.
Definition unesc5 (s : str) : N := fold_left (fun acc c => acc * 16 + hexval c) (firstn 5 s) 0.

(* replacementRegexp.findall(name): left to right, non-overlapping *)
Fixpoint findall_fuel (fuel : nat) (s : str) : list str :=
  match fuel with
  | O => []
  | S f => match s with
           | [] => []
           | c :: r => if (c =? 85) && hexk 5 r then (c :: firstn 5 r) :: findall_fuel f (skipn 5 r)
                       else findall_fuel f r
           end
  end.
Definition findall (s : str) : list str := findall_fuel (length s) s.

Fixpoint dedup (l : list str) : list str :=
  match l with [] => [] | x :: r => if mem_str x r then dedup r else x :: dedup r end.

(* fromXmlName with the iteration order of the set supplied by the environment:
   for item in set(findall(name)): name = name.replace(item, unescapeChar(item)).
   Returns None when [order] is not an enumeration of the distinct items. *)
Definition same_set (a b : list str) : bool :=
  forallb (fun x => mem_str x b) a && forallb (fun x => mem_str x a) b && Nat.eqb (length a) (length b).
Definition fromXmlName (order : list str) (name : str) : option str :=
  if same_set order (dedup (findall name))
  then Some (fold_left (fun s item => replace_all item [unesc5 (tl item)] s) order name)
  else None.

(* single-pass left-to-right decoder, the reference for the round-trip theorem *)
Fixpoint lr_fuel (fuel : nat) (s : str) : str :=
  match fuel with
  | O => s
  | S f => match s with
           | [] => []
           | c :: r => if (c =? 85) && hexk 5 r then unesc5 r :: lr_fuel f (skipn 5 r) else c :: lr_fuel f r
           end
  end.
Definition fromXmlName_lr (s : str) : str := lr_fuel (length s) s.

(* data.replace("--", "- -") *)
Fixpoint dd_pass (s : str) : str :=
  match s with
  | [] => []
  | c :: r =>
      match r with
      | [] => [c]
      | c2 :: r2 => if (c =? 45) && (c2 =? 45) then 45 :: 32 :: 45 :: dd_pass r2 else c :: dd_pass r
      end
  end.
Definition dash2 : str := [45; 45].
Fixpoint dd_loop (fuel : nat) (s : str) : option str :=
  if contains dash2 s then match fuel with O => None | S f => dd_loop f (dd_pass s) end else Some s.
Definition ends_dash (s : str) : bool := match rev s with 45 :: _ => true | _ => false end.

(* coerceComment; None = loop did not finish within the fuel *)
Definition coerceComment (ddflag endflag : bool) (s : str) : option str :=
  let s1 := if ddflag then dd_loop (S (length s)) s else Some s in
  match s1 with
  | Some d => Some (if (ddflag || endflag) && ends_dash d then d ++ [32] else d)
  | None => None
  end.

Definition pubid_ok (c : N) : bool := in_ranges pubidCharClass c.
Definition coercePubid (sq : bool) (s : str) : str :=
  flat_map (fun c => if negb (pubid_ok c) then esc c else if sq && (c =? 39) then esc c else [c]) s.

Definition coerceCharacters (ff : bool) (s : str) : str :=
  if ff then map (fun c => if c =? 12 then 32 else c) s else s.

Definition run_c20 (x : sx) : sx :=
  let arg := nth_sx 1 x in
  match as_N (nth_sx 0 x) with
  | 0 => of_opt of_str (toXmlName (as_str arg))
  | 1 => of_opt of_str (fromXmlName (map as_str (as_list (nth_sx 2 x))) (as_str arg))
  | 2 => of_opt of_str (coerceComment (as_bool (nth_sx 2 x)) (as_bool (nth_sx 3 x)) (as_str arg))
  | 3 => of_str (coercePubid (as_bool (nth_sx 2 x)) (as_str arg))
  | 4 => of_str (coerceCharacters (as_bool (nth_sx 2 x)) (as_str arg))
  | 5 => of_list of_str (findall (as_str arg))
  | 8 => of_list (fun n => of_opt of_str (toXmlName (as_str n))) (as_list arg)
  | _ => of_list (fun c => L [of_bool (bad_first (as_N c)); of_bool (bad_rest (as_N c))]) (as_list arg)
  end.
