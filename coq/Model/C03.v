(* C03 -- pieces of the parser whose totality is a matter of logic: generateImpliedEndTags (TreeBuilder) as a
   function of the names on the stack of open elements (top of the stack = last element), with the number of
   nested calls it makes as a second result; the EOF hand-over graph comes from the translator (Gen/Phases.v). *)
From Coq Require Import NArith List Bool Arith.
From Verif Require Import Sx Str.
From Verif.Gen Require Import Phases.
Import ListNotations.
Local Open Scope N_scope.

(* stack given top first *)
Fixpoint implied_go (exclude : option str) (rev_stack : list str) : list str * nat :=
  match rev_stack with
  | [] => ([], 0%nat)                              (* openElements[-1] on an empty stack: IndexError *)
  | n :: r =>
      if mem_str n implied_end_tag_names && negb (match exclude with Some e => str_eqb n e | None => false end)
      then let '(s, d) := implied_go exclude r in (s, S d)
      else (rev_stack, 0%nat)
  end.
Definition generate_implied_end_tags (exclude : option str) (stack : list str) : list str * nat :=
  let '(s, d) := implied_go exclude (rev stack) in (rev s, d).

Definition run_c03 (x : sx) : sx :=
  let stack := map as_str (as_list (nth_sx 1 x)) in
  let ex := as_opt as_str (nth_sx 2 x) in
  L [of_list of_str (fst (generate_implied_end_tags ex stack))].
