From Coq Require Import NArith List Bool.
From Verif Require Import Sx Str Tok.
From Verif.Gen Require Import Entities.
From Verif.Model Require Import CharRef.
Import ListNotations.
Local Open Scope N_scope.

Definition enc_result (r : str * list str * str) : sx :=
  let '(out, errs, rest) := r in L [of_str out; of_list of_str errs; of_str rest].

Definition run_c14 (x : sx) : sx :=
  let arg := nth_sx 1 x in
  match as_N (nth_sx 0 x) with
  | 0 => enc_result (consume_entity (as_opt as_N (nth_sx 2 x)) (as_bool (nth_sx 3 x)) (as_str arg))
  | 1 => of_bool (has_prefix entities (as_str arg))
  | 2 => of_opt of_str (longest_prefix entities (as_str arg))
  | _ => of_list (fun n => let '(c, e) := num_char (as_N n) in L [A c; of_bool e]) (as_list arg)
  end.
