From Coq Require Import NArith List Bool.
From Verif Require Import Sx Str Tok.
From Verif.Gen Require Import Entities.
From Verif.Model Require Import CharRef.
Import ListNotations.
Local Open Scope N_scope.

Definition enc_result (r : str * list str * str) : sx :=
  let '(out, errs, rest) := r in L [of_str out; of_list of_str errs; of_str rest].

(* serializer.py htmlentityreplace_errors, per code point: "&" + name (+ ";") when _encode_entity_map has the code
   point, else "&#x" + hex(cp)[2:] + ";".  Hand-modelled, hash-pinned. *)
Fixpoint hexl_fuel (fuel : nat) (c : N) (acc : str) : str :=
  match fuel with
  | O => acc
  | S f => let acc' := hex_digit_l (c mod 16) :: acc in
           if c / 16 =? 0 then acc' else hexl_fuel f (c / 16) acc'
  end.
Definition hexl (c : N) : str := hexl_fuel 8 c [].          (* hex(c)[2:] for c < 2^32 *)
Definition numeric_ref (c : N) : str := [38; 35; 120] ++ hexl c ++ [59].
Definition with_semi' (k : str) : str := if N.eqb (last k 0) 59 then k else k ++ [59].
Definition encode_ref (c : N) : str :=
  match find (fun e => fst e =? c) encode_entity_map with
  | Some e => 38 :: with_semi' (snd e)
  | None => numeric_ref c
  end.

Definition run_c14 (x : sx) : sx :=
  let arg := nth_sx 1 x in
  match as_N (nth_sx 0 x) with
  | 0 => enc_result (consume_entity (as_opt as_N (nth_sx 2 x)) (as_bool (nth_sx 3 x)) (as_str arg))
  | 1 => of_bool (has_prefix entities (as_str arg))
  | 2 => of_opt of_str (longest_prefix entities (as_str arg))
  | 3 => of_list (fun n => let '(c, e) := num_char (as_N n) in L [A c; of_bool e]) (as_list arg)
  | _ => of_list (fun n => of_str (encode_ref (as_N n))) (as_list arg)
  end.
