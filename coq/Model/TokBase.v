(* Tokenizer model, hand-written base: the state vocabulary, the tokenizer's record and the primitive operations
   the translated state methods are written in (stream char/unget/charsUntil, tokenQueue.append, the
   currentToken mutations, temporaryBuffer).  The stream is the normalised character list (its relation to
   chunked delivery is C05); EOF is None; unget(EOF) does nothing.
   Every Python run-time type error a state method could hit (currentToken of the wrong kind or None, `data`
   EOF where a string is needed) sets the [bad] flag instead of raising. *)
From Coq Require Import NArith List Bool Arith.
From Verif Require Import Sx Str.
Import ListNotations.
Local Open Scope N_scope.

(* one constructor per state method of HTMLTokenizer (same names); the last two exist only in the specification *)
Inductive tstate : Type :=
| dataState | entityDataState | rcdataState | characterReferenceInRcdata | rawtextState | scriptDataState
| plaintextState | tagOpenState | closeTagOpenState | tagNameState
| rcdataLessThanSignState | rcdataEndTagOpenState | rcdataEndTagNameState
| rawtextLessThanSignState | rawtextEndTagOpenState | rawtextEndTagNameState
| scriptDataLessThanSignState | scriptDataEndTagOpenState | scriptDataEndTagNameState
| scriptDataEscapeStartState | scriptDataEscapeStartDashState | scriptDataEscapedState
| scriptDataEscapedDashState | scriptDataEscapedDashDashState | scriptDataEscapedLessThanSignState
| scriptDataEscapedEndTagOpenState | scriptDataEscapedEndTagNameState | scriptDataDoubleEscapeStartState
| scriptDataDoubleEscapedState | scriptDataDoubleEscapedDashState | scriptDataDoubleEscapedDashDashState
| scriptDataDoubleEscapedLessThanSignState | scriptDataDoubleEscapeEndState
| beforeAttributeNameState | attributeNameState | afterAttributeNameState | beforeAttributeValueState
| attributeValueDoubleQuotedState | attributeValueSingleQuotedState | attributeValueUnQuotedState
| afterAttributeValueState | selfClosingStartTagState | bogusCommentState | markupDeclarationOpenState
| commentStartState | commentStartDashState | commentState | commentEndDashState | commentEndState
| commentEndBangState | doctypeState | beforeDoctypeNameState | doctypeNameState | afterDoctypeNameState
| afterDoctypePublicKeywordState | beforeDoctypePublicIdentifierState
| doctypePublicIdentifierDoubleQuotedState | doctypePublicIdentifierSingleQuotedState
| afterDoctypePublicIdentifierState | betweenDoctypePublicAndSystemIdentifiersState
| afterDoctypeSystemKeywordState | beforeDoctypeSystemIdentifierState
| doctypeSystemIdentifierDoubleQuotedState | doctypeSystemIdentifierSingleQuotedState
| afterDoctypeSystemIdentifierState | bogusDoctypeState | cdataSectionState
| cdataSectionBracketState | cdataSectionEndState.

Definition tstate_eq_dec (a b : tstate) : {a = b} + {a <> b}.
Proof. decide equality. Defined.
Definition tstate_eqb (a b : tstate) : bool := if tstate_eq_dec a b then true else false.

Definition pairs : Type := list (str * str).

(* self.currentToken *)
Inductive ctok : Type :=
| CNone
| CTag (is_end : bool) (name : str) (a : pairs) (sc : bool)     (* "data" is the raw list of [name, value] *)
| CComment (data : str)
| CDoctype (name : str) (pub sys : option str) (correct : bool).

(* what goes on tokenQueue *)
Inductive otok : Type :=
| OErr (code : str)
| OChars (s : str)
| OSpace (s : str)
| OStart (name : str) (a : pairs) (sc : bool)
| OEnd (name : str) (a : pairs) (sc : bool)
| OComment (s : str)
| ODoctype (name : str) (pub sys : option str) (correct : bool)
| ONone.

Record tk : Type := mk_tk {
  st : tstate;
  inp : str;            (* remaining characters *)
  cur : ctok;
  tmp : str;            (* temporaryBuffer *)
  out : list otok;      (* everything emitted so far, newest first *)
  cdata_ok : bool;      (* parser says the adjusted current node is not in the HTML namespace *)
  bad : bool            (* a Python exception would have been raised *)
}.

Definition set_st (s : tstate) (k : tk) : tk := mk_tk s (inp k) (cur k) (tmp k) (out k) (cdata_ok k) (bad k).
Definition set_inp (i : str) (k : tk) : tk := mk_tk (st k) i (cur k) (tmp k) (out k) (cdata_ok k) (bad k).
Definition set_cur (c : ctok) (k : tk) : tk := mk_tk (st k) (inp k) c (tmp k) (out k) (cdata_ok k) (bad k).
Definition set_tmp (t : str) (k : tk) : tk := mk_tk (st k) (inp k) (cur k) t (out k) (cdata_ok k) (bad k).
Definition set_out (o : list otok) (k : tk) : tk := mk_tk (st k) (inp k) (cur k) (tmp k) o (cdata_ok k) (bad k).
Definition set_bad (k : tk) : tk := mk_tk (st k) (inp k) (cur k) (tmp k) (out k) (cdata_ok k) true.

(* ---- stream ---- *)
Definition peek (k : tk) : option N := hd_error (inp k).
Definition advance (k : tk) : tk := set_inp (tl (inp k)) k.
Definition unget (d : option N) (k : tk) : tk :=
  match d with Some c => set_inp (c :: inp k) k | None => k end.
(* charsUntil(set): the characters before the first one in the set; charsUntil(set, True): the run inside it *)
Definition chars_until (p : N -> bool) (k : tk) : str * tk :=
  (take_while (fun c => negb (p c)) (inp k), set_inp (drop_while (fun c => negb (p c)) (inp k)) k).
Definition chars_while (p : N -> bool) (k : tk) : str * tk :=
  (take_while p (inp k), set_inp (drop_while p (inp k)) k).

(* tests on `data` *)
Definition deq (d : option N) (c : N) : bool := match d with Some x => x =? c | None => false end.
Definition din (p : N -> bool) (d : option N) : bool := match d with Some x => p x | None => false end.
Definition is_eof (d : option N) : bool := match d with None => true | Some _ => false end.
(* `data` used as a string (the translator only emits this where EOF is excluded) *)
Definition dstr (d : option N) : str := match d with Some x => [x] | None => [] end.

(* ---- queue ---- *)
Definition emit (t : otok) (k : tk) : tk := set_out (t :: out k) k.
Definition tok_of_cur (c : ctok) : otok :=
  match c with
  | CNone => ONone
  | CTag false n a sc => OStart n a sc
  | CTag true n a sc => OEnd n a sc
  | CComment d => OComment d
  | CDoctype n p s c => ODoctype n p s c
  end.
Definition emit_cur (k : tk) : tk := emit (tok_of_cur (cur k)) k.

(* ---- currentToken mutations ---- *)
Definition upd_last {A} (f : A -> A) (l : list A) : option (list A) :=
  match rev l with [] => None | x :: r => Some (rev (f x :: r)) end.

Definition name_app (x : str) (k : tk) : tk :=           (* self.currentToken["name"] += x *)
  match cur k with
  | CTag e n a sc => set_cur (CTag e (n ++ x) a sc) k
  | CDoctype n p s c => set_cur (CDoctype (n ++ x) p s c) k
  | _ => set_bad k
  end.
Definition name_set (x : str) (k : tk) : tk :=           (* self.currentToken["name"] = x *)
  match cur k with
  | CTag e n a sc => set_cur (CTag e x a sc) k
  | CDoctype n p s c => set_cur (CDoctype x p s c) k
  | _ => set_bad k
  end.
Definition name_lower (k : tk) : tk :=                   (* ...["name"] = ...["name"].translate(asciiUpper2Lower) *)
  match cur k with
  | CTag e n a sc => set_cur (CTag e (lower_str n) a sc) k
  | CDoctype n p s c => set_cur (CDoctype (lower_str n) p s c) k
  | _ => set_bad k
  end.
Definition data_app (x : str) (k : tk) : tk :=           (* self.currentToken["data"] += x   (comment text) *)
  match cur k with
  | CComment d => set_cur (CComment (d ++ x)) k
  | _ => set_bad k
  end.
Definition attr_new (n : str) (k : tk) : tk :=           (* self.currentToken["data"].append([n, ""]) *)
  match cur k with
  | CTag e nm a sc => set_cur (CTag e nm (a ++ [(n, [])]) sc) k
  | _ => set_bad k
  end.
Definition attr_name_app (x : str) (k : tk) : tk :=      (* self.currentToken["data"][-1][0] += x *)
  match cur k with
  | CTag e nm a sc =>
      match upd_last (fun kv => (fst kv ++ x, snd kv)) a with
      | Some a' => set_cur (CTag e nm a' sc) k
      | None => set_bad k
      end
  | _ => set_bad k
  end.
Definition attr_val_app (x : str) (k : tk) : tk :=       (* self.currentToken["data"][-1][1] += x *)
  match cur k with
  | CTag e nm a sc =>
      match upd_last (fun kv => (fst kv, snd kv ++ x)) a with
      | Some a' => set_cur (CTag e nm a' sc) k
      | None => set_bad k
      end
  | _ => set_bad k
  end.
Definition set_self_closing (k : tk) : tk :=
  match cur k with
  | CTag e nm a _ => set_cur (CTag e nm a true) k
  | _ => set_bad k
  end.
Definition set_incorrect (k : tk) : tk :=                (* self.currentToken["correct"] = False *)
  match cur k with
  | CDoctype n p s _ => set_cur (CDoctype n p s false) k
  | _ => set_bad k
  end.
Definition pub_set (x : str) (k : tk) : tk :=
  match cur k with CDoctype n _ s c => set_cur (CDoctype n (Some x) s c) k | _ => set_bad k end.
Definition sys_set (x : str) (k : tk) : tk :=
  match cur k with CDoctype n p _ c => set_cur (CDoctype n p (Some x) c) k | _ => set_bad k end.
Definition pub_app (x : str) (k : tk) : tk :=
  match cur k with
  | CDoctype n (Some p) s c => set_cur (CDoctype n (Some (p ++ x)) s c) k
  | _ => set_bad k
  end.
Definition sys_app (x : str) (k : tk) : tk :=
  match cur k with
  | CDoctype n p (Some s) c => set_cur (CDoctype n p (Some (s ++ x)) c) k
  | _ => set_bad k
  end.

(* appropriate end tag test: self.currentToken and currentToken["name"].lower() == temporaryBuffer.lower()
   (the name side is folded with asciiUpper2Lower; the buffer holds ASCII letters only) *)
Definition is_appropriate (k : tk) : bool :=
  match cur k with
  | CTag _ n _ _ => str_eqb (lower_str n) (lower_str (tmp k))
  | CDoctype n _ _ _ => str_eqb (lower_str n) (lower_str (tmp k))
  | _ => false
  end.
Definition appropriate_bad (k : tk) : bool := match cur k with CComment _ => true | _ => false end.
Definition tmp_is (k : tk) (s : str) : bool := str_eqb (lower_str (tmp k)) s.
