(* C15 -- filters/inject_meta_charset.py as a fold over the token stream.  Hand-modelled, hash-pinned.
   Names are compared after str.lower(); none of the targets (head, meta, charset, content-type) contains a
   letter that some non-ASCII character lower-cases to, so ASCII lower-casing is exact here. *)
From Coq Require Import NArith List Bool Arith.
From Verif Require Import Sx Str Tok.
Import ListNotations.
Local Open Scope N_scope.

Definition s_head : str := [104;101;97;100].
Definition s_meta : str := [109;101;116;97].
Definition s_charset : str := [99;104;97;114;115;101;116].
Definition s_http_equiv : str := [104;116;116;112;45;101;113;117;105;118].
Definition s_content_type : str := [99;111;110;116;101;110;116;45;116;121;112;101].
Definition s_content : str := [99;111;110;116;101;110;116].
Definition s_text_html_charset : str := [116;101;120;116;47;104;116;109;108;59;32;99;104;97;114;115;101;116;61].

Definition is_name (target : str) (n : str) : bool := str_eqb (lower_str n) target.

Section IMC.
  Variable enc : str.

  (* the for/else over token["data"].items(): (new attributes, found?) *)
  Fixpoint rewrite_charset (a : attrs) : option attrs :=        (* Some = a charset attribute was rewritten (break) *)
    match a with
    | [] => None
    | ((ns, n), v) :: r =>
        match ns with
        | Some _ => option_map (cons ((ns, n), v)) (rewrite_charset r)
        | None => if is_name s_charset n then Some (((ns, n), enc) :: r)
                  else option_map (cons ((ns, n), v)) (rewrite_charset r)
        end
    end.
  Definition has_pragma (a : attrs) : bool :=
    existsb (fun kv => match fst (fst kv) with
                       | None => str_eqb (snd (fst kv)) s_http_equiv && str_eqb (lower_str (snd kv)) s_content_type
                       | Some _ => false
                       end) a.
  Definition content_key : akey := (None, s_content).
  Definition set_content (a : attrs) : attrs :=
    map (fun kv => if akey_eqb (fst kv) content_key then (fst kv, s_text_html_charset ++ enc) else kv) a.
  Definition has_content (a : attrs) : bool := existsb (fun kv => akey_eqb (fst kv) content_key) a.

  Definition rewrite_meta (a : attrs) : attrs * bool :=
    match rewrite_charset a with
    | Some a' => (a', true)
    | None => if has_pragma a && has_content a then (set_content a, true) else (a, false)
    end.

  Definition injected : token := TEmpty None s_meta [((None, s_charset), enc)].

  Record st := { in_head : bool; found : bool; pending : list (token * bool) }.

  (* one token: (emitted tokens tagged "injected?", new state) *)
  Definition step (s : st) (t : token) : list (token * bool) * st :=
    let emit_or_queue (s' : st) (t' : token) : list (token * bool) * st :=
      if in_head s' then ([], {| in_head := true; found := found s'; pending := pending s' ++ [(t', false)] |})
      else ([(t', false)], s') in
    match t with
    | TStart ns n a =>
        if is_name s_head n then emit_or_queue {| in_head := true; found := found s; pending := pending s |} t
        else emit_or_queue s t
    | TEmpty ns n a =>
        if is_name s_meta n then
          let '(a', f) := rewrite_meta a in
          emit_or_queue {| in_head := in_head s; found := found s || f; pending := pending s |} (TEmpty ns n a')
        else if is_name s_head n && negb (found s) then
          ([(TStart None s_head a, true); (injected, true); (TEnd None s_head, true)],
           {| in_head := in_head s; found := true; pending := pending s |})
        else emit_or_queue s t
    | TEnd ns n =>
        match is_name s_head n, pending s with
        | true, p0 :: prest =>
            (p0 :: (if found s then [] else [(injected, true)]) ++ prest ++ [(t, false)],
             {| in_head := false; found := true; pending := [] |})
        | _, _ => emit_or_queue s t
        end
    | _ => emit_or_queue s t
    end.

  Fixpoint run_steps (s : st) (ts : list token) : list (token * bool) * st :=
    match ts with
    | [] => ([], s)
    | t :: r => let '(o1, s1) := step s t in let '(o2, s2) := run_steps s1 r in (o1 ++ o2, s2)
    end.

  Definition init : st := {| in_head := false; found := false; pending := [] |}.
  Definition IMC (ts : list token) : list token := map fst (fst (run_steps init ts)).
End IMC.

Definition run_c15 (x : sx) : sx :=
  enc_tokens (IMC (as_str (nth_sx 0 x)) (dec_tokens (nth_sx 1 x))).
