(* TC -- tree construction: html5parser.py (HTMLParser.mainLoop, the 23 phases) over the DOM tree builder,
   hand-modelled phase by phase and handler by handler (same names), composed with the tokenizer model
   (Gen/Tokenizer.v) which it steers through state switches.  Tables come from Spec/TreeTables.v (fixed copy;
   equality with the tables regenerated from the source is a theorem).  Every Python assert, unchecked index
   and None dereference in the modelled code is an explicit [crash] with a site label. *)
From Coq Require Import NArith ZArith List Bool Arith String.
From Verif Require Import Sx Str Tok.
From Verif.Spec Require Lit.
From Verif.Spec Require Import TreeTables.
From Verif.Model Require Import CharRef TokBase TokHand TCdom.
From Verif.Gen Require Import Tokenizer.
Import ListNotations.
Local Open Scope string_scope.
Local Open Scope list_scope.
Local Open Scope N_scope.
Local Notation length := List.length.

Inductive phase : Type :=
| initialP | beforeHtmlP | beforeHeadP | inHeadP | inHeadNoscriptP | afterHeadP | inBodyP | textP | inTableP
| inTableTextP | inCaptionP | inColumnGroupP | inTableBodyP | inRowP | inCellP | inSelectP | inSelectInTableP
| inForeignContentP | afterBodyP | inFramesetP | afterFramesetP | afterAfterBodyP | afterAfterFramesetP.
Definition phase_eq_dec (a b : phase) : {a = b} + {a <> b}. Proof. decide equality. Defined.
Definition phase_eqb (a b : phase) : bool := if phase_eq_dec a b then true else false.

Inductive ttok : Type :=
| KChars (s : str)
| KSpace (s : str)
| KStart (name : str) (a : attrs) (sc : bool)
| KEnd (name : str)
| KComment' (s : str)
| KDoctype' (name : str) (pub sys : option str) (correct : bool).

Record ps : Type := mk_ps {
  d : dom;
  opn : list nat;                 (* openElements, top last *)
  afe : list (option nat);        (* activeFormattingElements, None = Marker *)
  ph : phase;
  orig : phase;                   (* parser.originalPhase *)
  headp : option nat;
  formp : option nat;
  fsok : bool;                    (* framesetOK *)
  ftab : bool;                    (* tree.insertFromTable *)
  quirks : bool;
  inner : option str;             (* parser.innerHTML (container, lower-cased) or False *)
  scripting : bool;
  dropnl : bool;                  (* InBody.processSpaceCharacters is processSpaceCharactersDropNewline *)
  ttorig : phase;                 (* InTableTextPhase.originalPhase *)
  ttchars : list str;             (* InTableTextPhase.characterTokens (data) *)
  tok : tk;                       (* the tokenizer *)
  htmlns : option str;            (* tree.defaultNamespace *)
  crash : option str;
  dev : N                         (* deviation switches: bit i set = follow the standard at deviation point i *)
}.

Definition S' := Lit.S.
Definition SL := Lit.SL.
Definition html_ns : str := S' "http://www.w3.org/1999/xhtml".
Definition mathml_ns : str := S' "http://www.w3.org/1998/Math/MathML".
Definition svg_ns : str := S' "http://www.w3.org/2000/svg".

(* ---- state updates ---- *)
Definition wd (f : dom -> dom) (s : ps) : ps :=
  mk_ps (f (d s)) (opn s) (afe s) (ph s) (orig s) (headp s) (formp s) (fsok s) (ftab s) (quirks s) (inner s)
        (scripting s) (dropnl s) (ttorig s) (ttchars s) (tok s) (htmlns s) (crash s) (dev s).
Definition set_d (x : dom) (s : ps) : ps := wd (fun _ => x) s.
Definition set_opn (x : list nat) (s : ps) : ps :=
  mk_ps (d s) x (afe s) (ph s) (orig s) (headp s) (formp s) (fsok s) (ftab s) (quirks s) (inner s)
        (scripting s) (dropnl s) (ttorig s) (ttchars s) (tok s) (htmlns s) (crash s) (dev s).
Definition set_afe (x : list (option nat)) (s : ps) : ps :=
  mk_ps (d s) (opn s) x (ph s) (orig s) (headp s) (formp s) (fsok s) (ftab s) (quirks s) (inner s)
        (scripting s) (dropnl s) (ttorig s) (ttchars s) (tok s) (htmlns s) (crash s) (dev s).
Definition set_ph (x : phase) (s : ps) : ps :=
  mk_ps (d s) (opn s) (afe s) x (orig s) (headp s) (formp s) (fsok s) (ftab s) (quirks s) (inner s)
        (scripting s) (dropnl s) (ttorig s) (ttchars s) (tok s) (htmlns s) (crash s) (dev s).
Definition set_orig (x : phase) (s : ps) : ps :=
  mk_ps (d s) (opn s) (afe s) (ph s) x (headp s) (formp s) (fsok s) (ftab s) (quirks s) (inner s)
        (scripting s) (dropnl s) (ttorig s) (ttchars s) (tok s) (htmlns s) (crash s) (dev s).
Definition set_headp (x : option nat) (s : ps) : ps :=
  mk_ps (d s) (opn s) (afe s) (ph s) (orig s) x (formp s) (fsok s) (ftab s) (quirks s) (inner s)
        (scripting s) (dropnl s) (ttorig s) (ttchars s) (tok s) (htmlns s) (crash s) (dev s).
Definition set_formp (x : option nat) (s : ps) : ps :=
  mk_ps (d s) (opn s) (afe s) (ph s) (orig s) (headp s) x (fsok s) (ftab s) (quirks s) (inner s)
        (scripting s) (dropnl s) (ttorig s) (ttchars s) (tok s) (htmlns s) (crash s) (dev s).
Definition set_fsok (x : bool) (s : ps) : ps :=
  mk_ps (d s) (opn s) (afe s) (ph s) (orig s) (headp s) (formp s) x (ftab s) (quirks s) (inner s)
        (scripting s) (dropnl s) (ttorig s) (ttchars s) (tok s) (htmlns s) (crash s) (dev s).
Definition set_ftab (x : bool) (s : ps) : ps :=
  mk_ps (d s) (opn s) (afe s) (ph s) (orig s) (headp s) (formp s) (fsok s) x (quirks s) (inner s)
        (scripting s) (dropnl s) (ttorig s) (ttchars s) (tok s) (htmlns s) (crash s) (dev s).
Definition set_quirks (x : bool) (s : ps) : ps :=
  mk_ps (d s) (opn s) (afe s) (ph s) (orig s) (headp s) (formp s) (fsok s) (ftab s) x (inner s)
        (scripting s) (dropnl s) (ttorig s) (ttchars s) (tok s) (htmlns s) (crash s) (dev s).
Definition set_dropnl (x : bool) (s : ps) : ps :=
  mk_ps (d s) (opn s) (afe s) (ph s) (orig s) (headp s) (formp s) (fsok s) (ftab s) (quirks s) (inner s)
        (scripting s) x (ttorig s) (ttchars s) (tok s) (htmlns s) (crash s) (dev s).
Definition set_tt (o : phase) (c : list str) (s : ps) : ps :=
  mk_ps (d s) (opn s) (afe s) (ph s) (orig s) (headp s) (formp s) (fsok s) (ftab s) (quirks s) (inner s)
        (scripting s) (dropnl s) o c (tok s) (htmlns s) (crash s) (dev s).
Definition set_tok (x : tk) (s : ps) : ps :=
  mk_ps (d s) (opn s) (afe s) (ph s) (orig s) (headp s) (formp s) (fsok s) (ftab s) (quirks s) (inner s)
        (scripting s) (dropnl s) (ttorig s) (ttchars s) x (htmlns s) (crash s) (dev s).
Definition crashed (why : str) (s : ps) : ps :=
  mk_ps (d s) (opn s) (afe s) (ph s) (orig s) (headp s) (formp s) (fsok s) (ftab s) (quirks s) (inner s)
        (scripting s) (dropnl s) (ttorig s) (ttchars s) (tok s) (htmlns s)
        (match crash s with Some w => Some w | None => Some why end) (dev s).
Definition tok_state (st : tstate) (s : ps) : ps := set_tok (set_st st (tok s)) s.

(* deviation points: html5lib 1.1 (bit clear) vs the WHATWG algorithm (bit set) *)
Definition flag (i : N) (s : ps) : bool := N.testbit (dev s) i.
Definition F_dialog := 0. Definition F_ruby := 1. Definition F_isindex := 2. Definition F_fragment_state := 3.
Definition F_aaa_pop := 4. Definition F_foreign_br_p := 5. Definition F_after_body_space := 6. Definition F_ns_aware := 7.
(* the element's name as the parser's name-only tests see it: with F_ns_aware an element outside the HTML
   namespace never matches an HTML element name *)
Definition hname (s : ps) (x : nat) : str :=
  if flag F_ns_aware s && negb (opt_str_eqb (ens (d s) x) (htmlns s)) then [0] else ename (d s) x.

(* ---- the stack of open elements ---- *)
Definition top (s : ps) : option nat := match rev (opn s) with x :: _ => Some x | [] => None end.
Definition top_or (s : ps) : nat := match top s with Some x => x | None => 0%nat end.   (* callers check *)
Definition cur_name (s : ps) : str := hname s (top_or s).
Definition cur_is (s : ps) (n : string) : bool := str_eqb (cur_name s) (S' n).
Definition name_in (x : str) (l : list string) : bool := mem_str x (SL l).
Definition pop (s : ps) : ps :=
  match opn s with [] => crashed (S' "pop from empty stack") s | _ => set_opn (removelast (opn s)) s end.
Definition push (x : nat) (s : ps) : ps := set_opn (opn s ++ [x]) s.
Fixpoint pop_until_fuel (fuel : nat) (p : ps -> nat -> bool) (s : ps) : ps :=
  (* node = pop(); while not p(node): node = pop() *)
  match fuel with
  | O => s
  | S f => match top s with
           | None => crashed (S' "pop from empty stack") s
           | Some x => let s' := pop s in if p s x then s' else pop_until_fuel f p s'
           end
  end.
Definition pop_until (p : ps -> nat -> bool) (s : ps) : ps := pop_until_fuel (S (length (opn s))) p s.
Definition pop_until_name (n : str) (s : ps) : ps := pop_until (fun s x => str_eqb (hname s x) n) s.
(* while openElements[-1].name not in names: pop() *)
Fixpoint pop_while_not_fuel (fuel : nat) (names : list string) (s : ps) : ps :=
  match fuel with
  | O => s
  | S f => match top s with
           | None => crashed (S' "index on empty stack") s
           | Some x => if name_in (hname s x) names then s else pop_while_not_fuel f names (pop s)
           end
  end.
Definition pop_while_not (names : list string) (s : ps) : ps := pop_while_not_fuel (S (length (opn s))) names s.
(* the same, stopping only at elements in the HTML namespace (clear the stack back to a table ... context) *)
Definition hname_html (s : ps) (x : nat) : str :=
  if negb (opt_str_eqb (ens (d s) x) (htmlns s)) then [0] else ename (d s) x.
Fixpoint pop_while_not_html_fuel (fuel : nat) (names : list string) (s : ps) : ps :=
  match fuel with
  | O => s
  | S f => match top s with
           | None => crashed (S' "index on empty stack") s
           | Some x => if name_in (hname_html s x) names then s else pop_while_not_html_fuel f names (pop s)
           end
  end.
Definition pop_while_not_html (names : list string) (s : ps) : ps := pop_while_not_html_fuel (S (length (opn s))) names s.
(* while len(openElements) > 1: pop() *)
Definition pop_to_root (s : ps) : ps := set_opn (firstn 1 (opn s)) s.

Definition name_tuple (s : ps) (x : nat) : str * str :=
  (match ens (d s) x with Some n => n | None => html_ns end, ename (d s) x).
Definition mem_pair (p : str * str) (l : list (str * str)) : bool :=
  existsb (fun q => str_eqb (fst p) (fst q) && str_eqb (snd p) (snd q)) l.

(* elementInScope(target, variant): target a name (HTML namespace) ... *)
Inductive variant := VDefault | VButton | VList | VTable | VSelect.
Definition scope_set (v : variant) : list (str * str) * bool :=
  match v with
  | VDefault => (scope_default, false) | VButton => (scope_button, false) | VList => (scope_list, false)
  | VTable => (scope_table, false) | VSelect => (scope_select, true)
  end.
Fixpoint in_scope_go (s : ps) (hit : nat -> bool) (lst : list (str * str)) (inv : bool) (rs : list nat) : option bool :=
  match rs with
  | [] => None                                   (* assert False *)
  | x :: r => if hit x then Some true
              else if xorb inv (mem_pair (name_tuple s x) lst) then Some false
              else in_scope_go s hit lst inv r
  end.
Definition in_scope (n : string) (v : variant) (s : ps) : bool :=
  let '(lst, inv) := scope_set v in
  match in_scope_go s (fun x => let t := name_tuple s x in str_eqb (fst t) html_ns && str_eqb (snd t) (S' n))
                    lst inv (rev (opn s)) with
  | Some b => b | None => false end.
Definition in_scope_str (n : str) (v : variant) (s : ps) : bool :=
  let '(lst, inv) := scope_set v in
  match in_scope_go s (fun x => let t := name_tuple s x in str_eqb (fst t) html_ns && str_eqb (snd t) n)
                    lst inv (rev (opn s)) with
  | Some b => b | None => false end.
(* ... or an exact node *)
Definition node_in_scope (target : nat) (s : ps) : bool :=
  match in_scope_go s (Nat.eqb target) scope_default false (rev (opn s)) with Some b => b | None => false end.
(* the assert False at the end of elementInScope: reached iff nothing on the stack stops the walk *)
Definition scope_asserts (n : str) (v : variant) (s : ps) : bool :=
  let '(lst, inv) := scope_set v in
  match in_scope_go s (fun x => let t := name_tuple s x in str_eqb (fst t) html_ns && str_eqb (snd t) n)
                    lst inv (rev (opn s)) with
  | Some _ => false | None => true end.

(* generateImpliedEndTags(exclude) *)
Definition implied_names : list string := ["dd"; "dt"; "li"; "option"; "optgroup"; "p"; "rb"; "rp"; "rt"; "rtc"].
Fixpoint gen_implied_fuel (fuel : nat) (ex : option str) (s : ps) : ps :=
  match fuel with
  | O => s
  | S f => match top s with
           | None => crashed (S' "generateImpliedEndTags on empty stack") s
           | Some x =>
               let n := hname s x in
               if name_in n implied_names && negb (match ex with Some e => str_eqb n e | None => false end)
               then gen_implied_fuel f ex (pop s) else s
           end
  end.
Definition gen_implied (ex : option str) (s : ps) : ps := gen_implied_fuel (S (length (opn s))) ex s.

(* ---- attributes ---- *)
Definition alookup (k : akey) (a : attrs) : option str :=
  match find (fun kv => akey_eqb (fst kv) k) a with Some kv => Some (snd kv) | None => None end.
Definition attr_get (n : string) (a : attrs) : option str := alookup (None, S' n) a.
Definition attrs_eq (a b : attrs) : bool :=       (* dict equality *)
  Nat.eqb (length a) (length b) &&
  forallb (fun kv => match alookup (fst kv) b with Some v => str_eqb v (snd kv) | None => false end) a.
Fixpoint aset (a : attrs) (k : akey) (v : str) : attrs :=
  match a with
  | [] => [(k, v)]
  | (k', v') :: r => if akey_eqb k k' then (k', v) :: r else (k', v') :: aset r k v
  end.
Definition adict (items : attrs) : attrs := fold_left (fun acc kv => aset acc (fst kv) (snd kv)) items [].
(* adjust_attributes(token, replacements) for name -> name tables *)
Definition lookup_str (t : list (str * str)) (k : str) : option str :=
  match find (fun e => str_eqb (fst e) k) t with Some e => Some (snd e) | None => None end.
Definition adjust_names (t : list (str * str)) (a : attrs) : attrs :=
  if existsb (fun kv => match fst kv with (None, n) => match lookup_str t n with Some _ => true | None => false end
                                     | _ => false end) a
  then adict (map (fun kv => match fst kv with
                             | (None, n) => match lookup_str t n with Some n' => ((None, n'), snd kv) | None => kv end
                             | _ => kv end) a)
  else a.
Definition adjust_foreign_attrs (a : attrs) : attrs :=
  let look n := find (fun e => str_eqb (fst e) n) adjust_foreign in
  if existsb (fun kv => match fst kv with (None, n) => match look n with Some _ => true | None => false end
                                     | _ => false end) a
  then adict (map (fun kv => match fst kv with
                             | (None, n) => match look n with
                                            | Some e => ((Some (fst (snd e)), snd (snd e)), snd kv)
                                            | None => kv end
                             | _ => kv end) a)
  else a.

(* ---- element creation and insertion ---- *)
(* minidom keys its attributes a second time by (namespaceURI, localName), where localName is whatever follows
   the first colon of the name: setting "xlink:href" on an element that has "href" (both without a namespace)
   silently removes the latter, and vice versa.  Part of the DOM tree builder, hence of the model. *)
Definition F_no_minidom_collision := 8.
Definition local_part (n : str) : str :=
  match drop_while (fun c => negb (c =? 58)) n with _ :: r => r | [] => n end.
Definition minidom_add (a : attrs) (kv : attr) : attrs :=
  match fst kv with
  | (None, n) =>
      let a' := filter (fun e => match fst e with
                                 | (None, m) => str_eqb m n || negb (str_eqb (local_part m) (local_part n))
                                 | _ => true end) a in
      aset a' (fst kv) (snd kv)
  | _ => aset a (fst kv) (snd kv)
  end.
Definition dom_attrs (s : ps) (a : attrs) : attrs :=
  if flag F_no_minidom_collision s then a else fold_left minidom_add a [].
Definition create_element (ns : option str) (name : str) (a : attrs) (s : ps) : ps * nat :=
  let '(d', x) := new_node (d s) (KElem ns name (dom_attrs s a)) in (set_d d' s, x).

(* getTableMisnestedNodePosition -> (fosterParent, insertBefore) *)
Definition last_table (s : ps) : option nat := find (fun x => str_eqb (hname s x) (S' "table")) (rev (opn s)).
Fixpoint index_of (x : nat) (l : list nat) : option nat :=
  match l with [] => None | y :: r => if Nat.eqb x y then Some 0%nat else option_map S (index_of x r) end.
Definition misnested_position (s : ps) : option (nat * option nat) :=
  match last_table s with
  | Some t =>
      match wp (get (d s) t) with
      | Some p => Some (p, Some t)
      | None => match index_of t (opn s) with
                | Some (S i) => Some (nth i (opn s) 0%nat, None)
                | _ => None                       (* openElements[-1]: the last element -- index 0 - 1 *)
                end
      end
  | None => match opn s with x :: _ => Some (x, None) | [] => None end
  end.
(* Python's openElements[index - 1] with index 0 is openElements[-1] *)
Definition misnested_position' (s : ps) : option (nat * option nat) :=
  match last_table s with
  | Some t =>
      match wp (get (d s) t) with
      | Some p => Some (p, Some t)
      | None => match index_of t (opn s) with
                | Some (S i) => Some (nth i (opn s) 0%nat, None)
                | Some O => Some (top_or s, None)
                | None => None
                end
      end
  | None => match opn s with x :: _ => Some (x, None) | [] => None end
  end.

Definition insert_element_normal (ns : option str) (name : str) (a : attrs) (s : ps) : ps :=
  match top s with
  | None => crashed (S' "insertElement on empty stack") s
  | Some p => let '(s, x) := create_element ns name a s in
              push x (wd (fun dd => append_child dd p x) s)
  end.
Definition insert_element_table (ns : option str) (name : str) (a : attrs) (s : ps) : ps :=
  match top s with
  | None => crashed (S' "insertElement on empty stack") s
  | Some c =>
      let '(s, x) := create_element ns name a s in      (* created first, as in the code *)
      if negb (mem_str (ename (d s) c) table_insert_mode_elements) then insert_element_normal ns name a s
      else match misnested_position' s with
           | None => crashed (S' "getTableMisnestedNodePosition") s
           | Some (p, None) => push x (wd (fun dd => append_child dd p x) s)
           | Some (p, Some r) =>
               match insert_before (d s) p x r with
               | Some d' => push x (set_d d' s)
               | None => crashed (S' "insertBefore: reference node is not a child (foster parenting)") s
               end
           end
  end.
Definition insert_element_ns (ns : option str) (name : str) (a : attrs) (s : ps) : ps :=
  if ftab s then insert_element_table ns name a s else insert_element_normal ns name a s.
Definition insert_element (name : str) (a : attrs) (s : ps) : ps := insert_element_ns (htmlns s) name a s.
Definition insert_el (name : string) (s : ps) : ps := insert_element (S' name) [] s.

Definition insert_text_tree (data : str) (s : ps) : ps :=
  match top s with
  | None => crashed (S' "insertText on empty stack") s
  | Some c =>
      if negb (ftab s) || negb (mem_str (ename (d s) c) table_insert_mode_elements) then
        match insert_text (d s) c data None with Some d' => set_d d' s | None => s end
      else match misnested_position' s with
           | None => crashed (S' "getTableMisnestedNodePosition") s
           | Some (p, r) =>
               match insert_text (d s) p data r with
               | Some d' => set_d d' s
               | None => crashed (S' "insertBefore: reference node is not a child (foster-parented text)") s
               end
           end
  end.

Definition insert_comment (data : str) (parent : nat) (s : ps) : ps :=
  let '(d', x) := new_node (d s) (KComment data) in
  set_d (upd (upd d' parent (fun n => mk_node (kind n) (kids n ++ [x]) (par n) (wp n)))
             x (fun n => mk_node (kind n) [] (Some parent) (Some parent))) s.
Definition insert_comment_top (data : str) (s : ps) : ps :=
  match top s with Some p => insert_comment data p s | None => crashed (S' "insertComment on empty stack") s end.

(* ---- active formatting elements ---- *)
Definition nodes_equal (s : ps) (x y : nat) : bool :=
  let tx := name_tuple s x in let ty := name_tuple s y in
  str_eqb (fst tx) (fst ty) && str_eqb (snd tx) (snd ty) && attrs_eq (eattrs (d s) x) (eattrs (d s) y).
Definition matching_fmt (s : ps) (x y : nat) : bool :=
  str_eqb (ename (d s) x) (ename (d s) y) && opt_str_eqb (ens (d s) x) (ens (d s) y) &&
  attrs_eq (eattrs (d s) x) (eattrs (d s) y).
Fixpoint remove_opt (x : nat) (l : list (option nat)) : list (option nat) :=
  match l with
  | [] => []
  | Some y :: r => if Nat.eqb x y then r else Some y :: remove_opt x r
  | None :: r => None :: remove_opt x r
  end.
Definition afe_mem (x : nat) (l : list (option nat)) : bool :=
  existsb (fun e => match e with Some y => Nat.eqb x y | None => false end) l.
(* entries after the last marker, newest first *)
Fixpoint until_marker (l : list (option nat)) : list nat :=
  match l with Some x :: r => x :: until_marker r | _ => [] end.
(* ActiveFormattingElements.append *)
Definition afe_append (s : ps) (e : option nat) : ps :=
  match e with
  | None => set_afe (afe s ++ [None]) s
  | Some node =>
      let eq := filter (fun x => nodes_equal s x node) (until_marker (rev (afe s))) in
      let l := match eq with _ :: _ :: third :: _ => remove_opt third (afe s) | _ => afe s end in
      set_afe (l ++ [Some node]) s
  end.
(* InBodyPhase.addFormattingElement *)
Definition add_formatting_element (name : str) (a : attrs) (s : ps) : ps :=
  let s := insert_element name a s in
  match top s with
  | None => s
  | Some el =>
      let m := filter (fun x => matching_fmt s x el) (until_marker (rev (afe s))) in
      let s := if Nat.ltb 3 (length m) then crashed (S' "assert len(matchingElements) <= 3") s else s in
      let s := match m with [_; _; third] => set_afe (remove_opt third (afe s)) s | _ => s end in
      afe_append s (Some el)
  end.
Definition clear_afe (s : ps) : ps :=
  (* entry = pop(); while afe and entry != Marker: entry = pop() *)
  match afe s with
  | [] => crashed (S' "clearActiveFormattingElements on empty list") s
  | _ =>
      let fix go (fuel : nat) (l : list (option nat)) : list (option nat) :=
          match fuel with
          | O => l
          | S f => match rev l with
                   | [] => []
                   | e :: r => let l' := rev r in
                               match l', e with
                               | [], _ => []
                               | _, None => l'
                               | _, Some _ => go f l'
                               end
                   end
          end in
      set_afe (go (S (length (afe s))) (afe s)) s
  end.
Definition in_afe_by_name (n : string) (s : ps) : option nat :=
  find (fun x => str_eqb (ename (d s) x) (S' n)) (until_marker (rev (afe s))).
Definition in_afe_by_name_str (n : str) (s : ps) : option nat :=
  find (fun x => str_eqb (ename (d s) x) n) (until_marker (rev (afe s))).

(* reconstructActiveFormattingElements *)
Fixpoint set_nth_opt (l : list (option nat)) (i : nat) (x : option nat) : list (option nat) :=
  match l, i with
  | [], _ => []
  | _ :: r, O => x :: r
  | y :: r, S j => y :: set_nth_opt r j x
  end.
Definition is_open_entry (s : ps) (e : option nat) : bool :=
  match e with None => true | Some x => mem_nat x (opn s) end.
Definition reconstruct (s : ps) : ps :=
  match rev (afe s) with
  | [] => s
  | last :: _ =>
      if is_open_entry s last then s
      else
        (* walk back to the entry after the last marker / open element *)
        let n := length (afe s) in
        let fix back (i : nat) : nat :=          (* returns the index to start creating from *)
            match i with
            | O => O
            | S j => if is_open_entry s (nth j (afe s) None) then S j else back j
            end in
        let start := back (n - 1)%nat in
        let fix fwd (fuel i : nat) (s : ps) : ps :=
            match fuel with
            | O => s
            | S f =>
                match nth i (afe s) None with
                | None => s
                | Some e =>
                    let s := insert_element_ns (ens (d s) e) (ename (d s) e) (eattrs (d s) e) s in
                    let el := top_or s in
                    let s := set_afe (set_nth_opt (afe s) i (Some el)) s in
                    if Nat.eqb (S i) (length (afe s)) then s else fwd f (S i) s
                end
            end in
        fwd (S n) start s
  end.

(* ---- misc helpers ---- *)
Definition is_ws_str (x : str) : bool := forallb is_space x.
Definition root (s : ps) : nat := match opn s with x :: _ => x | [] => 0%nat end.
Definition doc_id : nat := 0%nat.
Definition lower_attr (n : string) (a : attrs) : option str := option_map lower_str (attr_get n a).

Definition is_html_integration_point (s : ps) (x : nat) : bool :=
  if str_eqb (ename (d s) x) (S' "annotation-xml") && opt_str_eqb (ens (d s) x) (Some mathml_ns) then
    match lower_attr "encoding" (eattrs (d s) x) with
    | Some v => str_eqb v (S' "text/html") || str_eqb v (S' "application/xhtml+xml")
    | None => false
    end
  else match ens (d s) x with
       | Some n => mem_pair (n, ename (d s) x) html_integration_points
       | None => false
       end.
Definition is_mathml_text_ip (s : ps) (x : nat) : bool :=
  match ens (d s) x with Some n => mem_pair (n, ename (d s) x) mathml_text_integration_points | None => false end.

Definition phase_of_name (n : str) : phase :=
  if str_eqb n (S' "inSelect") then inSelectP else if str_eqb n (S' "inCell") then inCellP
  else if str_eqb n (S' "inRow") then inRowP else if str_eqb n (S' "inTableBody") then inTableBodyP
  else if str_eqb n (S' "inCaption") then inCaptionP else if str_eqb n (S' "inColumnGroup") then inColumnGroupP
  else if str_eqb n (S' "inTable") then inTableP else if str_eqb n (S' "inFrameset") then inFramesetP
  else if str_eqb n (S' "beforeHead") then beforeHeadP else inBodyP.

(* resetInsertionMode *)
Definition reset_insertion_mode (s : ps) : ps :=
  let fix go (rs : list nat) (s : ps) : ps :=
      match rs with
      | [] => s                      (* new_phase stays None: self.phase = None *)
      | x :: r =>
          let last := Nat.eqb x (root s) in
          let s := if last && match inner s with None => true | Some _ => false end
                   then crashed (S' "resetInsertionMode: assert self.innerHTML") s else s in
          let nm := if last then match inner s with Some c => c | None => ename (d s) x end else ename (d s) x in
          if negb last && negb (opt_str_eqb (ens (d s) x) (htmlns s)) then go r s
          else
          let s := if name_in nm ["select"; "colgroup"; "head"; "html"] &&
                      match inner s with None => true | Some _ => false end
                   then crashed (S' "resetInsertionMode: assert self.innerHTML") s else s in
          match lookup_str new_modes nm with
               | Some p => if last && name_in nm ["td"; "th"] then set_ph inBodyP s      (* repaired in /repo *)
                           else set_ph (phase_of_name p) s
               | None => if last then set_ph inBodyP s else go r s
               end
      end in
  go (rev (opn s)) s.

Definition parse_rcdata_rawtext (name : str) (a : attrs) (rawtext : bool) (s : ps) : ps :=
  let s := insert_element name a s in
  let s := tok_state (if rawtext then rawtextState else rcdataState) s in
  set_ph textP (set_orig (ph s) s).

Definition starts_with_any (pfx : list str) (x : str) : bool := existsb (fun p => starts_with p x) pfx.

(* ================================================================================================== *)
(* list helpers with Python semantics *)
Definition py_nth (l : list nat) (i : Z) : option nat :=        (* l[i], negative from the end *)
  let n := Z.of_nat (length l) in
  let j := if (i <? 0)%Z then (n + i)%Z else i in
  if ((j <? 0) || (n <=? j))%Z then None else nth_error l (Z.to_nat j).
Fixpoint insert_at {A} (i : nat) (x : A) (l : list A) : list A :=
  match i, l with
  | O, _ => x :: l
  | S j, y :: r => y :: insert_at j x r
  | S _, [] => [x]
  end.
Fixpoint replace_nat (old new : nat) (l : list nat) : list nat :=
  match l with [] => [] | y :: r => if Nat.eqb y old then new :: r else y :: replace_nat old new r end.
Fixpoint afe_index (x : nat) (l : list (option nat)) : option nat :=
  match l with
  | [] => None
  | Some y :: r => if Nat.eqb x y then Some O else option_map S (afe_index x r)
  | None :: r => option_map S (afe_index x r)
  end.

Definition R (s : ps) : ps * option ttok := (s, None).
Definition RT (t : ttok) (s : ps) : ps * option ttok := (s, Some t).
Definition assert_inner (site : string) (s : ps) : ps :=
  match inner s with Some _ => s | None => crashed (S' site) s end.

Definition append_root (s : ps) : ps :=          (* insertRoot: document.appendChild does not set .parent *)
  let '(s, x) := create_element (htmlns s) (S' "html") [] s in
  let s := wd (fun dd => upd (upd dd doc_id (fun n => mk_node (kind n) (kids n ++ [x]) (par n) (wp n)))
                             x (fun n => mk_node (kind n) (kids n) (Some doc_id) None)) s in
  push x s.
Definition append_to_document (k : nkind) (s : ps) : ps :=
  let '(d', x) := new_node (d s) k in
  set_d (upd (upd d' doc_id (fun n => mk_node (kind n) (kids n ++ [x]) (par n) (wp n)))
             x (fun n => mk_node (kind n) [] (Some doc_id) None)) s.

(* Phase.startTagHtml: attributes the root does not have yet.  This path goes through AttrList.__setitem__ ->
   createAttribute + NamedNodeMap.__setitem__ (setNamedItem), which -- unlike setAttribute on the insertElement path --
   does not remove an attribute that collides on (namespaceURI, localName): no minidom collision here *)
Definition merge_attrs_into (x : nat) (a : attrs) (s : ps) : ps :=
  wd (fun dd => set_attrs dd x (fold_left (fun acc kv => match alookup (fst kv) acc with
                                                          | Some _ => acc
                                                          | None => acc ++ [kv] end) a (eattrs dd x))) s.
Definition start_tag_html (a : attrs) (s : ps) : ps :=
  match opn s with x :: _ => merge_attrs_into x a s | [] => crashed (S' "startTagHtml: empty stack") s end.

Definition is_quirky (name : str) (pub sys : option str) (correct : bool) : bool :=
  let p := match pub with Some x => lower_str x | None => [] end in
  negb correct || negb (str_eqb name (S' "html")) ||
  starts_with_any quirks_prefixes p || mem_str p quirks_exact ||
  (starts_with_any quirks_prefixes_no_sysid p && match sys with None => true | Some _ => false end) ||
  match sys with
  | Some (c :: r) => str_eqb (lower_str (c :: r)) (S' "http://www.ibm.com/data/dtd/v11/ibmxhtml1-transitional.dtd")
  | _ => false
  end.

Definition tag_is (n : str) (l : list string) : bool := name_in n l.

Section Handlers.
  (* processX of a phase, selected by the kind of the token *)
  Variable rec : phase -> ttok -> ps -> ps * option ttok.

  Definition call (p : phase) (t : ttok) (s : ps) : ps := fst (rec p t s).     (* result discarded *)

  (* ---------------- initial ---------------- *)
  Definition initial_anything_else (s : ps) : ps := set_ph beforeHtmlP (set_quirks true s).
  Definition h_initial (t : ttok) (s : ps) : ps * option ttok :=
    match t with
    | KSpace _ => R s
    | KComment' c => R (insert_comment c doc_id s)
    | KDoctype' n p sy c =>
        let s := append_to_document (KDoctype n p sy) s in
        let s := if is_quirky n p sy c then set_quirks true s else s in
        R (set_ph beforeHtmlP s)
    | _ => RT t (initial_anything_else s)
    end.

  (* ---------------- beforeHtml ---------------- *)
  Definition insert_html_element (s : ps) : ps := set_ph beforeHeadP (append_root s).
  Definition h_before_html (t : ttok) (s : ps) : ps * option ttok :=
    match t with
    | KSpace _ => R s
    | KComment' c => R (insert_comment c doc_id s)
    | KDoctype' _ _ _ _ => R s
    | KChars _ | KStart _ _ _ => RT t (insert_html_element s)
    | KEnd n => if tag_is n ["head"; "body"; "html"; "br"] then RT t (insert_html_element s) else R s
    end.

  (* ---------------- beforeHead ---------------- *)
  Definition start_tag_head (a : attrs) (s : ps) : ps :=
    let s := insert_element (S' "head") a s in set_ph inHeadP (set_headp (top s) s).
  Definition h_before_head (t : ttok) (s : ps) : ps * option ttok :=
    match t with
    | KSpace _ => R s
    | KChars _ => RT t (start_tag_head [] s)
    | KComment' c => R (insert_comment_top c s)
    | KDoctype' _ _ _ _ => R s
    | KStart n a sc =>
        if tag_is n ["html"] then rec inBodyP t s
        else if tag_is n ["head"] then R (start_tag_head a s)
        else RT t (start_tag_head [] s)
    | KEnd n => if tag_is n ["head"; "body"; "html"; "br"] then RT t (start_tag_head [] s) else R s
    end.

  (* ---------------- inHead ---------------- *)
  Definition end_tag_head (s : ps) : ps :=
    match top s with
    | None => crashed (S' "pop from empty stack") s
    | Some x => let s' := pop s in
                let s' := if str_eqb (ename (d s) x) (S' "head") then s' else crashed (S' "endTagHead: assert node.name == head") s' in
                set_ph afterHeadP s'
    end.
  Definition h_in_head (t : ttok) (s : ps) : ps * option ttok :=
    match t with
    | KChars _ => RT t (end_tag_head s)
    | KSpace x => R (insert_text_tree x s)
    | KComment' c => R (insert_comment_top c s)
    | KDoctype' _ _ _ _ => R s
    | KStart n a sc =>
        if tag_is n ["html"] then rec inBodyP t s
        else if tag_is n ["title"] then R (parse_rcdata_rawtext n a false s)
        else if tag_is n ["noframes"; "style"] then R (parse_rcdata_rawtext n a true s)
        else if tag_is n ["noscript"] then
          if scripting s then R (parse_rcdata_rawtext n a true s)
          else R (set_ph inHeadNoscriptP (insert_element n a s))
        else if tag_is n ["script"] then
          let s := insert_element n a s in
          let s := tok_state scriptDataState s in
          R (set_ph textP (set_orig (ph s) s))
        else if tag_is n ["base"; "basefont"; "bgsound"; "command"; "link"; "meta"] then R (pop (insert_element n a s))
        else if tag_is n ["head"] then R s
        else RT t (end_tag_head s)
    | KEnd n =>
        if tag_is n ["head"] then R (end_tag_head s)
        else if tag_is n ["br"; "html"; "body"] then RT t (end_tag_head s)
        else R s
    end.

  (* ---------------- inHeadNoscript ---------------- *)
  Definition end_tag_noscript (s : ps) : ps :=
    match top s with
    | None => crashed (S' "pop from empty stack") s
    | Some x => let s' := pop s in
                let s' := if str_eqb (ename (d s) x) (S' "noscript") then s'
                          else crashed (S' "endTagNoscript: assert node.name == noscript") s' in
                set_ph inHeadP s'
    end.
  Definition h_in_head_noscript (t : ttok) (s : ps) : ps * option ttok :=
    match t with
    | KComment' c => R (insert_comment_top c s)
    | KChars _ => RT t (end_tag_noscript s)
    | KSpace x => R (insert_text_tree x s)
    | KDoctype' _ _ _ _ => R s
    | KStart n a sc =>
        if tag_is n ["html"] then rec inBodyP t s
        else if tag_is n ["basefont"; "bgsound"; "link"; "meta"; "noframes"; "style"] then rec inHeadP t s
        else if tag_is n ["head"; "noscript"] then R s
        else RT t (end_tag_noscript s)
    | KEnd n =>
        if tag_is n ["noscript"] then R (end_tag_noscript s)
        else if tag_is n ["br"] then RT t (end_tag_noscript s)
        else R s
    end.

  (* ---------------- afterHead ---------------- *)
  Definition after_head_anything_else (s : ps) : ps :=
    set_fsok true (set_ph inBodyP (insert_element (S' "body") [] s)).
  Definition remove_last_named (n : string) (s : ps) : ps :=
    match find (fun x => str_eqb (ename (d s) x) (S' n)) (rev (opn s)) with
    | Some x => set_opn (rev (remove_nat x (rev (opn s)))) s
    | None => s
    end.
  Definition h_after_head (t : ttok) (s : ps) : ps * option ttok :=
    match t with
    | KChars _ => RT t (after_head_anything_else s)
    | KSpace x => R (insert_text_tree x s)
    | KComment' c => R (insert_comment_top c s)
    | KDoctype' _ _ _ _ => R s
    | KStart n a sc =>
        if tag_is n ["html"] then rec inBodyP t s
        else if tag_is n ["body"] then R (set_ph inBodyP (insert_element n a (set_fsok false s)))
        else if tag_is n ["frameset"] then R (set_ph inFramesetP (insert_element n a s))
        else if tag_is n ["base"; "basefont"; "bgsound"; "link"; "meta"; "noframes"; "script"; "style"; "title"] then
          match headp s with
          | None => R (crashed (S' "startTagFromHead: headPointer is None") s)
          | Some h => let s := push h s in
                      let s := call inHeadP t s in
                      R (remove_last_named "head" s)
          end
        else if tag_is n ["head"] then R s
        else RT t (after_head_anything_else s)
    | KEnd n => if tag_is n ["body"; "html"; "br"] then RT t (after_head_anything_else s) else R s
    end.

  (* ---------------- text ---------------- *)
  Definition h_text (t : ttok) (s : ps) : ps * option ttok :=
    match t with
    | KChars x | KSpace x => R (insert_text_tree x s)
    | KComment' c => R (insert_comment_top c s)
    | KDoctype' _ _ _ _ => R s
    | KStart _ _ _ => R (crashed (S' "TextPhase.startTagOther: assert False") s)
    | KEnd n =>
        match top s with
        | None => R (crashed (S' "pop from empty stack") s)
        | Some x =>
            let s' := pop s in
            let s' := if tag_is n ["script"] && negb (str_eqb (ename (d s) x) (S' "script"))
                      then crashed (S' "endTagScript: assert node.name == script") s' else s' in
            R (set_ph (orig s') s')
        end
    end.

  (* ---------------- inBody ---------------- *)
  Definition reconstruct_for_text (s : ps) : ps := if cur_is s "textarea" then s else reconstruct s.
  Definition body_chars (x : str) (s : ps) : ps :=
    if str_eqb x [0] then s
    else let s := insert_text_tree x (reconstruct_for_text s) in
         if fsok s && negb (is_ws_str x) then set_fsok false s else s.
  Definition body_space (x : str) (s : ps) : ps :=
    if dropnl s then
      let s := set_dropnl false s in
      let x' := match x with
                | 10 :: r => if name_in (cur_name s) ["pre"; "listing"; "textarea"] && negb (has_content (d s) (top_or s))
                             then r else x
                | _ => x end in
      match x' with [] => s | _ => insert_text_tree x' (reconstruct_for_text s) end
    else insert_text_tree x (reconstruct_for_text s).

  Definition end_tag_p_inner (s : ps) : ps := pop_until_name (S' "p") (gen_implied (Some (S' "p")) s).
  Definition end_tag_p (s : ps) : ps :=
    if in_scope "p" VButton s then end_tag_p_inner s
    else end_tag_p_inner (insert_element (S' "p") [] s).
  Definition close_p (s : ps) : ps := if in_scope "p" VButton s then end_tag_p s else s.

  Definition is_special (s : ps) (x : nat) : bool := mem_pair (name_tuple s x) special_elements.

  Definition end_tag_other (n : str) (s : ps) : ps :=
    let fix go (rs : list nat) : ps :=
        match rs with
        | [] => s
        | x :: r => if str_eqb (hname s x) n then
                      let s := gen_implied (Some n) s in
                      pop_until (fun _ y => Nat.eqb y x) s
                    else if is_special s x then s else go r
        end in
    go (rev (opn s)).

  Definition remove_open (x : nat) (s : ps) : ps := set_opn (remove_nat x (opn s)) s.
  Definition clone_node (x : nat) (s : ps) : ps * nat := create_element (ens (d s) x) (ename (d s) x) (eattrs (d s) x) s.
  Definition detach_if_parent (x : nat) (s : ps) : ps :=
    match wp (get (d s) x) with Some p => wd (fun dd => remove_child dd p x) s | None => s end.

  (* the adoption agency algorithm: endTagFormatting *)
  Definition aaa_once (n : str) (s : ps) : ps * bool :=            (* bool: run the outer loop again *)
    match in_afe_by_name_str n s with
    | None => (end_tag_other n s, false)
    | Some fe =>
        let fe_open := mem_nat fe (opn s) in
        (* in the stack but not in scope (the element itself, not its name): ignored -- repaired in /repo *)
        if fe_open && negb (node_in_scope fe s) then (s, false)
        else if negb fe_open then (set_afe (remove_opt fe (afe s)) s, false)
        else
          match index_of fe (opn s) with
          | None => (s, false)
          | Some afeIndex =>
              match find (is_special s) (skipn afeIndex (opn s)) with
              | None =>
                  let s := pop_until (fun _ y => Nat.eqb y fe) s in
                  (set_afe (remove_opt fe (afe s)) s, false)
              | Some fb =>
                  match py_nth (opn s) (Z.of_nat afeIndex - 1), afe_index fe (afe s), index_of fb (opn s) with
                  | Some common, Some bm0, Some fbi =>
                      (* the inner loop runs down to the formatting element; from its fourth step on, nodes leave the
                         list (repaired in /repo: it used to stop after three steps).  [cnt] is fuel: the stack depth *)
                      let fix inner (cnt : nat) (k : nat) (index : Z) (lastNode : nat) (bookmark : nat) (s : ps)
                          : ps * nat * nat :=
                          match cnt with
                          | O => (crashed (S' "adoption agency: inner loop fuel") s, lastNode, bookmark)
                          | S cnt' =>
                              let k := S k in
                              let index := (index - 1)%Z in
                              match py_nth (opn s) index with
                              | None => (crashed (S' "adoption agency: stack index out of range") s, lastNode, bookmark)
                              | Some node =>
                                  if Nat.eqb node fe then (s, lastNode, bookmark) else
                                  let '(s, bookmark) :=
                                    if Nat.ltb 3 k && afe_mem node (afe s) then
                                      (set_afe (remove_opt node (afe s)) s,
                                       match afe_index node (afe s) with
                                       | Some i => if Nat.ltb i bookmark then Nat.pred bookmark else bookmark
                                       | None => bookmark end)
                                    else (s, bookmark) in
                                  if negb (afe_mem node (afe s)) then inner cnt' k index lastNode bookmark (remove_open node s)
                                  else
                                    let bookmark := if Nat.eqb lastNode fb
                                                    then match afe_index node (afe s) with Some i => S i | None => bookmark end
                                                    else bookmark in
                                    let '(s, clone) := clone_node node s in
                                    let s := match afe_index node (afe s) with
                                             | Some i => set_afe (set_nth_opt (afe s) i (Some clone)) s | None => s end in
                                    let s := set_opn (replace_nat node clone (opn s)) s in
                                    let s := detach_if_parent lastNode s in
                                    let s := wd (fun dd => append_child dd clone lastNode) s in
                                    inner cnt' k index clone bookmark s
                              end
                          end in
                      let '(s, lastNode, bookmark) := inner (S (length (opn s))) 0%nat (Z.of_nat fbi) fb bm0 s in
                      let s := detach_if_parent lastNode s in
                      let s :=
                        if name_in (hname s common) ["table"; "tbody"; "tfoot"; "thead"; "tr"] then
                          match misnested_position' s with
                          | Some (p, Some r) =>
                              match insert_before (d s) p lastNode r with
                              | Some d' => set_d d' s
                              | None => crashed (S' "adoption agency: insertBefore reference is not a child") s
                              end
                          | Some (p, None) => wd (fun dd => append_child dd p lastNode) s
                          | None => crashed (S' "getTableMisnestedNodePosition") s
                          end
                        else wd (fun dd => append_child dd common lastNode) s in
                      let '(s, clone) := clone_node fe s in
                      let s := wd (fun dd => reparent_children dd fb clone) s in
                      let s := wd (fun dd => append_child dd fb clone) s in
                      (* removing the formatting element shifts a bookmark that was moved behind it (repaired in /repo) *)
                      let bookmark := match afe_index fe (afe s) with
                                      | Some i => if Nat.ltb i bookmark then Nat.pred bookmark else bookmark
                                      | None => bookmark end in
                      let s := set_afe (insert_at bookmark (Some clone) (remove_opt fe (afe s))) s in
                      let s := remove_open fe s in
                      let s := match index_of fb (opn s) with
                               | Some i => set_opn (insert_at (S i) clone (opn s)) s
                               | None => crashed (S' "adoption agency: furthest block left the stack") s
                               end in
                      (s, true)
                  | _, _, _ => (crashed (S' "adoption agency: index lookup failed") s, false)
                  end
              end
          end
    end.
  Fixpoint aaa (cnt : nat) (n : str) (s : ps) : ps :=
    match cnt with
    | O => s
    | S c => let '(s, again) := aaa_once n s in if again then aaa c n s else s
    end.
  Definition end_tag_formatting (n : str) (s : ps) : ps :=
    if str_eqb (ename (d s) (top_or s)) n && opt_str_eqb (ens (d s) (top_or s)) (htmlns s) &&
       negb (afe_mem (top_or s) (afe s))
    then pop s else aaa 8%nat n s.

  Definition void_formatting (n : str) (a : attrs) (s : ps) : ps :=
    set_fsok false (pop (insert_element n a (reconstruct s))).
  Definition foreign_start (ns : str) (adj : list (str * str)) (n : str) (a : attrs) (sc : bool) (s : ps) : ps :=
    let s := reconstruct s in
    let s := insert_element_ns (Some ns) n (adjust_foreign_attrs (adjust_names adj a)) s in
    if sc then pop s else s.

  Definition in_body_start (t : ttok) (n : str) (a : attrs) (sc : bool) (s : ps) : ps * option ttok :=
    if tag_is n ["html"] then R (start_tag_html a s)
    else if tag_is n ["base"; "basefont"; "bgsound"; "command"; "link"; "meta"; "script"; "style"; "title"] then rec inHeadP t s
    else if tag_is n ["body"] then
      match opn s with
      | _ :: b :: _ =>
          if str_eqb (hname s b) (S' "body") then R (merge_attrs_into b a (set_fsok false s))
          else R (assert_inner "InBody.startTagBody: assert self.parser.innerHTML" s)
      | _ => R (assert_inner "InBody.startTagBody: assert self.parser.innerHTML" s)
      end
    else if tag_is n ["frameset"] then
      match opn s with
      | _ :: b :: _ =>
          if negb (str_eqb (hname s b) (S' "body")) then R (assert_inner "InBody.startTagFrameset: assert self.parser.innerHTML" s)
          else if negb (fsok s) then R s
          else
            let s := detach_if_parent b s in
            let s := pop_to_root s in
            R (set_ph inFramesetP (insert_element n a s))
      | _ => R (assert_inner "InBody.startTagFrameset: assert self.parser.innerHTML" s)
      end
    else if tag_is n ["address"; "article"; "aside"; "blockquote"; "center"; "details"; "dir"; "div"; "dl"; "fieldset";
                      "figcaption"; "figure"; "footer"; "header"; "hgroup"; "main"; "menu"; "nav"; "ol"; "p"; "section";
                      "summary"; "ul"; "dialog"] then R (insert_element n a (close_p s))
    else if mem_str n heading_elements then
      let s := close_p s in
      let s := if mem_str (cur_name s) heading_elements then pop s else s in
      R (insert_element n a s)
    else if tag_is n ["pre"; "listing"] then R (set_dropnl true (set_fsok false (insert_element n a (close_p s))))
    else if tag_is n ["form"] then
      match formp s with
      | Some _ => R s
      | None => let s := insert_element n a (close_p s) in R (set_formp (top s) s)
      end
    else if tag_is n ["li"; "dd"; "dt"] then
      let s := set_fsok false s in
      let stops := if tag_is n ["li"] then ["li"] else ["dt"; "dd"] in
      let fix go (rs : list nat) : ps :=
          match rs with
          | [] => s
          | x :: r => if name_in (hname s x) stops then call (ph s) (KEnd (ename (d s) x)) s
                      else if is_special s x && negb (name_in (hname s x) ["address"; "div"; "p"]) then s
                      else go r
          end in
      let s := go (rev (opn s)) in
      let s := if in_scope "p" VButton s then call (ph s) (KEnd (S' "p")) s else s in
      R (insert_element n a s)
    else if tag_is n ["plaintext"] then R (tok_state plaintextState (insert_element n a (close_p s)))
    else if tag_is n ["a"] then
      let s := match in_afe_by_name "a" s with
               | Some x =>
                   let s := end_tag_formatting (S' "a") s in
                   let s := if mem_nat x (opn s) then remove_open x s else s in
                   if afe_mem x (afe s) then set_afe (remove_opt x (afe s)) s else s
               | None => s
               end in
      R (add_formatting_element n a (reconstruct s))
    else if tag_is n ["b"; "big"; "code"; "em"; "font"; "i"; "s"; "small"; "strike"; "strong"; "tt"; "u"] then
      R (add_formatting_element n a (reconstruct s))
    else if tag_is n ["nobr"] then
      let s := reconstruct s in
      let s := if in_scope "nobr" VDefault s then reconstruct (call inBodyP (KEnd (S' "nobr")) s) else s in
      R (add_formatting_element n a s)
    else if tag_is n ["button"] then
      if in_scope "button" VDefault s then RT t (call inBodyP (KEnd (S' "button")) s)
      else R (set_fsok false (insert_element n a (reconstruct s)))
    else if tag_is n ["applet"; "marquee"; "object"] then
      let s := insert_element n a (reconstruct s) in R (set_fsok false (afe_append s None))
    else if tag_is n ["xmp"] then R (parse_rcdata_rawtext n a true (set_fsok false (reconstruct (close_p s))))
    else if tag_is n ["table"] then
      let s := if negb (quirks s) && in_scope "p" VButton s then call inBodyP (KEnd (S' "p")) s else s in
      R (set_ph inTableP (set_fsok false (insert_element n a s)))
    else if tag_is n ["area"; "br"; "embed"; "img"; "keygen"; "wbr"] then R (void_formatting n a s)
    else if tag_is n ["param"; "source"; "track"] then R (pop (insert_element n a s))
    else if tag_is n ["input"] then
      let ok := fsok s in
      let s := void_formatting n a s in
      match lower_attr "type" a with
      | Some v => if str_eqb v (S' "hidden") then R (set_fsok ok s) else R s
      | None => R s
      end
    else if tag_is n ["hr"] then R (set_fsok false (pop (insert_element n a (close_p s))))
    else if tag_is n ["image"] then R (call inBodyP (KStart (S' "img") a sc) s)
    else if tag_is n ["isindex"] && negb (flag F_isindex s) then
      match formp s with
      | Some _ => R s
      | None =>
          let fa := match attr_get "action" a with Some v => [((None, S' "action"), v)] | None => [] end in
          let s := call inBodyP (KStart (S' "form") fa false) s in
          let s := call inBodyP (KStart (S' "hr") [] false) s in
          let s := call inBodyP (KStart (S' "label") [] false) s in
          let prompt := match attr_get "prompt" a with
                        | Some v => v
                        | None => S' "This is a searchable index. Enter search keywords: " end in
          let s := call inBodyP (KChars prompt) s in
          let a' := filter (fun kv => negb (akey_eqb (fst kv) (None, S' "action") || akey_eqb (fst kv) (None, S' "prompt"))) a in
          let a' := aset a' (None, S' "name") (S' "isindex") in
          let s := call inBodyP (KStart (S' "input") a' sc) s in
          let s := call inBodyP (KEnd (S' "label")) s in
          let s := call inBodyP (KStart (S' "hr") [] false) s in
          R (call inBodyP (KEnd (S' "form")) s)
      end
    else if tag_is n ["textarea"] then
      R (set_fsok false (set_dropnl true (tok_state rcdataState (insert_element n a s))))
    else if tag_is n ["iframe"] then R (parse_rcdata_rawtext n a true (set_fsok false s))
    else if tag_is n ["noscript"] then
      if scripting s then R (parse_rcdata_rawtext n a true s) else R (insert_element n a (reconstruct s))
    else if tag_is n ["noembed"; "noframes"] then R (parse_rcdata_rawtext n a true s)
    else if tag_is n ["select"] then
      let s := set_fsok false (insert_element n a (reconstruct s)) in
      if existsb (phase_eqb (ph s)) [inTableP; inCaptionP; inColumnGroupP; inTableBodyP; inRowP; inCellP]
      then R (set_ph inSelectInTableP s) else R (set_ph inSelectP s)
    else if tag_is n ["rp"; "rt"] then
      let s := if in_scope "ruby" VDefault s
               then gen_implied (Some (S' "rtc")) s else s in R (insert_element n a s)
    else if tag_is n ["rb"; "rtc"] then
      let s := if in_scope "ruby" VDefault s then gen_implied None s else s in R (insert_element n a s)
    else if tag_is n ["option"; "optgroup"] then
      let s := if cur_is s "option" then call (ph s) (KEnd (S' "option")) s else s in
      R (insert_element n a (reconstruct s))
    else if tag_is n ["math"] then R (foreign_start mathml_ns adjust_mathml n a sc s)
    else if tag_is n ["svg"] then R (foreign_start svg_ns adjust_svg n a sc s)
    else if tag_is n ["caption"; "col"; "colgroup"; "frame"; "head"; "tbody"; "td"; "tfoot"; "th"; "thead"; "tr"] then R s
    else R (insert_element n a (reconstruct s)).

  Definition in_body_end (t : ttok) (n : str) (s : ps) : ps * option ttok :=
    if tag_is n ["body"] then
      if in_scope "body" VDefault s then R (set_ph afterBodyP s) else R s
    else if tag_is n ["html"] then
      if in_scope "body" VDefault s then RT t (set_ph afterBodyP s) else R s
    else if tag_is n ["address"; "article"; "aside"; "blockquote"; "button"; "center"; "details"; "dialog"; "dir"; "div";
                      "dl"; "fieldset"; "figcaption"; "figure"; "footer"; "header"; "hgroup"; "listing"; "main"; "menu";
                      "nav"; "ol"; "pre"; "section"; "summary"; "ul"] then
      let s := if tag_is n ["pre"] then set_dropnl false s else s in
      if in_scope_str n VDefault s then R (pop_until_name n (gen_implied None s)) else R s
    else if tag_is n ["form"] then
      let node := formp s in
      let s := set_formp None s in
      match node with
      | None => R s
      | Some x => if node_in_scope x s then R (remove_open x (gen_implied None s)) else R s
      end
    else if tag_is n ["p"] then R (end_tag_p s)
    else if tag_is n ["dd"; "dt"; "li"] then
      if in_scope_str n (if tag_is n ["li"] then VList else VDefault) s
      then R (pop_until_name n (gen_implied (Some n) s)) else R s
    else if mem_str n heading_elements then
      let any_heading (s : ps) := existsb (fun h => in_scope_str h VDefault s) heading_elements in
      let s := if any_heading s then gen_implied None s else s in
      if any_heading s then R (pop_until (fun s' x => mem_str (hname s' x) heading_elements) s) else R s
    else if tag_is n ["a"; "b"; "big"; "code"; "em"; "font"; "i"; "nobr"; "s"; "small"; "strike"; "strong"; "tt"; "u"] then
      R (end_tag_formatting n s)
    else if tag_is n ["applet"; "marquee"; "object"] then
      let s := if in_scope_str n VDefault s then gen_implied None s else s in
      if in_scope_str n VDefault s then R (clear_afe (pop_until_name n s)) else R s
    else if tag_is n ["br"] then R (set_fsok false (pop (insert_element (S' "br") [] (reconstruct s))))   (* frameset-ok: repaired in /repo *)
    else R (end_tag_other n s).

  Definition h_in_body (t : ttok) (s : ps) : ps * option ttok :=
    match t with
    | KChars x => R (body_chars x s)
    | KSpace x => R (body_space x s)
    | KComment' c => R (insert_comment_top c s)
    | KDoctype' _ _ _ _ => R s
    | KStart n a sc => in_body_start t n a sc s
    | KEnd n => in_body_end t n s
    end.

  (* ---------------- inTable & friends ---------------- *)
  (* InTablePhase.currentNodeTakesTableText (repaired in /repo: the test was missing) *)
  Definition takes_table_text (s : ps) : bool :=
    opt_str_eqb (ens (d s) (top_or s)) (htmlns s) && name_in (ename (d s) (top_or s)) ["table"; "tbody"; "tfoot"; "thead"; "tr"].
  Definition table_chars (t : ttok) (s : ps) : ps :=
    if negb (takes_table_text s) then set_ftab (ftab s) (call inBodyP t (set_ftab true s)) else
    let s := set_tt (ph s) (ttchars s) (set_ph inTableTextP s) in
    match t with
    | KChars x => if str_eqb x [0] then s else set_tt (ttorig s) (ttchars s ++ [x]) s
    | KSpace x => set_tt (ttorig s) (ttchars s ++ [x]) s
    | _ => s
    end.
  Definition flush_characters (s : ps) : ps :=
    let data := List.concat (ttchars s) in
    let s := if negb (is_ws_str data) then set_ftab false (call inBodyP (KChars data) (set_ftab true s))
             else match data with [] => s | _ => insert_text_tree data s end in
    set_tt (ttorig s) [] s.

  Definition clear_to_table (s : ps) : ps := pop_while_not_html ["table"; "html"] s.
  (* the previous value of insertFromTable is restored and the handler's result is returned (both repaired in /repo) *)
  Definition table_voodoo (t : ttok) (s : ps) : ps * option ttok :=
    let r := rec inBodyP t (set_ftab true s) in (set_ftab (ftab s) (fst r), snd r).
  Definition end_tag_table (s : ps) : ps :=
    if in_scope "table" VTable s then
      reset_insertion_mode (pop (pop_while_not ["table"] (gen_implied None s)))
    else assert_inner "InTable.endTagTable: assert self.parser.innerHTML" s.
  Definition h_in_table (t : ttok) (s : ps) : ps * option ttok :=
    match t with
    | KChars _ | KSpace _ => R (table_chars t s)
    | KComment' c => R (insert_comment_top c s)
    | KDoctype' _ _ _ _ => R s
    | KStart n a sc =>
        if tag_is n ["html"] then R (start_tag_html a s)
        else if tag_is n ["caption"] then
          R (set_ph inCaptionP (insert_element n a (afe_append (clear_to_table s) None)))
        else if tag_is n ["colgroup"] then R (set_ph inColumnGroupP (insert_element n a (clear_to_table s)))
        else if tag_is n ["col"] then RT t (set_ph inColumnGroupP (insert_element (S' "colgroup") [] (clear_to_table s)))
        else if tag_is n ["tbody"; "tfoot"; "thead"] then R (set_ph inTableBodyP (insert_element n a (clear_to_table s)))
        else if tag_is n ["td"; "th"; "tr"] then RT t (set_ph inTableBodyP (insert_element (S' "tbody") [] (clear_to_table s)))
        else if tag_is n ["table"] then
          (* reprocess iff a table element was in table scope (repaired in /repo; it used to test parser.innerHTML) *)
          let insc := in_scope "table" VTable s in
          let s := call (ph s) (KEnd (S' "table")) s in
          if insc then RT t s else R s
        else if tag_is n ["style"; "script"] then rec inHeadP t s
        else if tag_is n ["input"] then
          match lower_attr "type" a with
          | Some v => if str_eqb v (S' "hidden") then R (pop (insert_element n a s)) else table_voodoo t s
          | None => table_voodoo t s
          end
        else if tag_is n ["form"] then
          match formp s with
          | None => let s := insert_element n a s in R (pop (set_formp (top s) s))
          | Some _ => R s
          end
        else table_voodoo t s
    | KEnd n =>
        if tag_is n ["table"] then R (end_tag_table s)
        else if tag_is n ["body"; "caption"; "col"; "colgroup"; "html"; "tbody"; "td"; "tfoot"; "th"; "thead"; "tr"] then R s
        else table_voodoo t s
    end.

  Definition h_in_table_text (t : ttok) (s : ps) : ps * option ttok :=
    match t with
    | KChars x => if str_eqb x [0] then R s else R (set_tt (ttorig s) (ttchars s ++ [x]) s)
    | KSpace x => R (set_tt (ttorig s) (ttchars s ++ [x]) s)
    | _ => let s := flush_characters s in RT t (set_ph (ttorig s) s)      (* a doctype too (repaired in /repo) *)
    end.

  Definition ignore_end_caption (s : ps) : bool := negb (in_scope "caption" VTable s).
  Definition end_tag_caption (s : ps) : ps :=
    if negb (ignore_end_caption s) then
      set_ph inTableP (clear_afe (pop (pop_while_not ["caption"] (gen_implied None s))))
    else assert_inner "InCaption.endTagCaption: assert self.parser.innerHTML" s.
  Definition h_in_caption (t : ttok) (s : ps) : ps * option ttok :=
    let close_and_reprocess :=
      let ign := ignore_end_caption s in
      let s := call (ph s) (KEnd (S' "caption")) s in
      if ign then R s else RT t s in
    match t with
    | KChars _ => rec inBodyP t s
    | KSpace _ => rec inBodyP t s          (* in-body rules for whitespace too (repaired in /repo) *)
    | KComment' c => R (insert_comment_top c s)
    | KDoctype' _ _ _ _ => R s
    | KStart n a sc =>
        if tag_is n ["html"] then R (start_tag_html a s)
        else if tag_is n ["caption"; "col"; "colgroup"; "tbody"; "td"; "tfoot"; "th"; "thead"; "tr"] then close_and_reprocess
        else rec inBodyP t s
    | KEnd n =>
        if tag_is n ["caption"] then R (end_tag_caption s)
        else if tag_is n ["table"] then close_and_reprocess
        else if tag_is n ["body"; "col"; "colgroup"; "html"; "tbody"; "td"; "tfoot"; "th"; "thead"; "tr"] then R s
        else rec inBodyP t s
    end.

  (* Phase.processCharactersKeepSpaces (repaired in /repo: the whole token used to be ignored): where a character
     token is ignored, its whitespace still goes to the phase's processSpaceCharacters *)
  Definition keep_spaces (x : str) (k : str -> ps -> ps * option ttok) (s : ps) : ps * option ttok :=
    match filter is_space x with [] => R s | w => k w s end.
  Definition ignore_end_colgroup (s : ps) : bool := cur_is s "html".
  Definition end_tag_colgroup (s : ps) : ps :=
    if ignore_end_colgroup s then assert_inner "InColumnGroup.endTagColgroup: assert self.parser.innerHTML" s
    else set_ph inTableP (pop s).
  Definition h_in_column_group (t : ttok) (s : ps) : ps * option ttok :=
    let act :=
      let ign := ignore_end_colgroup s in
      let s := end_tag_colgroup s in
      if ign then R s else RT t s in
    match t with
    | KChars x => if ignore_end_colgroup s then keep_spaces x (fun w s => R (insert_text_tree w s)) (end_tag_colgroup s) else act
    | KSpace x => R (insert_text_tree x s)
    | KComment' c => R (insert_comment_top c s)
    | KDoctype' _ _ _ _ => R s
    | KStart n a sc =>
        if tag_is n ["html"] then R (start_tag_html a s)
        else if tag_is n ["col"] then R (pop (insert_element n a s))
        else act
    | KEnd n =>
        if tag_is n ["colgroup"] then R (end_tag_colgroup s)
        else if tag_is n ["col"] then R s
        else act
    end.

  Definition clear_to_table_body (s : ps) : ps :=
    let s := pop_while_not_html ["tbody"; "tfoot"; "thead"; "html"] s in
    if cur_is s "html" then assert_inner "clearStackToTableBodyContext: assert self.parser.innerHTML" s else s.
  Definition end_tag_row_group (n : str) (s : ps) : ps :=
    if in_scope_str n VTable s then set_ph inTableP (pop (clear_to_table_body s)) else s.
  Definition h_in_table_body (t : ttok) (s : ps) : ps * option ttok :=
    let table_other :=
      if in_scope "tbody" VTable s || in_scope "thead" VTable s || in_scope "tfoot" VTable s then
        let s := clear_to_table_body s in
        RT t (end_tag_row_group (cur_name s) s)
      else R (assert_inner "InTableBody.startTagTableOther/endTagTable: assert self.parser.innerHTML" s) in
    match t with
    | KChars _ | KSpace _ => R (table_chars t s)
    | KComment' c => R (insert_comment_top c s)
    | KDoctype' _ _ _ _ => R s
    | KStart n a sc =>
        if tag_is n ["html"] then R (start_tag_html a s)
        else if tag_is n ["tr"] then R (set_ph inRowP (insert_element n a (clear_to_table_body s)))
        else if tag_is n ["td"; "th"] then RT t (set_ph inRowP (insert_element (S' "tr") [] (clear_to_table_body s)))
        else if tag_is n ["caption"; "col"; "colgroup"; "tbody"; "tfoot"; "thead"] then table_other
        else rec inTableP t s
    | KEnd n =>
        if tag_is n ["tbody"; "tfoot"; "thead"] then R (end_tag_row_group n s)
        else if tag_is n ["table"] then table_other
        else if tag_is n ["body"; "caption"; "col"; "colgroup"; "html"; "td"; "th"; "tr"] then R s
        else rec inTableP t s
    end.

  Definition clear_to_table_row (s : ps) : ps := pop_while_not_html ["tr"; "html"] s.
  Definition ignore_end_tr (s : ps) : bool := negb (in_scope "tr" VTable s).
  Definition end_tag_tr (s : ps) : ps :=
    if negb (ignore_end_tr s) then set_ph inTableBodyP (pop (clear_to_table_row s))
    else assert_inner "InRow.endTagTr: assert self.parser.innerHTML" s.
  Definition h_in_row (t : ttok) (s : ps) : ps * option ttok :=
    let close_row :=
      let ign := ignore_end_tr s in
      let s := end_tag_tr s in
      if ign then R s else RT t s in
    match t with
    | KChars _ | KSpace _ => R (table_chars t s)
    | KComment' c => R (insert_comment_top c s)
    | KDoctype' _ _ _ _ => R s
    | KStart n a sc =>
        if tag_is n ["html"] then R (start_tag_html a s)
        else if tag_is n ["td"; "th"] then
          let s := set_ph inCellP (insert_element n a (clear_to_table_row s)) in R (afe_append s None)
        else if tag_is n ["caption"; "col"; "colgroup"; "tbody"; "tfoot"; "thead"; "tr"] then close_row
        else rec inTableP t s
    | KEnd n =>
        if tag_is n ["tr"] then R (end_tag_tr s)
        else if tag_is n ["table"] then close_row
        else if tag_is n ["tbody"; "tfoot"; "thead"] then
          if in_scope_str n VTable s then RT t (end_tag_tr s) else R s
        else if tag_is n ["body"; "caption"; "col"; "colgroup"; "html"; "td"; "th"] then R s
        else rec inTableP t s
    end.

  Definition end_tag_table_cell (n : str) (s : ps) : ps :=
    if in_scope_str n VTable s then
      let s := gen_implied (Some n) s in
      let s := if negb (str_eqb (cur_name s) n) then pop_until_name n s else pop s in
      set_ph inRowP (clear_afe s)
    else s.
  Definition close_cell (s : ps) : ps :=
    if in_scope "td" VTable s then end_tag_table_cell (S' "td") s
    else if in_scope "th" VTable s then end_tag_table_cell (S' "th") s else s.
  Definition h_in_cell (t : ttok) (s : ps) : ps * option ttok :=
    match t with
    | KChars _ => rec inBodyP t s
    | KSpace _ => rec inBodyP t s          (* in-body rules for whitespace too (repaired in /repo) *)
    | KComment' c => R (insert_comment_top c s)
    | KDoctype' _ _ _ _ => R s
    | KStart n a sc =>
        if tag_is n ["html"] then R (start_tag_html a s)
        else if tag_is n ["caption"; "col"; "colgroup"; "tbody"; "td"; "tfoot"; "th"; "thead"; "tr"] then
          if in_scope "td" VTable s || in_scope "th" VTable s then RT t (close_cell s)
          else R (assert_inner "InCell.startTagTableOther: assert self.parser.innerHTML" s)
        else rec inBodyP t s
    | KEnd n =>
        if tag_is n ["td"; "th"] then R (end_tag_table_cell n s)
        else if tag_is n ["body"; "caption"; "col"; "colgroup"; "html"] then R s
        else if tag_is n ["table"; "tbody"; "tfoot"; "thead"; "tr"] then
          if in_scope_str n VTable s then RT t (close_cell s) else R s
        else rec inBodyP t s
    end.

  (* ---------------- select ---------------- *)
  Definition end_tag_select (s : ps) : ps :=
    if in_scope "select" VSelect s then reset_insertion_mode (pop_until_name (S' "select") s)
    else assert_inner "InSelect.endTagSelect: assert self.parser.innerHTML" s.
  Definition second_is (s : ps) (n : string) : bool :=
    match rev (opn s) with _ :: x :: _ => str_eqb (hname s x) (S' n) | _ => false end.
  Definition h_in_select (t : ttok) (s : ps) : ps * option ttok :=
    match t with
    | KChars x => if str_eqb x [0] then R s else R (insert_text_tree x s)
    | KSpace x => R (insert_text_tree x s)
    | KComment' c => R (insert_comment_top c s)
    | KDoctype' _ _ _ _ => R s
    | KStart n a sc =>
        if tag_is n ["html"] then R (start_tag_html a s)
        else if tag_is n ["option"] then
          R (insert_element n a (if cur_is s "option" then pop s else s))
        else if tag_is n ["optgroup"] then
          let s := if cur_is s "option" then pop s else s in
          let s := if cur_is s "optgroup" then pop s else s in
          R (insert_element n a s)
        else if tag_is n ["select"] then R (end_tag_select s)
        else if tag_is n ["input"; "keygen"; "textarea"] then
          if in_scope "select" VSelect s then RT t (end_tag_select s)
          else R (assert_inner "InSelect.startTagInput: assert self.parser.innerHTML" s)
        else if tag_is n ["script"] then rec inHeadP t s
        else R s
    | KEnd n =>
        if tag_is n ["option"] then R (if cur_is s "option" then pop s else s)
        else if tag_is n ["optgroup"] then
          let s := if cur_is s "option" && second_is s "optgroup" then pop s else s in
          R (if cur_is s "optgroup" then pop s else s)
        else if tag_is n ["select"] then R (end_tag_select s)
        else R s
    end.
  Definition h_in_select_in_table (t : ttok) (s : ps) : ps * option ttok :=
    let tbl := ["caption"; "table"; "tbody"; "tfoot"; "thead"; "tr"; "td"; "th"] in
    match t with
    | KChars _ => rec inSelectP t s
    | KSpace x => R (insert_text_tree x s)
    | KComment' c => R (insert_comment_top c s)
    | KDoctype' _ _ _ _ => R s
    | KStart n a sc => if tag_is n tbl then RT t (call inSelectP (KEnd (S' "select")) s) else rec inSelectP t s
    | KEnd n =>
        if tag_is n tbl then
          if in_scope_str n VTable s then RT t (call inSelectP (KEnd (S' "select")) s) else R s
        else rec inSelectP t s
    end.

  (* ---------------- foreign content ---------------- *)
  Fixpoint pop_foreign (fuel : nat) (s : ps) : ps :=
    match fuel with
    | O => s
    | S f => match top s with
             | None => crashed (S' "index on empty stack") s
             | Some x => if negb (opt_str_eqb (ens (d s) x) (htmlns s)) && negb (is_html_integration_point s x)
                            && negb (is_mathml_text_ip s x) then pop_foreign f (pop s) else s
             end
    end.
  Definition h_in_foreign (t : ttok) (s : ps) : ps * option ttok :=
    match t with
    | KChars x =>
        if str_eqb x [0] then R (insert_text_tree [65533] s)
        else R (insert_text_tree x (if fsok s && negb (is_ws_str x) then set_fsok false s else s))
    | KSpace x => R (insert_text_tree x s)
    | KComment' c => R (insert_comment_top c s)
    | KDoctype' _ _ _ _ => R s
    | KStart n a sc =>
        if mem_str n breakout_elements ||
           (tag_is n ["font"] && existsb (fun kv => existsb (akey_eqb (fst kv)) [(None, S' "color"); (None, S' "face"); (None, S' "size")]) a)
        then RT t (pop_foreign (S (length (opn s))) s)
        else
          let c := top_or s in
          let cns := ens (d s) c in
          let '(n', a') := if opt_str_eqb cns (Some mathml_ns) then (n, adjust_names adjust_mathml a)
                           else if opt_str_eqb cns (Some svg_ns)
                                then (match lookup_str svg_tag_names n with Some m => m | None => n end, adjust_names adjust_svg a)
                                else (n, a) in
          let s := insert_element_ns cns n' (adjust_foreign_attrs a') s in
          R (if sc then pop s else s)
    | KEnd n =>
        (* </br>, </p>: pop to an integration point or HTML element, then the current insertion mode (repaired in /repo;
           F_foreign_br_p is now without effect) *)
        if tag_is n ["br"; "p"] then let s' := pop_foreign (S (length (opn s))) s in rec (ph s') t s' else
        let fix go (fuel : nat) (idx : Z) (s : ps) : ps * option ttok :=
            match fuel with
            | O => R s
            | S f =>
                match py_nth (opn s) idx with
                | None => R (crashed (S' "InForeignContent.processEndTag: index out of range") s)
                | Some node =>
                    if str_eqb (lower_str (ename (d s) node)) n then
                      let s := if phase_eqb (ph s) inTableTextP then
                                 let s := flush_characters s in set_ph (ttorig s) s else s in
                      R (pop_until (fun _ y => Nat.eqb y node) s)
                    else
                      match py_nth (opn s) (idx - 1) with
                      | None => R (crashed (S' "InForeignContent.processEndTag: index out of range") s)
                      | Some below =>
                          if negb (opt_str_eqb (ens (d s) below) (htmlns s)) then go f (idx - 1)%Z s
                          else rec (ph s) t s
                      end
                end
            end in
        go (S (length (opn s))) (Z.of_nat (length (opn s)) - 1)%Z s
    end.

  (* ---------------- after body / framesets ---------------- *)
  Definition h_after_body (t : ttok) (s : ps) : ps * option ttok :=
    match t with
    | KComment' c => R (insert_comment c (root s) s)
    | KChars _ => RT t (set_ph inBodyP s)
    | KSpace x => rec inBodyP t s
    | KDoctype' _ _ _ _ => R s
    | KStart n a sc => if tag_is n ["html"] then rec inBodyP t s else RT t (set_ph inBodyP s)
    | KEnd n =>
        if tag_is n ["html"] then match inner s with Some _ => R s | None => R (set_ph afterAfterBodyP s) end
        else RT t (set_ph inBodyP s)
    end.
  Definition h_in_frameset (t : ttok) (s : ps) : ps * option ttok :=
    match t with
    | KChars x => keep_spaces x (fun w s => R (insert_text_tree w s)) s
    | KSpace x => R (insert_text_tree x s)
    | KComment' c => R (insert_comment_top c s)
    | KDoctype' _ _ _ _ => R s
    | KStart n a sc =>
        if tag_is n ["html"] then R (start_tag_html a s)
        else if tag_is n ["frameset"] then R (insert_element n a s)
        else if tag_is n ["frame"] then R (pop (insert_element n a s))
        else if tag_is n ["noframes"] then rec inBodyP t s
        else R s
    | KEnd n =>
        if tag_is n ["frameset"] then
          let s := if cur_is s "html" then s else pop s in
          match inner s with
          | None => if negb (cur_is s "frameset") then R (set_ph afterFramesetP s) else R s
          | Some _ => R s
          end
        else R s
    end.
  Definition h_after_frameset (t : ttok) (s : ps) : ps * option ttok :=
    match t with
    | KChars x => keep_spaces x (fun w s => R (insert_text_tree w s)) s
    | KSpace x => R (insert_text_tree x s)
    | KComment' c => R (insert_comment_top c s)
    | KDoctype' _ _ _ _ => R s
    | KStart n a sc =>
        if tag_is n ["html"] then R (start_tag_html a s)
        else if tag_is n ["noframes"] then rec inHeadP t s
        else R s
    | KEnd n => if tag_is n ["html"] then R (set_ph afterAfterFramesetP s) else R s
    end.
  Definition h_after_after_body (t : ttok) (s : ps) : ps * option ttok :=
    match t with
    | KComment' c => R (insert_comment c doc_id s)
    | KSpace _ => rec inBodyP t s
    | KChars _ => RT t (set_ph inBodyP s)
    | KDoctype' _ _ _ _ => R s
    | KStart n a sc => if tag_is n ["html"] then rec inBodyP t s else RT t (set_ph inBodyP s)
    | KEnd _ => RT t (set_ph inBodyP s)
    end.
  Definition h_after_after_frameset (t : ttok) (s : ps) : ps * option ttok :=
    match t with
    | KComment' c => R (insert_comment c doc_id s)
    | KSpace _ => rec inBodyP t s
    | KChars x => keep_spaces x (fun w s => rec inBodyP (KSpace w) s) s
    | KDoctype' _ _ _ _ => R s
    | KStart n a sc =>
        if tag_is n ["html"] then rec inBodyP t s
        else if tag_is n ["noframes"] then rec inHeadP t s
        else R s
    | KEnd _ => R s
    end.

  Definition handle (p : phase) (t : ttok) (s : ps) : ps * option ttok :=
    match p with
    | initialP => h_initial t s | beforeHtmlP => h_before_html t s | beforeHeadP => h_before_head t s
    | inHeadP => h_in_head t s | inHeadNoscriptP => h_in_head_noscript t s | afterHeadP => h_after_head t s
    | inBodyP => h_in_body t s | textP => h_text t s | inTableP => h_in_table t s
    | inTableTextP => h_in_table_text t s | inCaptionP => h_in_caption t s
    | inColumnGroupP => h_in_column_group t s | inTableBodyP => h_in_table_body t s | inRowP => h_in_row t s
    | inCellP => h_in_cell t s | inSelectP => h_in_select t s | inSelectInTableP => h_in_select_in_table t s
    | inForeignContentP => h_in_foreign t s | afterBodyP => h_after_body t s | inFramesetP => h_in_frameset t s
    | afterFramesetP => h_after_frameset t s | afterAfterBodyP => h_after_after_body t s
    | afterAfterFramesetP => h_after_after_frameset t s
    end.

  (* processEOF: (state, reprocess?) *)
  Definition handle_eof (s : ps) : ps * bool :=
    match ph s with
    | initialP => (initial_anything_else s, true)
    | beforeHtmlP => (insert_html_element s, true)
    | beforeHeadP => (start_tag_head [] s, true)
    | inHeadP => (end_tag_head s, true)
    | inHeadNoscriptP => (end_tag_noscript s, true)
    | afterHeadP => (after_head_anything_else s, true)
    | textP => let s := pop s in (set_ph (orig s) s, true)
    | inTableP | inTableBodyP | inRowP =>
        if cur_is s "html" && opt_str_eqb (ens (d s) (top_or s)) (htmlns s)
        then (assert_inner "InTable.processEOF: assert self.parser.innerHTML" s, false) else (s, false)
    | inTableTextP => let s := flush_characters s in (set_ph (ttorig s) s, true)
    | inColumnGroupP =>
        if cur_is s "html" then (assert_inner "InColumnGroup.processEOF: assert self.parser.innerHTML" s, false)
        else (end_tag_colgroup s, true)
    | inSelectP | inSelectInTableP =>
        if cur_is s "html" then (assert_inner "InSelect.processEOF: assert self.parser.innerHTML" s, false) else (s, false)
    | inFramesetP =>
        if cur_is s "html" then (assert_inner "InFrameset.processEOF: assert self.parser.innerHTML" s, false) else (s, false)
    | inForeignContentP => (crashed (S' "InForeignContent.processEOF: NotImplementedError") s, false)
    | _ => (s, false)
    end.
End Handlers.

Fixpoint process (fuel : nat) (p : phase) (t : ttok) (s : ps) : ps * option ttok :=
  match fuel with
  | O => (crashed (S' "model: out of fuel (nested handler calls)") s, None)
  | S f => handle (process f) p t s
  end.
Definition call_fuel : nat := 40%nat.
