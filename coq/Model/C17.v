(* C17 -- filters/whitespace.py.  The preserve set and the regex character
   class come from the translator (Gen/Whitespace.v); the generator loop and
   the regex substitution are hand-modelled (hash-pinned / pattern-checked). *)
From Coq Require Import NArith List Bool Arith.
From Verif Require Import Sx Str Tok.
From Verif.Gen Require Import Whitespace.
Import ListNotations.
Local Open Scope N_scope.

Definition is_ws (c : N) : bool := existsb (N.eqb c) spaces_class.

(* SPACES_REGEX.sub(' ', text): one-pass scanner; [in_run] = previous char was in the class *)
Fixpoint collapse_aux (in_run : bool) (s : str) : str :=
  match s with
  | [] => []
  | c :: r =>
      if is_ws c then (if in_run then collapse_aux true r else 32 :: collapse_aux true r)
      else c :: collapse_aux false r
  end.
Definition collapse (s : str) : str := collapse_aux false s.

Definition preserved (n : str) : bool := mem_str n spacePreserveElements.

Definition ws_step (p : nat) (t : token) : nat * token :=
  match t with
  | TStart ns n a => if negb (Nat.eqb p 0) || preserved n then (S p, t) else (p, t)
  | TEnd ns n => (pred p, t)
  | TSpace s => match p, s with O, _ :: _ => (p, TSpace [32]) | _, _ => (p, t) end
  | TChars s => match p with O => (p, TChars (collapse s)) | _ => (p, t) end
  | _ => (p, t)
  end.

Fixpoint ws_from (p : nat) (ts : list token) : list token :=
  match ts with
  | [] => []
  | t :: r => snd (ws_step p t) :: ws_from (fst (ws_step p t)) r
  end.
Definition WS (ts : list token) : list token := ws_from 0 ts.

Definition run_c17 (x : sx) : sx := enc_tokens (WS (dec_tokens x)).
