(* Character references: HTMLTokenizer.consumeNumberEntity / consumeEntity over an abstract stream
   (remaining characters; char() = head, EOF = None; unget = push back).  Tables from the translator.
   Hand-modelled, hash-pinned.  Shared by C14 and the tokenizer model. *)
From Coq Require Import NArith List Bool.
From Verif Require Import Sx Str Tok.
From Verif.Gen Require Import Entities.
Import ListNotations.
Local Open Scope N_scope.

Definition code (s : list N) : str := s.

(* error codes, as the strings of the "data" field *)
Definition E_illegal_codepoint : str :=
  [105;108;108;101;103;97;108;45;99;111;100;101;112;111;105;110;116;45;102;111;114;45;110;117;109;101;114;105;99;45;101;110;116;105;116;121].
Definition E_numeric_no_semicolon : str :=
  [110;117;109;101;114;105;99;45;101;110;116;105;116;121;45;119;105;116;104;111;117;116;45;115;101;109;105;99;111;108;111;110].
Definition E_expected_numeric : str :=
  [101;120;112;101;99;116;101;100;45;110;117;109;101;114;105;99;45;101;110;116;105;116;121].
Definition E_named_no_semicolon : str :=
  [110;97;109;101;100;45;101;110;116;105;116;121;45;119;105;116;104;111;117;116;45;115;101;109;105;99;111;108;111;110].
Definition E_expected_named : str :=
  [101;120;112;101;99;116;101;100;45;110;97;109;101;100;45;101;110;116;105;116;121].

Definition is_alnum (c : N) : bool := is_alpha c || is_digit c.

(* ---------- numeric ---------- *)
Definition digit_val (c : N) : N :=
  if is_digit c then c - 48 else if (65 <=? c) && (c <=? 70) then c - 55 else c - 87.
Definition value (radix : N) (ds : str) : N := fold_left (fun acc d => acc * radix + digit_val d) ds 0.

Definition lookup_N (t : list (N * N)) (k : N) : option N :=
  option_map snd (find (fun e => fst e =? k) t).

Definition is_nonchar (n : N) : bool :=
  ((1 <=? n) && (n <=? 8)) || ((14 <=? n) && (n <=? 31)) || ((127 <=? n) && (n <=? 159)) ||
  ((64976 <=? n) && (n <=? 65007)) || (n =? 11) ||
  (((n mod 65536 =? 65534) || (n mod 65536 =? 65535)) && (n <=? 1114111)).

(* the replacement decision of consumeNumberEntity: (character, error?) *)
Definition num_char (n : N) : N * bool :=
  match lookup_N replacementCharacters n with
  | Some v => (v, true)
  | None => if ((55296 <=? n) && (n <=? 57343)) || (1114111 <? n) then (65533, true)
            else (n, is_nonchar n)
  end.

Definition consume_number (isHex : bool) (inp : str) : N * list str * str :=
  let allowed := if isHex then is_hex else is_digit in
  let radix := if isHex then 16 else 10 in
  let ds := take_while allowed inp in
  let rest0 := drop_while allowed inp in
  let numStr := drop_while (fun c => c =? 48) ds in
  let n := if Nat.ltb 7 (length numStr) then 1114112 else value radix numStr in
  let '(ch, err) := num_char n in
  let errs1 := if err then [E_illegal_codepoint] else [] in
  match rest0 with
  | 59 :: r => (ch, errs1, r)
  | _ => (ch, errs1 ++ [E_numeric_no_semicolon], rest0)
  end.

(* ---------- named ---------- *)
Section Named.
  Variable tbl : list (str * str).

  Definition has_prefix (p : str) : bool := existsb (fun e => starts_with p (fst e)) tbl.
  Definition is_key (k : str) : bool := existsb (fun e => str_eqb k (fst e)) tbl.
  Definition get (k : str) : str := match find (fun e => str_eqb k (fst e)) tbl with Some e => snd e | None => [] end.

  (* Trie.longest_prefix: tries s, s[:-1], ..., s[:0] and returns the first that is a key *)
  Fixpoint lp_len (j : nat) (s : str) : option str :=
    if is_key (firstn j s) then Some (firstn j s)
    else match j with O => None | S j' => lp_len j' s end.
  Definition longest_prefix (s : str) : option str := lp_len (length s) s.

  (* the while loop: extend while some key has the consumed string as prefix.
     Returns (charStack without its last element, stream after ungetting that last element). *)
  Fixpoint scan (pre : str) (inp : str) : str * str :=
    match inp with
    | [] => (pre, [])
    | c :: r => if has_prefix (pre ++ [c]) then scan (pre ++ [c]) r else (pre, inp)
    end.

  Definition amp : str := [38].

  Definition consume_named (fromAttr : bool) (inp : str) : str * list str * str :=
    let '(pre, rest) := scan [] inp in
    match longest_prefix pre with
    | Some name =>
        let len := length name in
        let nosemi := negb (N.eqb (last name 0) 59) in
        let errs := if nosemi then [E_named_no_semicolon] else [] in
        (* charStack[entityLength]: an element of pre, else the character that stopped the loop, else EOF *)
        let nxt := nth_error (pre ++ firstn 1 rest) len in
        let exc := nosemi && fromAttr &&
                   match nxt with Some c => is_alnum c || (c =? 61) | None => false end in
        if exc then (amp ++ pre, errs, rest)
        else (get name ++ skipn len pre, errs, rest)
    | None => (amp ++ pre, [E_expected_named], rest)
    end.
End Named.

Definition consume_entity (allowed : option N) (fromAttr : bool) (inp : str) : str * list str * str :=
  match inp with
  | [] => (amp, [], [])
  | c0 :: r0 =>
      if is_space c0 || (c0 =? 60) || (c0 =? 38) || (match allowed with Some a => a =? c0 | None => false end)
      then (amp, [], inp)
      else if c0 =? 35 then
        (* "#": decimal, or hexadecimal after x/X *)
        let hex := match r0 with c1 :: _ => (c1 =? 120) || (c1 =? 88) | [] => false end in
        let after := if hex then tl r0 else r0 in                    (* stream positioned at the first digit *)
        let first_ok := match after with d :: _ => if hex then is_hex d else is_digit d | [] => false end in
        if first_ok then
          let '(ch, errs, rest) := consume_number hex after in ([ch], errs, rest)
        else
          (amp ++ [35] ++ (if hex then firstn 1 r0 else []), [E_expected_numeric], after)
      else consume_named entities fromAttr inp
  end.
