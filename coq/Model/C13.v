(* C13 -- filters/optionaltags.py.  is_optional_start / is_optional_end are
   translated statement by statement (Gen/OptionalTags.v); slider and __iter__
   are hand-modelled (hash-pinned). *)
From Coq Require Import NArith List Bool.
From Verif Require Import Sx Str Tok.
From Verif.Gen Require Import OptionalTags.
Import ListNotations.

Definition is_nil {T} (l : list T) : bool := match l with [] => true | _ => false end.

(* does the filter yield [t], seen between [prev] and [next] (source tokens)? *)
Definition keep (prev : option token) (t : token) (next : option token) : bool :=
  match t with
  | TStart _ n a => negb (is_nil a) || negb (is_optional_start n prev next)
  | TEnd _ n => negb (is_optional_end n next)
  | _ => true
  end.

Fixpoint ot_go (prev : option token) (ts : list token) : list token :=
  match ts with
  | [] => []
  | t :: r =>
      (if keep prev t (hd_error r) then [t] else []) ++ ot_go (Some t) r
  end.
Definition OT (ts : list token) : list token := ot_go None ts.

Fixpoint ot_flags (prev : option token) (ts : list token) : list bool :=
  match ts with
  | [] => []
  | t :: r => keep prev t (hd_error r) :: ot_flags (Some t) r
  end.

Definition run_c13 (x : sx) : sx :=
  let ts := dec_tokens x in L [enc_tokens (OT ts); of_list of_bool (ot_flags None ts)].
