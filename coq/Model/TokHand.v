(* Tokenizer model, hand-written part: the methods of HTMLTokenizer that are not plain if/elif cascades
   (loops, look-ahead through charStack, local flags).  Each is pinned by the hash of its source
   (tools/pins.json) and validated by correspondence on every run. *)
From Coq Require Import NArith List Bool Arith.
From Verif Require Import Sx Str.
From Verif.Model Require Import CharRef TokBase.
Import ListNotations.
Local Open Scope N_scope.

Definition E_attributes_in_end_tag : str :=
  [97;116;116;114;105;98;117;116;101;115;45;105;110;45;101;110;100;45;116;97;103].
Definition E_self_closing_flag_on_end_tag : str :=
  [115;101;108;102;45;99;108;111;115;105;110;103;45;102;108;97;103;45;111;110;45;101;110;100;45;116;97;103].
Definition E_invalid_codepoint : str := [105;110;118;97;108;105;100;45;99;111;100;101;112;111;105;110;116].
Definition E_invalid_character_in_attribute_name : str :=
  [105;110;118;97;108;105;100;45;99;104;97;114;97;99;116;101;114;45;105;110;45;97;116;116;114;105;98;117;116;101;45;110;97;109;101].
Definition E_eof_in_attribute_name : str :=
  [101;111;102;45;105;110;45;97;116;116;114;105;98;117;116;101;45;110;97;109;101].
Definition E_duplicate_attribute : str :=
  [100;117;112;108;105;99;97;116;101;45;97;116;116;114;105;98;117;116;101].
Definition E_expected_dashes_or_doctype : str :=
  [101;120;112;101;99;116;101;100;45;100;97;115;104;101;115;45;111;114;45;100;111;99;116;121;112;101].
Definition E_eof_in_doctype : str := [101;111;102;45;105;110;45;100;111;99;116;121;112;101].
Definition E_expected_space_or_right_bracket_in_doctype : str :=
  [101;120;112;101;99;116;101;100;45;115;112;97;99;101;45;111;114;45;114;105;103;104;116;45;98;114;97;99;107;101;116;45;105;110;45;100;111;99;116;121;112;101].

(* ---- emitCurrentToken: attributeMap(raw), then data.update(raw[::-1]) when a name was repeated ---- *)
Fixpoint dict_set (d : pairs) (k v : str) : pairs :=
  match d with
  | [] => [(k, v)]
  | (k', v') :: r => if str_eqb k k' then (k', v) :: r else (k', v') :: dict_set r k v
  end.
Definition dict_update (d : pairs) (items : pairs) : pairs :=
  fold_left (fun d kv => dict_set d (fst kv) (snd kv)) items d.
Definition py_attr_dict (raw : pairs) : pairs :=
  let d := dict_update [] raw in
  if Nat.ltb (length d) (length raw) then dict_update d (rev raw) else d.

Definition emit_current_token (k : tk) : tk :=
  match cur k with
  | CNone => set_bad k
  | CTag false n a sc =>
      let c := CTag false (lower_str n) (py_attr_dict a) sc in
      set_st dataState (emit (tok_of_cur c) (set_cur c k))
  | CTag true n a sc =>
      let c := CTag true (lower_str n) a sc in
      let k := set_cur c k in
      let k := match a with [] => k | _ => emit (OErr E_attributes_in_end_tag) k end in
      let k := if sc then emit (OErr E_self_closing_flag_on_end_tag) k else k in
      set_st dataState (emit (tok_of_cur c) k)
  | c => set_st dataState (emit (tok_of_cur c) k)
  end.

(* ---- consumeEntity / processEntityInAttribute ---- *)
Definition consume_entity_k (allowed : option N) (fromAttr : bool) (k : tk) : tk :=
  let '(output, errs, rest) := consume_entity allowed fromAttr (inp k) in
  let k := set_inp rest k in
  let k := fold_left (fun k e => emit (OErr e) k) errs k in
  if fromAttr then attr_val_app output k
  else match output with
       | [c] => if is_space c then emit (OSpace output) k else emit (OChars output) k
       | _ => emit (OChars output) k
       end.
Definition consume_entity_data (k : tk) : tk := consume_entity_k None false k.
Definition process_entity_in_attribute (allowed : N) (k : tk) : tk := consume_entity_k (Some allowed) true k.

(* ---- attributeNameState (leavingThisState / emitToken flags) ---- *)
Definition last_name_lower (k : tk) : tk :=
  match cur k with
  | CTag e nm a sc =>
      match upd_last (fun kv => (lower_str (fst kv), snd kv)) a with
      | Some a' => set_cur (CTag e nm a' sc) k
      | None => set_bad k
      end
  | _ => set_bad k
  end.
Definition last_is_duplicate (k : tk) : bool :=
  match cur k with
  | CTag _ _ a _ => match rev a with
                    | (n, _) :: r => existsb (fun kv => str_eqb n (fst kv)) r
                    | [] => false
                    end
  | _ => false
  end.
Definition leaving_attribute_name (emitToken : bool) (k : tk) : tk :=
  let k := last_name_lower k in
  let k := if last_is_duplicate k then emit (OErr E_duplicate_attribute) k else k in
  if emitToken then emit_current_token k else k.

Definition is_quote_or_lt (c : N) : bool := (c =? 39) || (c =? 34) || (c =? 60).

Definition step_attributeNameState (k0 : tk) : tk * bool :=
  let data := peek k0 in
  let k := advance k0 in
  match data with
  | None => (leaving_attribute_name false (set_st dataState (emit (OErr E_eof_in_attribute_name) k)), true)
  | Some c =>
      if c =? 61 then (leaving_attribute_name false (set_st beforeAttributeValueState k), true)
      else if is_alpha c then
        let '(chars, k) := chars_while is_alpha k in (attr_name_app (c :: chars) k, true)
      else if c =? 62 then (leaving_attribute_name true k, true)
      else if is_space c then (leaving_attribute_name false (set_st afterAttributeNameState k), true)
      else if c =? 47 then (leaving_attribute_name false (set_st selfClosingStartTagState k), true)
      else if c =? 0 then (attr_name_app [65533] (emit (OErr E_invalid_codepoint) k), true)
      else if is_quote_or_lt c then
        (attr_name_app [c] (emit (OErr E_invalid_character_in_attribute_name) k), true)
      else (attr_name_app [c] k, true)
  end.

(* ---- bogusCommentState ---- *)
Definition nul_to_fffd (s : str) : str := map (fun c => if c =? 0 then 65533 else c) s.
Definition step_bogusCommentState (k : tk) : tk * bool :=
  let '(data, k) := chars_until (fun c => c =? 62) k in
  let k := emit (OComment (nul_to_fffd data)) k in
  (set_st dataState (advance k), true).

(* ---- markupDeclarationOpenState ---- *)
(* reads characters while they match the keyword (lower-case letters; a character matches when its ASCII
   lower-casing does, or exactly when [exact]); result: matched?, the remaining stream on success *)
Fixpoint kw_match (exact : bool) (w : str) (i : str) : option str :=
  match w with
  | [] => Some i
  | e :: w' => match i with
               | c :: r => if (if exact then c =? e else (c =? e) || (c + 32 =? e)) then kw_match exact w' r else None
               | [] => None
               end
  end.
Definition kw_octype : str := [111;99;116;121;112;101].
Definition kw_CDATA : str := [67;68;65;84;65;91].

Definition step_markupDeclarationOpenState (k : tk) : tk * bool :=
  let fail := (set_st bogusCommentState (emit (OErr E_expected_dashes_or_doctype) k), true) in
  match inp k with
  | c :: r =>
      if c =? 45 then
        match r with
        | c2 :: r2 => if c2 =? 45 then (set_st commentStartState (set_cur (CComment []) (set_inp r2 k)), true) else fail
        | [] => fail
        end
      else if (c =? 100) || (c =? 68) then
        match kw_match false kw_octype r with
        | Some r' => (set_st doctypeState (set_cur (CDoctype [] None None true) (set_inp r' k)), true)
        | None => fail
        end
      else if (c =? 91) && cdata_ok k then
        match kw_match true kw_CDATA r with
        | Some r' => (set_st cdataSectionState (set_inp r' k), true)
        | None => fail
        end
      else fail
  | [] => fail
  end.

(* ---- afterDoctypeNameState ---- *)
(* the keyword loop: Some rest when all of w matched; otherwise the stream positioned AT the character
   that did not match (it is ungot; at EOF nothing is) *)
Fixpoint kw_scan (w : str) (i : str) : bool * str :=
  match w with
  | [] => (true, i)
  | e :: w' => match i with
               | c :: r => if (c =? e) || (c + 32 =? e) then kw_scan w' r else (false, i)
               | [] => (false, [])
               end
  end.
Definition kw_ublic : str := [117;98;108;105;99].
Definition kw_ystem : str := [121;115;116;101;109].

Definition step_afterDoctypeNameState (k0 : tk) : tk * bool :=
  let data := peek k0 in
  let k := advance k0 in
  match data with
  | None => (set_st dataState (emit_cur (emit (OErr E_eof_in_doctype) (set_incorrect k))), true)
  | Some c =>
      if is_space c then (k, true)
      else if c =? 62 then (set_st dataState (emit_cur k), true)
      else
        let bogus (k : tk) := (set_st bogusDoctypeState (set_incorrect
                                 (emit (OErr E_expected_space_or_right_bracket_in_doctype) k)), true) in
        if (c =? 112) || (c =? 80) then
          match kw_scan kw_ublic (inp k) with
          | (true, r) => (set_st afterDoctypePublicKeywordState (set_inp r k), true)
          | (false, r) => bogus (set_inp r k)
          end
        else if (c =? 115) || (c =? 83) then
          match kw_scan kw_ystem (inp k) with
          | (true, r) => (set_st afterDoctypeSystemKeywordState (set_inp r k), true)
          | (false, r) => bogus (set_inp r k)
          end
        else bogus k0
  end.

(* ---- cdataSectionState ---- *)
Definition ends_with_2 (c : N) (s : str) : bool :=
  match rev s with a :: b :: _ => (a =? c) && (b =? c) | _ => false end.
Fixpoint cdata_loop (fuel : nat) (acc : str) (i : str) : str * str :=
  let a := take_while (fun c => negb (c =? 93)) i in
  let i1 := drop_while (fun c => negb (c =? 93)) i in
  let b := take_while (fun c => negb (c =? 62)) i1 in
  let i2 := drop_while (fun c => negb (c =? 62)) i1 in
  match i2 with
  | [] => (acc ++ a ++ b, [])
  | gt :: r =>
      if ends_with_2 93 b then (acc ++ a ++ firstn (length b - 2) b, r)
      else match fuel with
           | O => (acc ++ a ++ b ++ [gt], r)
           | S f => cdata_loop f (acc ++ a ++ b ++ [gt]) r
           end
  end.
Definition count_nul (s : str) : nat := length (filter (fun c => c =? 0) s).
Definition step_cdataSectionState (k : tk) : tk * bool :=
  let '(data, rest) := cdata_loop (length (inp k)) [] (inp k) in
  let k := set_inp rest k in
  let k := Nat.iter (count_nul data) (emit (OErr E_invalid_codepoint)) k in
  let k := match data with [] => k | _ => emit (OChars (nul_to_fffd data)) k end in
  (set_st dataState k, true).
