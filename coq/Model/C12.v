(* C12 -- no state leaks between parses.  (i) the frame facts come from the translator (Gen/Frame.v);
   (ii) the bounded handler cache of Phase.processStartTag / processEndTag, hand-modelled. *)
From Coq Require Import NArith List Bool Arith.
From Verif Require Import Sx Str Tok.
From Verif.Gen Require Import Frame.
Import ListNotations.
Local Open Scope N_scope.

(* attributes that are written outside __init__ and not re-initialised on parse entry, with the reason each is
   harmless; anything else in that position is a leak *)
Definition allowed_unreset : list (str * str) :=
  [ (* HTMLParser.originalPhase: assigned on every entry to the text phase (parseRCDataRawtext,
       InHeadPhase.startTagScript) before TextPhase reads it *)
    ([72;84;77;76;80;97;114;115;101;114], [111;114;105;103;105;110;97;108;80;104;97;115;101]);
    (* Phase.__startTagCache / __endTagCache: pure caches of the handler tables (transparency theorem below) *)
    ([80;104;97;115;101], [95;95;115;116;97;114;116;84;97;103;67;97;99;104;101]);
    ([80;104;97;115;101], [95;95;101;110;100;84;97;103;67;97;99;104;101]);
    (* TreeBuilder._insertFromTable / insertElement: written only by the insertFromTable property setter, and
       TreeBuilder.reset assigns insertFromTable *)
    ([84;114;101;101;66;117;105;108;100;101;114], [95;105;110;115;101;114;116;70;114;111;109;84;97;98;108;101]);
    ([84;114;101;101;66;117;105;108;100;101;114], [105;110;115;101;114;116;69;108;101;109;101;110;116]) ].

Definition pair_eqb (a b : str * str) : bool := str_eqb (fst a) (fst b) && str_eqb (snd a) (snd b).

Definition leaky : list (str * str) :=
  flat_map (fun r => let '(o, a, w, re) := r in
                     if w && negb re && negb (existsb (pair_eqb (o, a)) allowed_unreset) then [(o, a)] else [])
           attr_writes.

(* ---- the handler cache ---- *)
Section Cache.
  Variable V : Type.
  Variable table : str -> V.            (* the dispatcher: known names -> their handler, everything else -> default *)
  Variable bound : nat.                 (* len(handler table) * 1.1, as a number of entries *)

  Definition cache := list (str * V).   (* insertion-ordered dict *)

  Fixpoint evict (fuel : nat) (c : cache) : cache :=
    match fuel with
    | O => c
    | S f => if Nat.ltb bound (length c) then evict f (tl c) else c
    end.

  Definition lookup (c : cache) (k : str) : V * cache :=
    match find (fun e => str_eqb (fst e) k) c with
    | Some e => (snd e, c)
    | None => let v := table k in (v, evict (S (length c)) (c ++ [(k, v)]))
    end.

  Fixpoint lookups (c : cache) (ks : list str) : list V * cache :=
    match ks with
    | [] => ([], c)
    | k :: r => let '(v, c1) := lookup c k in let '(vs, c2) := lookups c1 r in (v :: vs, c2)
    end.
End Cache.

Definition run_c12 (x : sx) : sx :=
  (* table as association list (name -> handler id) with a default; bound; sequence of names *)
  let tbl := map (fun e => (as_str (nth_sx 0 e), as_N (nth_sx 1 e))) (as_list (nth_sx 0 x)) in
  let dflt := as_N (nth_sx 1 x) in
  let bound := N.to_nat (as_N (nth_sx 2 x)) in
  let table k := match find (fun e => str_eqb (fst e) k) tbl with Some e => snd e | None => dflt end in
  let '(vs, c) := lookups N table bound [] (map as_str (as_list (nth_sx 3 x))) in
  L [of_list A vs; of_list (fun e => of_str (fst e)) c].
