(* C08 -- the serializer loop (Model/Ser.v) and the re-tokenization of its output by S_tok (Spec/TokSpec.v),
   steered the way tree construction steers the tokenizer: after each tag token that is read back, the guide
   (computed from the original stream) says which state to continue in and whether CDATA sections are allowed. *)
From Coq Require Import NArith List Bool Arith.
From Verif Require Import Sx Str Tok.
From Verif.Model Require Import CharRef TokBase TokHand Ser C02.
From Verif.Gen Require Import Tokenizer.
From Verif.Spec Require Import TokSpec.
Import ListNotations.
Local Open Scope N_scope.

Definition gentry : Type := (N * bool)%type.      (* 0 keep | 1 RCDATA | 2 RAWTEXT | 3 script data | 4 PLAINTEXT ; CDATA allowed *)

Definition set_cdata (b : bool) (k : tk) : tk := mk_tk (st k) (inp k) (cur k) (tmp k) (out k) b (bad k).
Definition steer (g : gentry) (k : tk) : tk :=
  let k := set_cdata (snd g) k in
  match fst g with
  | 1 => set_st rcdataState k
  | 2 => set_st rawtextState k
  | 3 => set_st scriptDataState k
  | 4 => set_st plaintextState k
  | _ => k
  end.
Definition is_tag_tok (t : otok) : bool := match t with OStart _ _ _ | OEnd _ _ _ => true | _ => false end.

Fixpoint retok (fuel : nat) (guide : list gentry) (k : tk) : option tk :=
  match fuel with
  | O => None
  | S f =>
      let '(k', cont) := sp_step k in
      if cont then
        match out k', guide with
        | t :: o', g :: gs =>
            if is_tag_tok t && Nat.eqb (length o') (length (out k)) then retok f gs (steer g k') else retok f guide k'
        | _, _ => retok f guide k'
        end
      else Some k'
  end.

Definition retokenize (guide : list gentry) (i : str) : option tk :=
  retok (4 * length i + 8)%nat guide (init_tk dataState CNone [] false i).

Definition dec_guide (x : sx) : list gentry := map (fun e => (as_N (nth_sx 0 e), as_bool (nth_sx 1 e))) (as_list x).

(* input: (0, options, tokens) -> Ser ; (1, guide, characters) -> re-tokenization, flattened *)
Definition run_c08 (x : sx) : sx :=
  if as_N (nth_sx 0 x) =? 0 then enc_ser (Ser (dec_opts (nth_sx 1 x)) (dec_tokens (nth_sx 2 x)))
  else enc_result true (retokenize (dec_guide (nth_sx 1 x)) (as_str (nth_sx 2 x))).
