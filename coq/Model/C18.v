(* C18 -- alphabeticalattributes.Filter.  [attr_key] comes from the translator
   (Gen/AlphaAttrs.v, regenerated from filters/alphabeticalattributes.py);
   the generator loop is hand-modelled and hash-pinned. *)
From Coq Require Import NArith List Bool.
From Verif Require Import Sx Str Tok.
From Verif.Gen Require Import AlphaAttrs.
Import ListNotations.

Definition key_cmp (a b : str * str) : comparison :=
  match str_cmp (fst a) (fst b) with
  | Eq => str_cmp (snd a) (snd b)
  | c => c
  end.
Definition key_leb (a b : str * str) : bool :=
  match key_cmp a b with Gt => false | _ => true end.

(* Python's sorted(): stable.  fold_right processes from the right, so an
   element is placed before the first element whose key is >= its own. *)
Fixpoint insert (x : attr) (l : attrs) : attrs :=
  match l with
  | [] => [x]
  | y :: l' => if key_leb (attr_key x) (attr_key y) then x :: l else y :: insert x l'
  end.
Definition sort_attrs (l : attrs) : attrs := fold_right insert [] l.

(* attrs[name] = value on an OrderedDict *)
Fixpoint dict_set (d : attrs) (k : akey) (v : str) : attrs :=
  match d with
  | [] => [(k, v)]
  | (k', v') :: d' => if akey_eqb k' k then (k', v) :: d' else (k', v') :: dict_set d' k v
  end.
Definition dict_of_items (l : attrs) : attrs :=
  fold_left (fun d kv => dict_set d (fst kv) (snd kv)) l [].

Definition aa_attrs (a : attrs) : attrs := dict_of_items (sort_attrs a).

Definition aa_token (t : token) : token :=
  match t with
  | TStart ns n a => TStart ns n (aa_attrs a)
  | TEmpty ns n a => TEmpty ns n (aa_attrs a)
  | _ => t
  end.

Definition AA (ts : list token) : list token := map aa_token ts.

Definition run_c18 (x : sx) : sx := enc_tokens (AA (dec_tokens x)).
