(* C07 -- the serializer pipeline: HTMLSerializer.serialize stacks alphabeticalattributes (C18's AA), then
   optionaltags (C13's OT, generated decision tables) in front of the token loop (Model/Ser.v); the order is the
   translator fact Gen/Serializer.filter_stack. *)
From Coq Require Import NArith List Bool Arith.
From Verif Require Import Sx Str Tok.
From Verif.Model Require Import Ser C13 C18.
Import ListNotations.
Local Open Scope N_scope.

Definition pipeline (o : sopts) (alpha omit : bool) (ts : list token) : option (str * list str) :=
  Ser o ((if omit then OT else fun x => x) ((if alpha then AA else fun x => x) ts)).

Definition run_c07 (x : sx) : sx :=
  enc_ser (pipeline (dec_opts (nth_sx 0 x)) (as_bool (nth_sx 1 x)) (as_bool (nth_sx 2 x)) (dec_tokens (nth_sx 3 x))).
