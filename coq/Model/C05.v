(* C05 -- HTMLUnicodeInputStream: chunk refill with CR LF / surrogate carry-over and newline normalisation,
   char / charsUntil / unget / position.  The source is the list of results of the future read() calls
   (each non-empty; after the last one read() returns "").  Hand-modelled after _inputstream.py, hash-pinned;
   the invalid-code-point class comes from the translator. *)
From Coq Require Import NArith List Bool Arith.
From Verif Require Import Sx Str Tok.
From Verif.Gen Require Import InputStream.
Import ListNotations.
Local Open Scope N_scope.

Definition in_rng (rs : list (N * N)) (c : N) : bool := existsb (fun r => (fst r <=? c) && (c <=? snd r)) rs.
Definition is_invalid (c : N) : bool := in_rng invalid_unicode c.
Definition carried (c : N) : bool := (c =? 13) || ((55296 <=? c) && (c <=? 56319)).   (* CR or lead surrogate *)

(* data.replace("\r\n", "\n").replace("\r", "\n") *)
Fixpoint norm (s : str) : str :=
  match s with
  | [] => []
  | c :: r => if c =? 13 then 10 :: norm (match r with x :: r' => if x =? 10 then r' else r | [] => r end)
              else c :: norm r
  end.

Record st := { src : list str; chunk : str; coff : nat; buf : option N; pl : nat; pc : nat; nerr : nat }.

Definition init (reads : list str) : st :=
  {| src := reads; chunk := []; coff := 0; buf := None; pl := 0; pc := 0; nerr := 0 |}.

Fixpoint count_nl (s : str) : nat :=
  match s with [] => O | c :: r => Nat.add (if c =? 10 then 1%nat else 0%nat) (count_nl r) end.
(* number of characters after the last newline, or None when there is no newline *)
Fixpoint after_last_nl (s : str) : option nat :=
  match s with
  | [] => None
  | c :: r => match after_last_nl r with
              | Some k => Some k
              | None => if c =? 10 then Some (length r) else None
              end
  end.

(* _position(offset) *)
Definition position_at (s : st) (off : nat) : nat * nat :=
  let pre := firstn off (chunk s) in
  match after_last_nl pre with
  | None => ((pl s + count_nl pre)%nat, (pc s + off)%nat)
  | Some k => ((pl s + count_nl pre)%nat, k)
  end.
Definition position (s : st) : nat * nat := let '(l, c) := position_at s (coff s) in (S l, c).

Fixpoint read_chunk (fuel : nat) (s : st) : st * bool :=
  let '(l, c) := position_at s (length (chunk s)) in
  let data := match src s with d :: _ => d | [] => [] end in
  let rest := match src s with _ :: r => r | [] => [] end in
  let atEOF := match data with [] => true | _ => false end in
  let s0 := {| src := rest; chunk := []; coff := 0; buf := buf s; pl := l; pc := c; nerr := nerr s |} in
  match buf s, data with
  | None, [] => (s0, false)
  | b, _ =>
      let data1 := match b with Some x => x :: data | None => data end in
      let hold := negb atEOF && carried (last data1 0) in
      let data2 := if hold then removelast data1 else data1 in
      let nb := if hold then Some (last data1 0) else None in
      match data2, fuel with
      | [], S f => read_chunk f {| src := rest; chunk := []; coff := 0; buf := nb; pl := l; pc := c; nerr := nerr s |}
      | _, _ =>
          ({| src := rest; chunk := norm data2; coff := 0; buf := nb; pl := l; pc := c;
              nerr := (nerr s + length (filter is_invalid data2))%nat |}, true)
      end
  end.

Definition rc (s : st) : st * bool := read_chunk 2 s.

(* char(): None = EOF *)
Definition char (s : st) : st * option N :=
  let '(s1, ok) := if Nat.leb (length (chunk s)) (coff s) then rc s else (s, true) in
  if ok then
    match nth_error (chunk s1) (coff s1) with
    | Some c => ({| src := src s1; chunk := chunk s1; coff := S (coff s1); buf := buf s1; pl := pl s1; pc := pc s1; nerr := nerr s1 |}, Some c)
    | None => (s1, None)
    end
  else (s1, None).

(* unget(char); the bool is the assertion self.chunk[self.chunkOffset] == char *)
Definition unget (c : option N) (s : st) : st * bool :=
  match c with
  | None => (s, true)
  | Some x =>
      match coff s with
      | O => ({| src := src s; chunk := x :: chunk s; coff := 0; buf := buf s;
                 pl := if x =? 10 then pred (pl s) else pl s; pc := if x =? 10 then pc s else pred (pc s);
                 nerr := nerr s |}, true)
      | S k => ({| src := src s; chunk := chunk s; coff := k; buf := buf s; pl := pl s; pc := pc s; nerr := nerr s |},
                match nth_error (chunk s) k with Some y => y =? x | None => false end)
      end
  end.

(* charsUntil(characters, opposite): the longest run of characters (not) in the set, across chunks *)
Fixpoint chars_until (fuel : nat) (inset : N -> bool) (s : st) (acc : str) : st * str :=
  let restc := skipn (coff s) (chunk s) in
  let run := take_while inset restc in
  let stop_here := negb (Nat.eqb (length run) (length restc)) in
  if stop_here then
    ({| src := src s; chunk := chunk s; coff := (coff s + length run)%nat; buf := buf s; pl := pl s; pc := pc s; nerr := nerr s |},
     acc ++ run)
  else
    match fuel with
    | O => (s, acc ++ run)
    | S f => let '(s1, ok) := rc s in
             if ok then chars_until f inset s1 (acc ++ run) else (s1, acc ++ run)
    end.

(* ---- client op sequences ---- *)
Inductive cop := CChar | CUntil (set : str) (opposite : bool) | CUnget (n : nat) | CPos | CErrs.

Definition mem_N (c : N) (l : str) : bool := existsb (N.eqb c) l.

(* history of characters returned by char(), most recent first, for unget *)
Fixpoint run_cops (fuel : nat) (ops : list cop) (s : st) (hist : list (option N)) : list sx :=
  match ops with
  | [] => []
  | o :: r =>
      match o with
      | CChar => let '(s1, c) := char s in of_opt A c :: run_cops fuel r s1 (c :: hist)
      | CUntil set opp =>
          let f c := if opp then mem_N c set else negb (mem_N c set) in
          let '(s1, out) := chars_until fuel f s [] in of_str out :: run_cops fuel r s1 []
      | CUnget n =>
          let '(s1, ok, h1) :=
            fold_left (fun acc _ => let '(sa, oka, ha) := acc in
                                    match ha with
                                    | c :: h' => let '(sb, okb) := unget c sa in (sb, oka && okb, h')
                                    | [] => (sa, oka, [])
                                    end) (repeat tt n) (s, true, hist) in
          of_bool ok :: run_cops fuel r s1 h1
      | CPos => let '(l, c) := position s in L [of_nat l; of_nat c] :: run_cops fuel r s hist
      | CErrs => of_nat (nerr s) :: run_cops fuel r s hist
      end
  end.

Definition dec_cop (x : sx) : cop :=
  match as_N (nth_sx 0 x) with
  | 0 => CChar
  | 1 => CUntil (as_str (nth_sx 1 x)) (as_bool (nth_sx 2 x))
  | 2 => CUnget (N.to_nat (as_N (nth_sx 1 x)))
  | 3 => CPos
  | _ => CErrs
  end.

(* drain: all characters until EOF *)
Fixpoint drain (fuel : nat) (s : st) : str :=
  match fuel with
  | O => []
  | S f => match char s with (s1, Some c) => c :: drain f s1 | (_, None) => [] end
  end.

Definition run_c05 (x : sx) : sx :=
  let reads := map as_str (as_list (nth_sx 1 x)) in
  match as_N (nth_sx 0 x) with
  | 0 => L (run_cops (4 + length (concat reads)) (map dec_cop (as_list (nth_sx 2 x))) (init reads) [])
  | _ => of_str (drain (S (length (concat reads))) (init reads))
  end.
