(* C10 -- the sanitizing serializer: HTMLSerializer(sanitize=True) = token loop (Model/Ser.v) after the
   sanitizer (Model/C09.v: San with the default lists; sanitize_css not modelled -> streams with a style
   attribute are outside the modelled domain). *)
From Coq Require Import NArith List Bool Arith.
From Verif Require Import Sx Str Tok.
From Verif.Model Require Import Ser C09.
Import ListNotations.
Local Open Scope N_scope.

Definition san_default (ts : list token) : list token := San default_lists (fun s => s) ts.
Definition san_ser (o : sopts) (ts : list token) : option (str * list str) := Ser o (san_default ts).

Definition run_c10 (x : sx) : sx :=
  if as_N (nth_sx 0 x) =? 0 then
    let ts := dec_tokens (nth_sx 2 x) in
    if existsb (tok_outside default_lists) ts then outside_marker
    else enc_ser (san_ser (dec_opts (nth_sx 1 x)) ts)
  else outside_marker.
