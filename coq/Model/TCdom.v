(* TCdom -- an arena DOM for the tree-construction model: nodes are numbered, children are lists of numbers.
   Each element also carries [wp], the `parent` attribute of html5lib's NodeBuilder wrapper, which is what the
   parser reads (lastNode.parent, lastTable.parent) and which is NOT always the DOM parent (reparentChildren
   does not update it; removeChild clears it even when nothing was removed). *)
From Coq Require Import NArith List Bool Arith.
From Verif Require Import Sx Str Tok.
Import ListNotations.
Local Open Scope N_scope.

Inductive nkind : Type :=
| KDoc
| KElem (ns : option str) (name : str) (a : attrs)
| KText (s : str)
| KComment (s : str)
| KDoctype (name : str) (pub sys : option str).

Record node : Type := mk_node { kind : nkind; kids : list nat; par : option nat; wp : option nat }.
Definition dom : Type := list node.

Definition dummy : node := mk_node (KComment []) [] None None.
Definition get (d : dom) (i : nat) : node := nth i d dummy.
Fixpoint set_nth {A} (l : list A) (i : nat) (x : A) : list A :=
  match l, i with
  | [], _ => []
  | _ :: r, O => x :: r
  | y :: r, S j => y :: set_nth r j x
  end.
Definition upd (d : dom) (i : nat) (f : node -> node) : dom := set_nth d i (f (get d i)).

Definition new_node (d : dom) (k : nkind) : dom * nat := (d ++ [mk_node k [] None None], length d).

Definition ename (d : dom) (i : nat) : str := match kind (get d i) with KElem _ n _ => n | _ => [] end.
Definition ens (d : dom) (i : nat) : option str := match kind (get d i) with KElem ns _ _ => ns | _ => None end.
Definition eattrs (d : dom) (i : nat) : attrs := match kind (get d i) with KElem _ _ a => a | _ => [] end.
Definition set_attrs (d : dom) (i : nat) (a : attrs) : dom :=
  upd d i (fun n => match kind n with KElem ns nm _ => mk_node (KElem ns nm a) (kids n) (par n) (wp n) | _ => n end).

Fixpoint remove_nat (x : nat) (l : list nat) : list nat :=
  match l with [] => [] | y :: r => if Nat.eqb x y then r else y :: remove_nat x r end.
Definition mem_nat (x : nat) (l : list nat) : bool := existsb (Nat.eqb x) l.

(* DOM-level detach (what minidom does inside appendChild/insertBefore when the node already has a parent) *)
Definition detach (d : dom) (c : nat) : dom :=
  match par (get d c) with
  | Some p => upd (upd d p (fun n => mk_node (kind n) (remove_nat c (kids n)) (par n) (wp n)))
                  c (fun n => mk_node (kind n) (kids n) None (wp n))
  | None => d
  end.

(* NodeBuilder.appendChild: node.parent = self; element.appendChild *)
Definition append_child (d : dom) (p c : nat) : dom :=
  let d := detach d c in
  let d := upd d p (fun n => mk_node (kind n) (kids n ++ [c]) (par n) (wp n)) in
  upd d c (fun n => mk_node (kind n) (kids n) (Some p) (Some p)).

Fixpoint insert_before_list (c ref : nat) (l : list nat) : option (list nat) :=
  match l with
  | [] => None
  | y :: r => if Nat.eqb y ref then Some (c :: y :: r)
              else match insert_before_list c ref r with Some r' => Some (y :: r') | None => None end
  end.
(* NodeBuilder.insertBefore; None = minidom raises (refNode is not a child of this node) *)
Definition insert_before (d : dom) (p c ref : nat) : option dom :=
  let d := detach d c in
  match insert_before_list c ref (kids (get d p)) with
  | None => None
  | Some ks =>
      let d := upd d p (fun n => mk_node (kind n) ks (par n) (wp n)) in
      Some (upd d c (fun n => mk_node (kind n) (kids n) (Some p) (Some p)))
  end.

(* NodeBuilder.removeChild: removes only if it really is a child; clears node.parent in any case *)
Definition remove_child (d : dom) (p c : nat) : dom :=
  let d := match par (get d c) with
           | Some q => if Nat.eqb p q then detach d c else d
           | None => d
           end in
  upd d c (fun n => mk_node (kind n) (kids n) (par n) None).

(* NodeBuilder.reparentChildren: DOM children move, the children's wrappers keep their .parent *)
Definition reparent_children (d : dom) (p newp : nat) : dom :=
  let cs := kids (get d p) in
  let d := fold_left (fun d c => upd d c (fun n => mk_node (kind n) (kids n) (Some newp) (wp n))) cs d in
  let d := upd d p (fun n => mk_node (kind n) [] (par n) (wp n)) in
  upd d newp (fun n => mk_node (kind n) (kids n ++ cs) (par n) (wp n)).

(* insertText: a fresh text node appended, or inserted before [ref] *)
Definition insert_text (d : dom) (p : nat) (s : str) (ref : option nat) : option dom :=
  let '(d, t) := new_node d (KText s) in
  match ref with
  | None => Some (upd (upd d p (fun n => mk_node (kind n) (kids n ++ [t]) (par n) (wp n)))
                      t (fun n => mk_node (kind n) [] (Some p) None))
  | Some r =>
      match insert_before_list t r (kids (get d p)) with
      | None => None
      | Some ks => Some (upd (upd d p (fun n => mk_node (kind n) ks (par n) (wp n)))
                             t (fun n => mk_node (kind n) [] (Some p) None))
      end
  end.

Definition has_content (d : dom) (i : nat) : bool := match kids (get d i) with [] => false | _ => true end.

(* ---- output: the tree below a node, adjacent text nodes joined ---- *)
Inductive tree : Type :=
| TE (ns : option str) (name : str) (a : attrs) (c : list tree)
| TT (s : str)
| TC (s : str)
| TD (name : str) (pub sys : option str).

Fixpoint join_text (l : list tree) : list tree :=
  match l with
  | TT a :: r => match join_text r with
                 | TT b :: r' => TT (a ++ b) :: r'
                 | r' => TT a :: r'
                 end
  | x :: r => x :: join_text r
  | [] => []
  end.

Fixpoint build (fuel : nat) (d : dom) (i : nat) : tree :=
  match fuel with
  | O => TC [102;117;101;108]
  | S f =>
      let n := get d i in
      match kind n with
      | KElem ns nm a => TE ns nm a (join_text (map (build f d) (kids n)))
      | KText s => TT s
      | KComment s => TC s
      | KDoctype nm p s => TD nm p s
      | KDoc => TE None [] [] (join_text (map (build f d) (kids n)))
      end
  end.
Definition children_trees (d : dom) (i : nat) : list tree :=
  join_text (map (build (length d) d) (kids (get d i))).

Fixpoint enc_tree (fuel : nat) (t : tree) : sx :=
  match fuel with
  | O => L []
  | S f =>
      match t with
      | TE ns nm a c => L [A 0; of_opt of_str ns; of_str nm; enc_attrs a; L (map (enc_tree f) c)]
      | TT s => L [A 1; of_str s]
      | TC s => L [A 2; of_str s]
      (* an empty doctype name is None in both DOM back ends (minidom and etree report no name for "<!DOCTYPE>") *)
      | TD nm p s => L [A 3; of_opt of_str (match nm with [] => None | _ => Some nm end); of_opt of_str p; of_opt of_str s]
      end
  end.
