(* Exhaustive checks over an initial segment of N, lifted to a quantified statement. *)
From Coq Require Import NArith List Bool Lia Morphisms.
Import ListNotations.
Local Open Scope N_scope.

(* [n-1; ...; 1; 0], built by binary-friendly Peano recursion on N (linear time) *)
Definition below (n : N) : list N := N.recursion [] (fun k acc => k :: acc) n.

Lemma below_succ n : below (N.succ n) = n :: below n.
Proof.
  unfold below. apply (N.recursion_succ (A:=list N) eq); [reflexivity|].
  intros x y -> a b ->. reflexivity.
Qed.

Lemma below_spec n c : c < n -> In c (below n).
Proof.
  induction n as [|n IH] using N.peano_ind; intro H; [lia|].
  rewrite below_succ. destruct (N.eq_dec c n) as [->|Hne]; [left; reflexivity|].
  right. apply IH. lia.
Qed.

Definition all_below (n : N) (P : N -> bool) : bool := forallb P (below n).

Lemma all_below_spec n P : all_below n P = true -> forall c, c < n -> P c = true.
Proof.
  unfold all_below. intros H c Hc. rewrite forallb_forall in H. apply H. apply below_spec. exact Hc.
Qed.
