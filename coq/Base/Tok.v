(* Tree-walker / serializer token vocabulary and its wire encoding. *)
From Coq Require Import NArith List Bool.
From Verif Require Import Sx Str.
Import ListNotations.
Local Open Scope N_scope.

Definition akey : Type := option str * str.          (* (namespace, local name) *)
Definition attr : Type := akey * str.
Definition attrs : Type := list attr.                (* an ordered dict: keys distinct *)

Inductive token : Type :=
| TDoctype (name pub sys : option str)
| TChars (s : str)
| TSpace (s : str)
| TStart (ns : option str) (name : str) (a : attrs)
| TEnd (ns : option str) (name : str)
| TEmpty (ns : option str) (name : str) (a : attrs)
| TComment (s : str)
| TEntity (s : str)
| TSerErr (s : str)
| TOther (ty : str).

Definition akey_eqb (a b : akey) : bool :=
  opt_str_eqb (fst a) (fst b) && str_eqb (snd a) (snd b).

Lemma akey_eqb_eq a b : akey_eqb a b = true <-> a = b.
Proof.
  destruct a as [n1 l1], b as [n2 l2]; unfold akey_eqb; cbn.
  rewrite andb_true_iff, opt_str_eqb_eq, str_eqb_eq. split.
  - intros [-> ->]; reflexivity.
  - intro H; injection H as -> ->; auto.
Qed.

(* ---- wire format ---- *)
Definition dec_akey (x : sx) : akey := (as_opt as_str (nth_sx 0 x), as_str (nth_sx 1 x)).
Definition dec_attr (x : sx) : attr := (dec_akey (nth_sx 0 x), as_str (nth_sx 1 x)).
Definition dec_attrs (x : sx) : attrs := map dec_attr (as_list x).
Definition enc_akey (k : akey) : sx := L [of_opt of_str (fst k); of_str (snd k)].
Definition enc_attr (a : attr) : sx := L [enc_akey (fst a); of_str (snd a)].
Definition enc_attrs (a : attrs) : sx := of_list enc_attr a.

Definition dec_token (x : sx) : token :=
  let f i := nth_sx i x in
  match as_N (f 0%nat) with
  | 0 => TDoctype (as_opt as_str (f 1%nat)) (as_opt as_str (f 2%nat)) (as_opt as_str (f 3%nat))
  | 1 => TChars (as_str (f 1%nat))
  | 2 => TSpace (as_str (f 1%nat))
  | 3 => TStart (as_opt as_str (f 1%nat)) (as_str (f 2%nat)) (dec_attrs (f 3%nat))
  | 4 => TEnd (as_opt as_str (f 1%nat)) (as_str (f 2%nat))
  | 5 => TEmpty (as_opt as_str (f 1%nat)) (as_str (f 2%nat)) (dec_attrs (f 3%nat))
  | 6 => TComment (as_str (f 1%nat))
  | 7 => TEntity (as_str (f 1%nat))
  | 8 => TSerErr (as_str (f 1%nat))
  | _ => TOther (as_str (f 1%nat))
  end.

Definition enc_token (t : token) : sx :=
  match t with
  | TDoctype n p s => L [A 0; of_opt of_str n; of_opt of_str p; of_opt of_str s]
  | TChars s => L [A 1; of_str s]
  | TSpace s => L [A 2; of_str s]
  | TStart ns n a => L [A 3; of_opt of_str ns; of_str n; enc_attrs a]
  | TEnd ns n => L [A 4; of_opt of_str ns; of_str n]
  | TEmpty ns n a => L [A 5; of_opt of_str ns; of_str n; enc_attrs a]
  | TComment s => L [A 6; of_str s]
  | TEntity s => L [A 7; of_str s]
  | TSerErr s => L [A 8; of_str s]
  | TOther ty => L [A 9; of_str ty]
  end.

Definition dec_tokens (x : sx) : list token := map dec_token (as_list x).
Definition enc_tokens (l : list token) : sx := of_list enc_token l.
