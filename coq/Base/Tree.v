(* Abstract document trees and the specification of what a tree walker must emit. *)
From Coq Require Import NArith List Bool.
From Verif Require Import Sx Str Tok.
Import ListNotations.
Local Open Scope N_scope.

Inductive node : Type :=
| Elem (ns : option str) (name : str) (a : attrs) (kids : list node)
| Text (s : str)
| Comm (s : str)
| Doct (name pub sys : option str).

Section NodeInd.
  Variable P : node -> Prop.
  Hypothesis HE : forall ns name a kids, Forall P kids -> P (Elem ns name a kids).
  Hypothesis HT : forall s, P (Text s).
  Hypothesis HC : forall s, P (Comm s).
  Hypothesis HD : forall n p s, P (Doct n p s).
  Fixpoint node_ind' (n : node) : P n :=
    match n with
    | Elem ns name a kids =>
        HE ns name a kids
           ((fix go (l : list node) : Forall P l :=
               match l with [] => Forall_nil P | x :: r => Forall_cons x (node_ind' x) (go r) end) kids)
    | Text s => HT s
    | Comm s => HC s
    | Doct n p s => HD n p s
    end.
End NodeInd.

(* TreeWalker.text: leading whitespace / middle / trailing whitespace *)
Definition text_tokens (s : str) : list token :=
  let middle0 := drop_while is_space s in
  let left := take_while is_space s in
  let middle := rev (drop_while is_space (rev middle0)) in
  let right := rev (take_while is_space (rev middle0)) in
  (match left with [] => [] | _ => [TSpace left] end) ++
  (match middle with [] => [] | _ => [TChars middle] end) ++
  (match right with [] => [] | _ => [TSpace right] end).

Definition void_msg : str :=
  [86;111;105;100;32;101;108;101;109;101;110;116;32;104;97;115;32;99;104;105;108;100;114;101;110].

Section Walk.
  Variable voids : list str.
  Variable html_ns : str.

  (* (not namespace or namespace == namespaces["html"]) and name in voidElements *)
  Definition is_void (ns : option str) (name : str) : bool :=
    (match ns with None => true | Some [] => true | Some n => str_eqb n html_ns end) && mem_str name voids.

  Fixpoint walk (n : node) : list token :=
    match n with
    | Elem ns name a kids =>
        if is_void ns name
        then TEmpty ns name a :: (match kids with [] => [] | _ => [TSerErr void_msg] end)
        else TStart ns name a :: flat_map walk kids ++ [TEnd ns name]
    | Text s => text_tokens s
    | Comm s => [TComment s]
    | Doct n p s => [TDoctype n p s]
    end.

  Definition walk_all (kids : list node) : list token := flat_map walk kids.

  (* well-formed for walking: void elements have no children *)
  Fixpoint wf_node (n : node) : bool :=
    match n with
    | Elem ns name a kids =>
        (if is_void ns name then match kids with [] => true | _ => false end else true) && forallb wf_node kids
    | _ => true
    end.
End Walk.

(* wire format *)
Fixpoint enc_node (n : node) : sx :=
  match n with
  | Elem ns name a kids => L [A 0; of_opt of_str ns; of_str name; enc_attrs a; L (map enc_node kids)]
  | Text s => L [A 1; of_str s]
  | Comm s => L [A 2; of_str s]
  | Doct n p s => L [A 3; of_opt of_str n; of_opt of_str p; of_opt of_str s]
  end.

(* decoding on fuel (sx is nested; depth bounded by fuel) *)
Fixpoint dec_node (fuel : nat) (x : sx) : node :=
  match fuel with
  | O => Text []
  | S f =>
      let g i := nth_sx i x in
      match as_N (g 0%nat) with
      | 0 => Elem (as_opt as_str (g 1%nat)) (as_str (g 2%nat)) (dec_attrs (g 3%nat))
                  (map (dec_node f) (as_list (g 4%nat)))
      | 1 => Text (as_str (g 1%nat))
      | 2 => Comm (as_str (g 1%nat))
      | _ => Doct (as_opt as_str (g 1%nat)) (as_opt as_str (g 2%nat)) (as_opt as_str (g 3%nat))
      end
  end.
