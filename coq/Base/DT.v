(* A small decision-tree language for translated predicate functions over
   (tag name, previous token, next token), its interpreter, and the
   finite-abstraction theorem: a program can distinguish names only through
   its own string literals, so a universally quantified statement about
   programs is decided by a finite check over (literals + fresh names). *)
From Coq Require Import NArith List Bool Lia.
From Verif Require Import Sx Str Tok.
Import ListNotations.
Local Open Scope N_scope.

Inductive subj := SPrev | SNext.

Inductive cond :=
| CTagEq (lit : str) | CTagIn (lits : list str) | CTagSub (lit : str)
| CNameEq (s : subj) (lit : str) | CNameIn (s : subj) (lits : list str) | CNameEqTag (s : subj)
| CTyIn (s : subj) (ks : list N) | CTyNone (s : subj) | CIsSome (s : subj)
| CNot (c : cond) | CAnd (a b : cond) | COr (a b : cond) | CConst (b : bool).

Inductive prog := Ret (c : cond) | Ite (c : cond) (a b : prog).

Definition view := option (N * str).        (* (token kind code, name) *)
Definition vname (v : view) : str := match v with Some (_, n) => n | None => [] end.
Definition vkind (v : view) : option N := option_map fst v.
Definition pick (s : subj) (pv nv : view) : view := match s with SPrev => pv | SNext => nv end.

Fixpoint ceval (c : cond) (tag : str) (pv nv : view) : bool :=
  match c with
  | CTagEq lit => str_eqb tag lit
  | CTagIn lits => mem_str tag lits
  | CTagSub lit => contains tag lit
  | CNameEq s lit => str_eqb (vname (pick s pv nv)) lit
  | CNameIn s lits => mem_str (vname (pick s pv nv)) lits
  | CNameEqTag s => str_eqb (vname (pick s pv nv)) tag
  | CTyIn s ks => match vkind (pick s pv nv) with Some k => existsb (N.eqb k) ks | None => false end
  | CTyNone s => match pick s pv nv with None => true | Some _ => false end
  | CIsSome s => match pick s pv nv with None => false | Some _ => true end
  | CNot a => negb (ceval a tag pv nv)
  | CAnd a b => ceval a tag pv nv && ceval b tag pv nv
  | COr a b => ceval a tag pv nv || ceval b tag pv nv
  | CConst b => b
  end.

Fixpoint peval (p : prog) (tag : str) (pv nv : view) : bool :=
  match p with
  | Ret c => ceval c tag pv nv
  | Ite c a b => if ceval c tag pv nv then peval a tag pv nv else peval b tag pv nv
  end.

(* token -> view *)
Definition tkind (t : token) : N :=
  match t with TDoctype _ _ _ => 0 | TChars _ => 1 | TSpace _ => 2 | TStart _ _ _ => 3 | TEnd _ _ => 4
  | TEmpty _ _ _ => 5 | TComment _ => 6 | TEntity _ => 7 | TSerErr _ => 8 | TOther _ => 9 end.
Definition tname (t : token) : str :=
  match t with TStart _ n _ | TEnd _ n | TEmpty _ n _ => n | TEntity n => n
  | TDoctype (Some n) _ _ => n | _ => [] end.
Definition view_of (o : option token) : view := option_map (fun t => (tkind t, tname t)) o.

(* ---------- static facts about a program ---------- *)
Fixpoint clits (c : cond) : list str :=
  match c with
  | CTagEq l | CTagSub l | CNameEq _ l => [l]
  | CTagIn ls | CNameIn _ ls => ls
  | CNot a => clits a
  | CAnd a b | COr a b => clits a ++ clits b
  | _ => []
  end.
Fixpoint plits (p : prog) : list str :=
  match p with Ret c => clits c | Ite c a b => clits c ++ plits a ++ plits b end.

Fixpoint cnosub (c : cond) : bool :=
  match c with
  | CTagSub _ => false
  | CNot a => cnosub a
  | CAnd a b | COr a b => cnosub a && cnosub b
  | _ => true
  end.
Fixpoint pnosub (p : prog) : bool :=
  match p with Ret c => cnosub c | Ite c a b => cnosub c && pnosub a && pnosub b end.

Definition is_prev (s : subj) : bool := match s with SPrev => true | SNext => false end.
Fixpoint cnoprev (c : cond) : bool :=
  match c with
  | CNameEq s _ | CNameIn s _ | CNameEqTag s | CTyIn s _ | CTyNone s | CIsSome s => negb (is_prev s)
  | CNot a => cnoprev a
  | CAnd a b | COr a b => cnoprev a && cnoprev b
  | _ => true
  end.
Fixpoint pnoprev (p : prog) : bool :=
  match p with Ret c => cnoprev c | Ite c a b => cnoprev c && pnoprev a && pnoprev b end.

(* ---------- abstraction of names ---------- *)
Definition f1 : str := [0; 1].
Definition f2 : str := [0; 2].
Definition f3 : str := [0; 3].

Definition abs_tag (K : list str) (tag : str) : str := if mem_str tag K then tag else f1.
Definition abs_name (K : list str) (f : str) (tag x : str) : str :=
  if mem_str x K then x else if str_eqb x tag then f1 else f.
Definition abs_view (K : list str) (f : str) (tag : str) (v : view) : view :=
  match v with Some (k, x) => Some (k, abs_name K f tag x) | None => None end.

Definition fresh_ok (K : list str) : bool :=
  mem_str [] K && negb (mem_str f1 K) && negb (mem_str f2 K) && negb (mem_str f3 K).

Definition kinds10 : list N := [0; 1; 2; 3; 4; 5; 6; 7; 8; 9].
Definition dom_tag (K : list str) : list str := f1 :: K.
Definition dom_views (K : list str) (f : str) : list view :=
  None :: flat_map (fun k => map (fun n => Some (k, n)) (f1 :: f :: K)) kinds10.

Definition vkind_ok (v : view) : bool :=
  match v with Some (k, _) => existsb (N.eqb k) kinds10 | None => true end.

Definition check3 (P : str -> view -> view -> bool) (K : list str) : bool :=
  forallb (fun tag => forallb (fun pv => forallb (fun nv => P tag pv nv) (dom_views K f2))
                              (dom_views K f3)) (dom_tag K).
Definition check2 (P : str -> view -> bool) (K : list str) : bool :=
  forallb (fun tag => forallb (fun nv => P tag nv) (dom_views K f2)) (dom_tag K).

(* first counterexample, for replay *)
Definition find_cex2 (P : str -> view -> bool) (K : list str) : option (str * view) :=
  find (fun x => negb (P (fst x) (snd x)))
       (flat_map (fun tag => map (fun nv => (tag, nv)) (dom_views K f2)) (dom_tag K)).
