(* S-expressions over non-negative integers: the only wire format between the
   Python harness, the OCaml driver and the Gallina models (DESIGN A.6).
   Decoders are total (malformed input decodes to a default); the harness
   controls the encoder, and a mis-encoding shows up as a correspondence
   disagreement, never as a proof assumption. *)
From Coq Require Import NArith List Bool.
Import ListNotations.

Inductive sx : Type :=
| A (n : N)
| L (l : list sx).

Definition str := list N.

Definition as_N (x : sx) : N := match x with A n => n | L _ => 0%N end.
Definition as_list (x : sx) : list sx := match x with A _ => [] | L l => l end.
Definition as_str (x : sx) : str := map as_N (as_list x).
Definition as_bool (x : sx) : bool := negb (N.eqb (as_N x) 0).
Definition as_opt {T} (f : sx -> T) (x : sx) : option T :=
  match x with L (y :: _) => Some (f y) | _ => None end.
Definition nth_sx (i : nat) (x : sx) : sx := nth i (as_list x) (L []).

Definition of_str (s : str) : sx := L (map A s).
Definition of_bool (b : bool) : sx := A (if b then 1 else 0)%N.
Definition of_opt {T} (f : T -> sx) (o : option T) : sx :=
  match o with Some y => L [f y] | None => L [] end.
Definition of_list {T} (f : T -> sx) (l : list T) : sx := L (map f l).
Definition of_nat (n : nat) : sx := A (N.of_nat n).

(* structural equality, used by the in-Coq cross-check of the extracted code *)
Fixpoint sx_eqb (x y : sx) : bool :=
  match x, y with
  | A a, A b => N.eqb a b
  | L l, L m =>
      (fix go (l m : list sx) : bool :=
         match l, m with
         | [], [] => true
         | a :: l', b :: m' => sx_eqb a b && go l' m'
         | _, _ => false
         end) l m
  | _, _ => false
  end.
Fixpoint all_eqb (xs ys : list sx) : bool :=
  match xs, ys with
  | [], [] => true
  | a :: xs', b :: ys' => sx_eqb a b && all_eqb xs' ys'
  | _, _ => false
  end.
