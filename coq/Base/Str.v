(* Strings as lists of code points; Python str comparison is code-point
   lexicographic.  ASCII classes and the Python string primitives html5lib
   uses, each with the characterising lemmas later proofs rely on. *)
From Coq Require Import NArith List Bool Lia ZifyBool ZifyN.
From Verif Require Import Sx.
Import ListNotations.
Local Open Scope N_scope.

Arguments N.add : simpl never.
Arguments N.sub : simpl never.
Arguments N.mul : simpl never.
Arguments N.leb : simpl never.
Arguments N.ltb : simpl never.
Arguments N.eqb : simpl never.
Arguments N.compare : simpl never.

(* ---------- equality ---------- *)
Fixpoint str_eqb (a b : str) : bool :=
  match a, b with
  | [], [] => true
  | x :: a', y :: b' => N.eqb x y && str_eqb a' b'
  | _, _ => false
  end.

Lemma str_eqb_eq a b : str_eqb a b = true <-> a = b.
Proof.
  revert b; induction a as [|x a IH]; intros [|y b]; cbn [str_eqb]; split; intro H;
    try reflexivity; try discriminate.
  - apply andb_true_iff in H as [H1 H2]. apply N.eqb_eq in H1. apply IH in H2. congruence.
  - injection H as -> ->. apply andb_true_iff; split; [apply N.eqb_refl | apply IH; reflexivity].
Qed.

Lemma str_eqb_refl a : str_eqb a a = true.
Proof. apply str_eqb_eq; reflexivity. Qed.

Lemma str_eqb_neq a b : str_eqb a b = false <-> a <> b.
Proof.
  split; intro H.
  - intro E. apply str_eqb_eq in E. congruence.
  - destruct (str_eqb a b) eqn:E; [apply str_eqb_eq in E; contradiction | reflexivity].
Qed.

Definition str_eq_dec (a b : str) : {a = b} + {a <> b}.
Proof. apply list_eq_dec. apply N.eq_dec. Defined.

Definition mem_str (x : str) (l : list str) : bool := existsb (str_eqb x) l.

Lemma mem_str_In x l : mem_str x l = true <-> In x l.
Proof.
  unfold mem_str. rewrite existsb_exists. split.
  - intros [y [Hy E]]. apply str_eqb_eq in E. subst. exact Hy.
  - intro H. exists x. split; [exact H | apply str_eqb_refl].
Qed.

Definition opt_str_eqb (a b : option str) : bool :=
  match a, b with
  | None, None => true
  | Some x, Some y => str_eqb x y
  | _, _ => false
  end.

Lemma opt_str_eqb_eq a b : opt_str_eqb a b = true <-> a = b.
Proof.
  destruct a, b; cbn; split; intro H; try discriminate; try reflexivity.
  - apply str_eqb_eq in H. congruence.
  - injection H as ->. apply str_eqb_refl.
Qed.

(* ---------- lexicographic order (Python str <) ---------- *)
Fixpoint str_cmp (a b : str) : comparison :=
  match a, b with
  | [], [] => Eq
  | [], _ :: _ => Lt
  | _ :: _, [] => Gt
  | x :: a', y :: b' =>
      match N.compare x y with
      | Eq => str_cmp a' b'
      | c => c
      end
  end.

Lemma str_cmp_eq a b : str_cmp a b = Eq <-> a = b.
Proof.
  revert b; induction a as [|x a IH]; intros [|y b]; cbn [str_cmp]; split; intro H;
    try reflexivity; try discriminate.
  - destruct (N.compare_spec x y); try discriminate. subst. apply IH in H. congruence.
  - injection H as -> ->. rewrite N.compare_refl. apply IH. reflexivity.
Qed.

Lemma str_cmp_antisym a b : str_cmp b a = CompOpp (str_cmp a b).
Proof.
  revert b; induction a as [|x a IH]; intros [|y b]; cbn [str_cmp]; try reflexivity.
  rewrite (N.compare_antisym x y). destruct (N.compare x y); cbn; auto.
Qed.

Lemma str_cmp_lt_trans a b d :
  str_cmp a b = Lt -> str_cmp b d = Lt -> str_cmp a d = Lt.
Proof.
  revert b d; induction a as [|x a IH]; intros [|y b] [|z d]; cbn [str_cmp]; intros H1 H2;
    try congruence.
  destruct (N.compare x y) eqn:E1; try discriminate;
  destruct (N.compare y z) eqn:E2; try discriminate.
  - apply N.compare_eq in E1. apply N.compare_eq in E2. subst. rewrite N.compare_refl. eauto.
  - apply N.compare_eq in E1; subst. rewrite E2. reflexivity.
  - apply N.compare_eq in E2; subst. rewrite E1. reflexivity.
  - rewrite N.compare_lt_iff in E1, E2. assert (H : x < z) by lia.
    apply N.compare_lt_iff in H. rewrite H. reflexivity.
Qed.

Definition str_leb (a b : str) : bool :=
  match str_cmp a b with Gt => false | _ => true end.

(* ---------- ASCII classes ---------- *)
Definition is_space (c : N) : bool :=
  (c =? 9) || (c =? 10) || (c =? 12) || (c =? 13) || (c =? 32).
Definition is_upper (c : N) : bool := (65 <=? c) && (c <=? 90).
Definition is_lower (c : N) : bool := (97 <=? c) && (c <=? 122).
Definition is_alpha (c : N) : bool := is_upper c || is_lower c.
Definition is_digit (c : N) : bool := (48 <=? c) && (c <=? 57).
Definition is_hex (c : N) : bool :=
  is_digit c || ((65 <=? c) && (c <=? 70)) || ((97 <=? c) && (c <=? 102)).
Definition ascii_lower (c : N) : N := if is_upper c then c + 32 else c.
Definition lower_str (s : str) : str := map ascii_lower s.

(* ---------- Python string primitives ---------- *)
Fixpoint starts_with (p s : str) : bool :=
  match p, s with
  | [], _ => true
  | x :: p', y :: s' => (x =? y) && starts_with p' s'
  | _ :: _, [] => false
  end.

Lemma starts_with_app p s : starts_with p s = true <-> exists r, s = p ++ r.
Proof.
  revert s; induction p as [|x p IH]; intros s; cbn [starts_with].
  - split; [intros _; exists s; reflexivity | reflexivity].
  - destruct s as [|y s].
    + split; [discriminate | intros [r H]; discriminate].
    + rewrite andb_true_iff, N.eqb_eq, IH. split.
      * intros [-> [r ->]]. exists r. reflexivity.
      * intros [r H]. injection H as -> ->. split; [reflexivity | exists r; reflexivity].
Qed.

(* "needle in s" for strings *)
Fixpoint contains (p s : str) : bool :=
  starts_with p s || match s with [] => false | _ :: s' => contains p s' end.

Fixpoint take_while (f : N -> bool) (s : str) : str :=
  match s with
  | x :: s' => if f x then x :: take_while f s' else []
  | [] => []
  end.
Fixpoint drop_while (f : N -> bool) (s : str) : str :=
  match s with
  | x :: s' => if f x then drop_while f s' else s
  | [] => []
  end.

Lemma take_drop_while f s : take_while f s ++ drop_while f s = s.
Proof. induction s as [|x s IH]; cbn; [reflexivity|]. destruct (f x); cbn; congruence. Qed.

Lemma take_while_all f s : forallb f (take_while f s) = true.
Proof. induction s as [|x s IH]; cbn; [reflexivity|]. destruct (f x) eqn:E; cbn; [rewrite E; exact IH | reflexivity]. Qed.

Lemma drop_while_head f s : match drop_while f s with [] => True | x :: _ => f x = false end.
Proof. induction s as [|x s IH]; cbn; [exact I|]. destruct (f x) eqn:E; [exact IH | exact E]. Qed.

Definition lstrip (f : N -> bool) (s : str) : str := drop_while f s.
Definition rstrip (f : N -> bool) (s : str) : str := rev (drop_while f (rev s)).
Definition strip (f : N -> bool) (s : str) : str := rstrip f (lstrip f s).

(* str.replace(old, new) for non-empty old: leftmost, non-overlapping; on fuel *)
Fixpoint replace_fuel (fuel : nat) (old new s : str) : str :=
  match fuel with
  | O => s
  | S fuel' =>
      match s with
      | [] => []
      | x :: s' =>
          if starts_with old s
          then new ++ replace_fuel fuel' old new (skipn (length old) s)
          else x :: replace_fuel fuel' old new s'
      end
  end.
Definition replace_all (old new s : str) : str :=
  match old with [] => s | _ => replace_fuel (S (length s)) old new s end.

(* hex rendering *)
Definition hex_digit (d : N) : N := if d <? 10 then 48 + d else 55 + d. (* upper case *)
Definition hex_digit_l (d : N) : N := if d <? 10 then 48 + d else 87 + d. (* lower case *)
