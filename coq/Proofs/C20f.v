(* C20 -- the matches replacementRegexp.findall finds in an encoded name are exactly the escapes the encoder
   wrote, in order (step towards the decoder's independence of the set order); coerceCharacters. *)
From Coq Require Import NArith List Bool Lia.
From Verif Require Import Sx Str Tok.
From Verif.Gen Require Import IHateXml.
From Verif.Model Require Import C20.
From Verif.Proofs Require Import C20.
Import ListNotations.
Local Open Scope N_scope.

Lemma findall_enc_rest r : bmp r -> nopat r = true ->
  forall fuel, (length (enc_rest r) <= fuel)%nat ->
  findall_fuel fuel (enc_rest r) = map esc (filter bad_rest r).
Proof.
  induction 1 as [|x r Hx Hr IH]; intros Hn fuel Hf.
  - destruct fuel; reflexivity.
  - cbn [nopat] in Hn. apply andb_true_iff in Hn as [Hn1 Hn2]. apply negb_true_iff in Hn1.
    cbn [filter]. rewrite enc_rest_cons in *. destruct (bad_rest x) eqn:E.
    + destruct (esc_shape x Hx) as [a [b [d [e [f [Es [Hh [Hu _]]]]]]]]. cbn [map]. rewrite Es in *.
      cbn [app length] in Hf. destruct fuel as [|fuel]; [lia|].
      cbn [app findall_fuel]. rewrite N.eqb_refl.
      change (a :: b :: d :: e :: f :: enc_rest r) with ([a; b; d; e; f] ++ enc_rest r).
      rewrite (hexk_app 5 [a; b; d; e; f] (enc_rest r) Hh). cbn [andb].
      cbn [firstn skipn app]. f_equal. apply IH; [exact Hn2 | lia].
    + cbn [app length] in Hf. destruct fuel as [|fuel]; [lia|]. cbn [app findall_fuel].
      assert (C : (x =? 85) && hexk 5 (enc_rest r) = false).
      { destruct (N.eqb_spec x 85) as [->|Hne]; [|reflexivity]. cbn [andb].
        try rewrite N.eqb_refl in Hn1. cbn [andb] in Hn1.
        destruct (hexk 5 (enc_rest r)) eqn:Eh; [|reflexivity].
        apply (hexk_enc 5 r) in Eh. congruence. }
      rewrite C. apply IH; [exact Hn2 | lia].
Qed.

Lemma findall_toxml n r : bmp n -> nopat n = true -> toXmlName n = Some r ->
  findall r = match n with
              | [] => []
              | c :: n' => (if bad_first c then [esc c] else []) ++ map esc (filter bad_rest n')
              end.
Proof.
  intros Hb Hn Ht. destruct n as [|c n]; [discriminate|]. cbn [toXmlName] in Ht. inversion Ht; subst r; clear Ht.
  unfold findall. set (fuel := length _). assert (Hf : (length ((if bad_first c then esc c else [c]) ++ enc_rest n) <= fuel)%nat) by apply le_n.
  clearbody fuel.
  inversion Hb as [|? ? Hc Hr]; subst. cbn [nopat] in Hn. apply andb_true_iff in Hn as [Hn1 Hn2].
  apply negb_true_iff in Hn1.
  destruct (bad_first c) eqn:E.
  - destruct (esc_shape c Hc) as [a [b [d [e [f [Es [Hh [Hu _]]]]]]]]. rewrite Es in *.
    cbn [app length] in Hf. destruct fuel as [|fuel]; [lia|].
    cbn [app findall_fuel]. rewrite N.eqb_refl.
    change (a :: b :: d :: e :: f :: enc_rest n) with ([a; b; d; e; f] ++ enc_rest n).
    rewrite (hexk_app 5 [a; b; d; e; f] (enc_rest n) Hh). cbn [andb].
    cbn [firstn skipn app]. f_equal. apply findall_enc_rest; [exact Hr | exact Hn2 | lia].
  - cbn [app length] in Hf. destruct fuel as [|fuel]; [lia|]. cbn [app findall_fuel].
    assert (C : (c =? 85) && hexk 5 (enc_rest n) = false).
    { destruct (N.eqb_spec c 85) as [->|Hne]; [|reflexivity]. cbn [andb].
      try rewrite N.eqb_refl in Hn1. cbn [andb] in Hn1.
      destruct (hexk 5 (enc_rest n)) eqn:Eh; [|reflexivity].
      apply (hexk_enc 5 n) in Eh. congruence. }
    rewrite C. apply findall_enc_rest; [exact Hr | exact Hn2 | lia].
Qed.

(* every item findall returns decodes (unescapeChar) to the character the encoder escaped *)
Lemma findall_items_decode n r : bmp n -> nopat n = true -> toXmlName n = Some r ->
  Forall (fun item => exists c, c < 65536 /\ item = esc c /\ unesc5 (tl item) = c) (findall r).
Proof.
  intros Hb Hn Ht. rewrite (findall_toxml n r Hb Hn Ht). destruct n as [|c n]; [constructor|].
  inversion Hb as [|? ? Hc Hr]; subst.
  assert (E : forall x, x < 65536 -> exists c0, c0 < 65536 /\ esc x = esc c0 /\ unesc5 (tl (esc x)) = c0).
  { intros x Hx. exists x. split; [exact Hx|]. split; [reflexivity|].
    destruct (esc_shape x Hx) as [a [b [d [e [f [Es [_ [Hu _]]]]]]]]. rewrite Es. cbn [tl]. exact Hu. }
  apply Forall_app. split.
  - destruct (bad_first c); [constructor; [apply E; exact Hc | constructor] | constructor].
  - apply Forall_forall. intros item Hi. apply in_map_iff in Hi as [x [<- Hx]]. apply filter_In in Hx as [Hx _].
    apply E. rewrite Forall_forall in Hr. apply Hr. exact Hx.
Qed.

(* coerceCharacters: with the flag no form feed remains, only form feeds change (to a space); without it nothing changes *)
Lemma characters_coerced s :
  forallb (fun c => negb (c =? 12)) (coerceCharacters true s) = true /\
  length (coerceCharacters true s) = length s /\
  (forall i, nth i (coerceCharacters true s) 0 = if nth i s 0 =? 12 then 32 else nth i s 0) /\
  coerceCharacters false s = s.
Proof.
  unfold coerceCharacters. repeat split.
  - induction s as [|c s IH]; [reflexivity|]. cbn [map forallb]. rewrite IH.
    destruct (N.eqb_spec c 12) as [->|Hc]; [reflexivity|]. apply N.eqb_neq in Hc. rewrite Hc. reflexivity.
  - apply map_length.
  - induction s as [|c s IH]; intros [|i]; try reflexivity. cbn [map nth]. apply IH.
Qed.
