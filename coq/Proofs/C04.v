From Coq Require Import NArith List Bool Arith Lia.
From Verif Require Import Sx Str Tok Tree.
From Verif.Model Require Import C04.
Import ListNotations.

(* the wrapper's shadow list lists exactly the element's real children, in order *)
Definition InvE (s : estore) : Prop := Forall (fun r => ekids r = eshadow r) s.

Lemma upd_cons_S {T} i f (x : T) l : upd (S i) f (x :: l) = x :: upd i f l.
Proof. reflexivity. Qed.
Lemma upd_cons_O {T} f (x : T) l : upd O f (x :: l) = f x :: l.
Proof. reflexivity. Qed.

Lemma Forall_upd {T} (P : T -> Prop) i f (l : list T) :
  Forall P l -> (forall x, P x -> P (f x)) -> Forall P (upd i f l).
Proof.
  intros H Hf. revert i. induction H as [|x l Hx Hl IH]; intro i.
  - destruct i; constructor.
  - destruct i as [|i]; [rewrite upd_cons_O | rewrite upd_cons_S]; constructor; auto.
Qed.

Lemma eget_inv s i : InvE s -> ekids (eget s i) = eshadow (eget s i).
Proof.
  intro H. unfold eget. revert i. induction H as [|x l Hx Hl IH]; intro i; destruct i; cbn; auto.
Qed.

Lemma inv_set_parent c p s : InvE s -> InvE (e_set_parent c p s).
Proof. intro H. apply Forall_upd; [exact H | intros x Hx; exact Hx]. Qed.
Lemma inv_set_text c p s : InvE s -> InvE (e_set_text c p s).
Proof. intro H. apply Forall_upd; [exact H | intros x Hx; exact Hx]. Qed.
Lemma inv_set_tail c p s : InvE s -> InvE (e_set_tail c p s).
Proof. intro H. apply Forall_upd; [exact H | intros x Hx; exact Hx]. Qed.
Lemma inv_set_kids p k s : InvE s -> InvE (e_set_kids p k k s).
Proof. intro H. apply Forall_upd; [exact H | intros x Hx; reflexivity]. Qed.

Lemma inv_append p c s : InvE s -> InvE (e_append p c s).
Proof.
  intro H. unfold e_append. apply inv_set_parent. rewrite (eget_inv s p H). apply inv_set_kids. exact H.
Qed.

Lemma inv_fold_append dst l : forall s, InvE s -> InvE (fold_left (fun st c => e_append dst c st) l s).
Proof. induction l as [|c l IH]; intros s H; cbn [fold_left]; [exact H | apply IH, inv_append, H]. Qed.

Lemma inv_app s r : InvE s -> ekids r = eshadow r -> InvE (s ++ [r]).
Proof. intros H Hr. apply Forall_app. split; [exact H | constructor; [exact Hr | constructor]]. Qed.

Theorem step_preserves_inv s o : InvE s -> InvE (fst (e_step s o)).
Proof.
  intro H. destruct o; cbn [e_step fst].
  - apply inv_app; [exact H | reflexivity].
  - apply inv_append. exact H.
  - unfold e_insert_before. rewrite (eget_inv s p H).
    destruct (index_of ref (eshadow (eget s p))); cbn [fst]; [|exact H].
    apply inv_set_parent, inv_set_kids, H.
  - unfold e_insert_text. destruct (ekids (eget s p)) as [|k ks]; cbn [fst].
    + apply inv_set_text, H.
    + destruct before as [ref|]; [|cbn [fst]; apply inv_set_tail, H].
      destruct (index_of ref (k :: ks)) as [[|i]|]; cbn [fst]; [apply inv_set_text, H | apply inv_set_tail, H | exact H].
  - unfold e_remove. rewrite (eget_inv s p H).
    destruct (index_of n (eshadow (eget s p))) eqn:E; cbn [fst]; [|exact H].
    apply inv_set_parent, inv_set_kids, H.
  - unfold e_reparent.
    destruct (eshadow (eget s dst)) as [|x xs].
    + cbn [fst]. apply inv_set_kids, inv_fold_append, inv_set_text, inv_set_text, H.
    + destruct (etail (eget s (last (x :: xs) 0%nat))), (etext (eget s src)); cbn [fst]; try exact H;
        apply inv_set_kids, inv_fold_append, inv_set_text, inv_set_tail, H.
  - unfold e_clone. apply inv_app; [exact H | reflexivity].
  - exact H.
Qed.

Theorem run_preserves_inv ops : forall s, InvE s -> InvE (fst (run_ops e_step s ops)).
Proof.
  induction ops as [|o r IH]; intros s H; cbn [run_ops fst]; [exact H|].
  pose proof (step_preserves_inv s o H) as H1. destruct (e_step s o) as [s1 out]. cbn [fst] in H1.
  destruct (is_err out); cbn [fst]; [exact H1|].
  specialize (IH s1 H1). destruct (run_ops e_step s1 r). exact IH.
Qed.

Corollary reachable_inv ops : InvE (fst (run_ops e_step [] ops)).
Proof. apply run_preserves_inv. constructor. Qed.

(* under the invariant removeChild never ends half-done (the shadow entry removed but not the real child) *)
Lemma remove_atomic s p n : InvE s ->
  snd (e_remove p n s) = ValueErr -> fst (e_remove p n s) = s.
Proof.
  intros H. unfold e_remove. rewrite (eget_inv s p H).
  destruct (index_of n (eshadow (eget s p))); cbn; [discriminate | reflexivity].
Qed.

(* the defect repaired by the fix: commit: without keeping the shadow list in step, an inserted node is lost *)
Definition e_insert_before_old (p n ref : nat) (s : estore) : estore * outcome :=
  let r := eget s p in
  match index_of ref (ekids r) with
  | None => (s, ValueErr)
  | Some i => (e_set_parent n (Some p) (e_set_kids p (insert_at i n (ekids r)) (eshadow r) s), Ok)
  end.
Example old_insertBefore_loses_node :
  let s0 := [enew KRoot; enew (KElem None [97%N] []); enew (KElem None [116%N] []); enew (KElem None [105%N] []); enew KRoot] in
  let s1 := e_append 1 2 s0 in
  let s2_old := fst (e_insert_before_old 1 3 2 s1) in
  let s2_new := fst (e_insert_before 1 3 2 s1) in
  length (e_node 9 (fst (e_reparent 1 4 s2_old)) 4) = 1%nat /\
  length (e_node 9 (fst (e_reparent 1 4 s2_new)) 4) = 2%nat.
Proof. split; vm_compute; reflexivity. Qed.
