(* C02sim_j -- per-state simulation lemmas (M_tok state method vs S_tok), see Proofs/C02sim.v and C02simtac.v.
   Each lemma:  R m s -> st m = X -> wk m = true -> plain m = true -> simok s (step_X m). *)
From Coq Require Import NArith List Bool Arith Lia ZifyBool ZifyN.
From Verif Require Import Sx Str.
From Verif.Gen Require Import Entities Tokenizer.
From Verif.Model Require Import CharRef TokBase TokHand C02.
From Verif.Spec Require Import CharRef TokSpec.
From Verif.Proofs Require Import C02a C02dict C08 C02sim C02simtac.
Import ListNotations.
Local Open Scope N_scope.

Lemma sim_afterDoctypePublicIdentifierState : forall m s, R m s -> st m = afterDoctypePublicIdentifierState -> wk m = true -> plain m = true -> simok s (step_afterDoctypePublicIdentifierState m).
Proof. sim_state step_afterDoctypePublicIdentifierState. Qed.

Lemma sim_afterDoctypePublicKeywordState : forall m s, R m s -> st m = afterDoctypePublicKeywordState -> wk m = true -> plain m = true -> simok s (step_afterDoctypePublicKeywordState m).
Proof. sim_state step_afterDoctypePublicKeywordState. Qed.

Lemma sim_commentStartDashState : forall m s, R m s -> st m = commentStartDashState -> wk m = true -> plain m = true -> simok s (step_commentStartDashState m).
Proof. sim_state step_commentStartDashState. Qed.

Lemma sim_doctypeSystemIdentifierDoubleQuotedState : forall m s, R m s -> st m = doctypeSystemIdentifierDoubleQuotedState -> wk m = true -> plain m = true -> simok s (step_doctypeSystemIdentifierDoubleQuotedState m).
Proof. sim_state step_doctypeSystemIdentifierDoubleQuotedState. Qed.

Lemma sim_scriptDataEscapeStartDashState : forall m s, R m s -> st m = scriptDataEscapeStartDashState -> wk m = true -> plain m = true -> simok s (step_scriptDataEscapeStartDashState m).
Proof. sim_state step_scriptDataEscapeStartDashState. Qed.

Lemma sim_scriptDataEscapedEndTagNameState : forall m s, R m s -> st m = scriptDataEscapedEndTagNameState -> wk m = true -> plain m = true -> simok s (step_scriptDataEscapedEndTagNameState m).
Proof. sim_state step_scriptDataEscapedEndTagNameState. Qed.

Lemma sim_scriptDataEscapedState : forall m s, R m s -> st m = scriptDataEscapedState -> wk m = true -> plain m = true -> simok s (step_scriptDataEscapedState m).
Proof. sim_state step_scriptDataEscapedState. all: (batch_goal batch_emit). Qed.

