(* C02sim -- refinement: the generated tokenizer model M_tok (Gen/Tokenizer.v) simulates into S_tok, the
   per-character WHATWG machine (Spec/TokSpec.v).  One step of M_tok corresponds to zero or more steps of S_tok
   (charsUntil batches a run; some reconsumptions take S_tok two steps); the configurations are related by R:
   same state, input, temporary buffer; S_tok's output is M_tok's with parse errors dropped and character tokens
   split; tag and doctype names lower-cased where html5lib does so late; the current token is not compared in
   the states where neither machine reads it before overwriting it. *)
From Coq Require Import NArith List Bool Arith Lia.
From Verif Require Import Sx Str.
From Verif.Gen Require Import Entities Tokenizer.
From Verif.Model Require Import CharRef TokBase TokHand C02.
From Verif.Spec Require Import CharRef TokSpec.
From Verif.Proofs Require Import C02a C02dict C08.
Import ListNotations.
Local Open Scope N_scope.

(* ---- output: newest first on both sides ---- *)
Definition flatr (o : list otok) : list otok := flat_map (fun t => rev (flat_tok t)) o.

Lemma flatr_cons t o : flatr (t :: o) = rev (flat_tok t) ++ flatr o.
Proof. reflexivity. Qed.
Lemma flatr_rev o : rev (flatr o) = flat (rev o).
Proof.
  unfold flatr, flat. induction o as [|t o IH]; [reflexivity|].
  cbn [flat_map rev]. rewrite rev_app_distr, rev_involutive, IH, flat_map_app. cbn [flat_map]. rewrite app_nil_r. reflexivity.
Qed.

(* ---- the current token as S_tok holds it ---- *)
Definition lower_last (a : pairs) : pairs :=
  match upd_last (fun kv => (lower_str (fst kv), snd kv)) a with Some a' => a' | None => a end.
Definition ncur (s : tstate) (c : ctok) : ctok :=
  match c with
  | CTag e n a sc => CTag e (lower_str n) (if tstate_eqb s attributeNameState then lower_last a else a) sc
  | CDoctype n p sy co => CDoctype (if tstate_eqb s doctypeNameState then lower_str n else n) p sy co
  | other => other
  end.

(* states in which the current token is not read before it is overwritten *)
Definition cur_dead (s : tstate) : bool :=
  match s with
  | dataState | entityDataState | tagOpenState | closeTagOpenState | markupDeclarationOpenState
  | cdataSectionState | cdataSectionBracketState | cdataSectionEndState => true
  | _ => false
  end.

(* html5lib has two extra states, entered after "&" in data/RCDATA, that only call consumeEntity; S_tok handles
   the reference inside the data/RCDATA state: while M_tok is in such a state S_tok still stands before the "&" *)
Definition sst (m : tk) : tstate :=
  match st m with entityDataState => dataState | characterReferenceInRcdata => rcdataState | x => x end.
Definition sinp (m : tk) : str :=
  match st m with entityDataState | characterReferenceInRcdata => 38 :: inp m | _ => inp m end.

Definition R (m s : tk) : Prop :=
  st s = sst m /\ inp s = sinp m /\ tmp s = tmp m /\ out s = flatr (out m) /\ cdata_ok s = cdata_ok m /\
  bad m = false /\ bad s = false /\
  (if tstate_eqb (st m) bogusCommentState then cur s = CComment []
   else cur_dead (st m) = true \/ cur s = ncur (st m) (cur m)).

(* ---- what kind of current token each state needs (no Python TypeError/KeyError) ---- *)
Definition is_tag (c : ctok) : bool := match c with CTag _ _ _ _ => true | _ => false end.
Definition has_attr (c : ctok) : bool := match c with CTag _ _ (_ :: _) _ => true | _ => false end.
Definition is_comment (c : ctok) : bool := match c with CComment _ => true | _ => false end.
Definition is_doctype (c : ctok) : bool := match c with CDoctype _ _ _ _ => true | _ => false end.
Definition has_pub (c : ctok) : bool := match c with CDoctype _ (Some _) _ _ => true | _ => false end.
Definition has_sys (c : ctok) : bool := match c with CDoctype _ _ (Some _) _ => true | _ => false end.
(* raw-text states are entered with no current token or right after a start tag *)
Definition none_or_tag (c : ctok) : bool := match c with CNone | CTag _ _ _ _ => true | _ => false end.
Definition nil_str (t : str) : bool := match t with [] => true | _ => false end.
Definition wk (m : tk) : bool :=
  match st m with
  | tagNameState | beforeAttributeNameState | afterAttributeValueState | selfClosingStartTagState => is_tag (cur m)
  | attributeNameState | afterAttributeNameState | beforeAttributeValueState | attributeValueDoubleQuotedState
  | attributeValueSingleQuotedState | attributeValueUnQuotedState => has_attr (cur m)
  | commentStartState | commentStartDashState | commentState | commentEndDashState | commentEndState
  | commentEndBangState => is_comment (cur m)
  | doctypeState | beforeDoctypeNameState | doctypeNameState | afterDoctypeNameState
  | afterDoctypePublicKeywordState | beforeDoctypePublicIdentifierState | afterDoctypePublicIdentifierState
  | betweenDoctypePublicAndSystemIdentifiersState | afterDoctypeSystemKeywordState
  | beforeDoctypeSystemIdentifierState | afterDoctypeSystemIdentifierState | bogusDoctypeState => is_doctype (cur m)
  | doctypePublicIdentifierDoubleQuotedState | doctypePublicIdentifierSingleQuotedState => has_pub (cur m)
  | doctypeSystemIdentifierDoubleQuotedState | doctypeSystemIdentifierSingleQuotedState => has_sys (cur m)
  | rcdataState | rcdataLessThanSignState | rcdataEndTagOpenState | rcdataEndTagNameState | characterReferenceInRcdata
  | rawtextState | rawtextLessThanSignState | rawtextEndTagOpenState | rawtextEndTagNameState
  | scriptDataState | scriptDataLessThanSignState | scriptDataEndTagOpenState | scriptDataEndTagNameState
  | scriptDataEscapeStartState | scriptDataEscapeStartDashState | scriptDataEscapedState | scriptDataEscapedDashState
  | scriptDataEscapedDashDashState | scriptDataEscapedLessThanSignState
  | scriptDataEscapedEndTagNameState | scriptDataDoubleEscapeStartState | scriptDataDoubleEscapedState
  | scriptDataDoubleEscapedDashState | scriptDataDoubleEscapedDashDashState
  | scriptDataDoubleEscapedLessThanSignState | scriptDataDoubleEscapeEndState => none_or_tag (cur m)
  | scriptDataEscapedEndTagOpenState =>
      (* html5lib ASSIGNS the first letter to the temporary buffer here (the standard appends): same thing
         because the buffer was emptied on entering this state *)
      none_or_tag (cur m) && nil_str (tmp m)
  | _ => true
  end.

(* ---- small facts the per-state proofs rewrite with ---- *)
Lemma lower_str_app a b : lower_str (a ++ b) = lower_str a ++ lower_str b.
Proof. unfold lower_str. apply map_app. Qed.
Lemma lower_str_idem a : lower_str (lower_str a) = lower_str a.
Proof.
  unfold lower_str. rewrite map_map. apply map_ext. intro c. unfold ascii_lower, is_upper.
  destruct ((65 <=? c) && (c <=? 90)) eqn:E; [|rewrite E; reflexivity].
  replace ((65 <=? c + 32) && (c + 32 <=? 90)) with false; [reflexivity|].
  symmetry. apply andb_false_iff. right. apply N.leb_gt. apply andb_true_iff in E as [E _]. apply N.leb_le in E. lia.
Qed.
Lemma lc_is_ascii_lower c : lc c = ascii_lower c. Proof. reflexivity. Qed.
Lemma nulfix_nz c : (c =? 0) = false -> nulfix c = c.
Proof. intro H. unfold nulfix. rewrite H. reflexivity. Qed.
Lemma upd_last_snoc' {A} (f : A -> A) (l : list A) (x : A) : upd_last f (l ++ [x]) = Some (l ++ [f x]).
Proof. apply upd_last_snoc. Qed.
Lemma lower_last_snoc a n v : lower_last (a ++ [(n, v)]) = a ++ [(lower_str n, v)].
Proof. unfold lower_last. rewrite upd_last_snoc. reflexivity. Qed.
