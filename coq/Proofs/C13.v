From Coq Require Import NArith List Bool String.
From Verif Require Import Sx Str Tok DT.
From Verif.Proofs Require Import DTp.
From Verif.Gen Require Import OptionalTags.
From Verif.Spec Require Import Lit OptionalTags.
From Verif.Model Require Import C13.
Import ListNotations.
Local Open Scope N_scope.

(* ---------- subsequence ---------- *)
Inductive Subseq {T} : list T -> list T -> Prop :=
| sub_nil : Subseq [] []
| sub_keep x a b : Subseq a b -> Subseq (x :: a) (x :: b)
| sub_drop x a b : Subseq a b -> Subseq a (x :: b).

Lemma ot_go_subseq ts : forall prev, Subseq (ot_go prev ts) ts.
Proof.
  induction ts as [|t r IH]; intro prev; cbn [ot_go]; [constructor|].
  destruct (keep prev t (hd_error r)); cbn [app]; constructor; apply IH.
Qed.

Lemma OT_subseq ts : Subseq (OT ts) ts.
Proof. apply ot_go_subseq. Qed.

(* the output is exactly the tokens whose keep flag is set, in order *)
Fixpoint select {T} (fl : list bool) (l : list T) : list T :=
  match fl, l with
  | f :: fl', x :: l' => if f then x :: select fl' l' else select fl' l'
  | _, _ => []
  end.
Lemma ot_go_select ts : forall prev, ot_go prev ts = select (ot_flags prev ts) ts.
Proof.
  induction ts as [|t r IH]; intro prev; cbn [ot_go ot_flags select]; [reflexivity|].
  destruct (keep prev t (hd_error r)); cbn [app]; rewrite IH; reflexivity.
Qed.

(* ---------- finite checks, lifted to all names by the abstraction theorem ---------- *)
Lemma start_shape_ok : ok3 prog_is_optional_start (Ret (CTagIn (SL ["html"; "head"; "body"; "colgroup"; "tbody"]%string))) = true.
Proof. vm_compute. reflexivity. Qed.
Lemma end_shape_ok : ok2 prog_is_optional_end (Ret (CTagIn listed18)) = true.
Proof. vm_compute. reflexivity. Qed.
Lemma start_sound_ok : ok3 prog_is_optional_start spec_start = true.
Proof. vm_compute. reflexivity. Qed.
Lemma end_sound_ok : ok2 prog_is_optional_end spec_end_or_known = true.
Proof. vm_compute. reflexivity. Qed.

Definition removed_shape (t : token) : Prop :=
  match t with
  | TStart _ n [] => mem_str n listed18 = true
  | TEnd _ n => mem_str n listed18 = true
  | _ => False
  end.

Lemma five_in_18 n :
  mem_str n (SL ["html"; "head"; "body"; "colgroup"; "tbody"]%string) = true -> mem_str n listed18 = true.
Proof.
  intro H. apply mem_str_In in H. apply mem_str_In.
  cbn in H. repeat (destruct H as [<-|H]; [vm_compute; tauto|]). contradiction.
Qed.

Lemma removed_has_shape prev t next : keep prev t next = false -> removed_shape t.
Proof.
  destruct t; cbn [keep removed_shape]; try discriminate.
  - destruct a as [|x a]; cbn [is_nil negb orb]; [|discriminate].
    intro H. apply negb_false_iff in H. apply five_in_18.
    exact (implies3 _ _ start_shape_ok name (view_of prev) (view_of next)
             (view_of_kind_ok prev) (view_of_kind_ok next) H).
  - intro H. apply negb_false_iff in H.
    exact (implies2 _ _ end_shape_ok name None (view_of next) (view_of_kind_ok next) H).
Qed.

(* the syntax allows every omission the filter performs, except the two recorded deviations *)
Definition syntax_allows (prev : option token) (t : token) (next : option token) : bool :=
  match t with
  | TStart _ n [] => peval spec_start n (view_of prev) (view_of next)
  | TEnd _ n => peval spec_end_or_known n None (view_of next)
  | _ => false
  end.

Lemma removed_is_allowed prev t next : keep prev t next = false -> syntax_allows prev t next = true.
Proof.
  destruct t; cbn [keep syntax_allows]; try discriminate.
  - destruct a as [|x a]; cbn [is_nil negb orb]; [|discriminate].
    intro H. apply negb_false_iff in H.
    exact (implies3 _ _ start_sound_ok name (view_of prev) (view_of next)
             (view_of_kind_ok prev) (view_of_kind_ok next) H).
  - intro H. apply negb_false_iff in H.
    exact (implies2 _ _ end_sound_ok name None (view_of next) (view_of_kind_ok next) H).
Qed.

(* colgroup/tbody start tags: the "preceding element whose end tag has been omitted" side conditions *)
Lemma colgroup_end_kept_before_colgroup ns a :
  is_optional_end (S "colgroup") (Some (TStart ns (S "colgroup") a)) = false.
Proof. reflexivity. Qed.

