(* C02simmain -- the refinement theorem: every run of M_tok (the translated html5lib tokenizer) over covered
   configurations is matched by a run of S_tok (the per-character WHATWG machine) ending in a related
   configuration; in particular S_tok's token stream is M_tok's with parse errors dropped and character tokens
   split into single characters. *)
From Coq Require Import NArith List Bool Arith Lia.
From Verif Require Import Sx Str.
From Verif.Gen Require Import Entities Tokenizer.
From Verif.Model Require Import CharRef TokBase TokHand C02.
From Verif.Spec Require Import CharRef TokSpec.
From Verif.Proofs Require Import C02a C02b C02dict C08 C02sim C02simtac.
From Verif.Proofs Require Import C02cdata C02sim_amp C02sim_a C02sim_adn C02sim_b C02sim_bogus C02sim_c C02sim_d C02sim_e C02sim_f C02sim_g C02sim_h C02sim_i C02sim_j C02sim_mdo.
Import ListNotations.
Local Open Scope N_scope.

Create HintDb simlem.
#[local] Hint Resolve sim_bogusDoctypeState sim_doctypeNameState sim_rcdataLessThanSignState sim_scriptDataEscapedEndTagOpenState sim_afterDoctypeNameState sim_beforeAttributeValueState sim_entityDataState sim_rawtextEndTagOpenState sim_rawtextLessThanSignState sim_bogusCommentState sim_attributeNameState sim_commentStartState sim_commentState sim_scriptDataEndTagNameState sim_scriptDataEscapedDashState sim_tagNameState sim_afterAttributeNameState sim_attributeValueSingleQuotedState sim_dataState sim_plaintextState sim_rawtextEndTagNameState sim_scriptDataEscapedDashDashState sim_tagOpenState sim_attributeValueDoubleQuotedState sim_attributeValueUnQuotedState sim_commentEndDashState sim_rawtextState sim_scriptDataDoubleEscapeStartState sim_scriptDataLessThanSignState sim_selfClosingStartTagState sim_afterAttributeValueState sim_beforeAttributeNameState sim_commentEndBangState sim_doctypeState sim_rcdataEndTagNameState sim_rcdataEndTagOpenState sim_scriptDataState sim_beforeDoctypeNameState sim_betweenDoctypePublicAndSystemIdentifiersState sim_closeTagOpenState sim_doctypePublicIdentifierDoubleQuotedState sim_rcdataState sim_scriptDataDoubleEscapedLessThanSignState sim_scriptDataEscapedLessThanSignState sim_afterDoctypeSystemKeywordState sim_beforeDoctypeSystemIdentifierState sim_characterReferenceInRcdata sim_commentEndState sim_doctypePublicIdentifierSingleQuotedState sim_scriptDataDoubleEscapedDashDashState sim_scriptDataDoubleEscapedDashState sim_afterDoctypeSystemIdentifierState sim_beforeDoctypePublicIdentifierState sim_doctypeSystemIdentifierSingleQuotedState sim_scriptDataDoubleEscapeEndState sim_scriptDataDoubleEscapedState sim_scriptDataEndTagOpenState sim_scriptDataEscapeStartState sim_afterDoctypePublicIdentifierState sim_afterDoctypePublicKeywordState sim_commentStartDashState sim_doctypeSystemIdentifierDoubleQuotedState sim_scriptDataEscapeStartDashState sim_scriptDataEscapedEndTagNameState sim_scriptDataEscapedState sim_markupDeclarationOpenState : simlem.

Lemma sim_step m s : R m s -> wk m = true -> covered m = true -> simok s (step m).
Proof.
  intros HR Hwk Hcov. destruct (plain m) eqn:Hp.
  - unfold step. destruct (st m) eqn:Hst;
      first [ solve [unfold plain in Hp; rewrite Hst in Hp; discriminate Hp] | solve [auto with simlem] ].
  - unfold step. unfold plain in Hp. unfold covered in Hcov.
    destruct (st m) eqn:Hst; try discriminate Hp; try discriminate Hcov;
      try (apply negb_false_iff in Hp);
      first [ apply sim_entityDataState_ref; assumption
            | apply sim_characterReferenceInRcdata_ref; assumption
            | apply sim_dataState_amp; assumption
            | apply sim_rcdataState_amp; assumption
            | apply sim_beforeAttributeValueState_amp; assumption
            | apply sim_attributeValueDoubleQuotedState_amp; assumption
            | apply sim_attributeValueSingleQuotedState_amp; assumption
            | apply sim_attributeValueUnQuotedState_amp; assumption ].
Qed.

(* run_loop restricted to covered configurations *)
Fixpoint run_cov (fuel : nat) (k : tk) : option tk :=
  match fuel with
  | O => None
  | S f => if covered k then let '(k', cont) := step k in if cont then run_cov f k' else Some k' else None
  end.
Lemma run_cov_is_run_loop : forall n k kf, run_cov n k = Some kf -> run_loop n k = Some kf.
Proof.
  induction n as [|n IH]; intros k kf H; [discriminate H|].
  cbn [run_cov run_loop] in *. destruct (covered k); [|discriminate H].
  destruct (step k) as [k' c]. destruct c; [apply IH; exact H | exact H].
Qed.

Lemma sp_iter_run j : forall n s s', sp_iter j s = Some s' -> sp_run (j + n) s = sp_run n s'.
Proof.
  induction j as [|j IH]; intros n s s' H; cbn [sp_iter Nat.add sp_run] in *.
  - inversion H. reflexivity.
  - destruct (sp_step s) as [s1 c]. destruct c; [apply IH; exact H | discriminate H].
Qed.

Theorem refinement : forall n m s mf,
  R m s -> wk m = true -> run_cov n m = Some mf ->
  exists n' sf, sp_run n' s = Some sf /\ R mf sf /\ wk mf = true.
Proof.
  induction n as [|n IH]; intros m s mf HR Hwk Hrun; [discriminate Hrun|].
  cbn [run_cov] in Hrun. destruct (covered m) eqn:Hcov; [|discriminate Hrun].
  pose proof (sim_step m s HR Hwk Hcov) as Hsim. unfold simok in Hsim.
  destruct (step m) as [m' c]. cbn [fst snd] in Hsim. destruct Hsim as (_ & Hwk' & _ & _ & Hsim).
  destruct c.
  - destruct Hsim as (j & s' & Hj & HR').
    destruct (IH m' s' mf HR' Hwk' Hrun) as (n' & sf & Hn & HRf & Hwf).
    exists (j + n')%nat, sf. split; [|split; assumption]. rewrite (sp_iter_run j n' s s' Hj). exact Hn.
  - destruct Hsim as (s' & Hs & HR'). inversion Hrun; subst mf.
    exists 1%nat, s'. split; [|split; assumption]. cbn [sp_run]. rewrite Hs. reflexivity.
Qed.

(* S_tok is deterministic and more fuel never changes a finished run: the [sf] above is THE result of S_tok *)
Lemma sp_run_more : forall n s sf k, sp_run n s = Some sf -> sp_run (n + k) s = Some sf.
Proof.
  induction n as [|n IH]; intros s sf k H; [discriminate H|].
  cbn [sp_run Nat.add] in *. destruct (sp_step s) as [s' c]. destruct c; [apply IH; exact H | exact H].
Qed.
Lemma sp_run_det a b s x y : sp_run a s = Some x -> sp_run b s = Some y -> x = y.
Proof.
  intros Ha Hb. destruct (Nat.le_ge_cases a b) as [H|H].
  - rewrite <- (Nat.sub_add a b H), Nat.add_comm in Hb. rewrite (sp_run_more a s x _ Ha) in Hb. inversion Hb. reflexivity.
  - rewrite <- (Nat.sub_add b a H), Nat.add_comm in Ha. rewrite (sp_run_more b s y _ Hb) in Ha. inversion Ha. reflexivity.
Qed.

(* the five start states the parser uses, with no current token *)
Definition start_state (s : tstate) : bool :=
  match s with dataState | rcdataState | rawtextState | scriptDataState | plaintextState => true | _ => false end.
Lemma R_init s0 t cd i : start_state s0 = true -> R (init_tk s0 CNone t cd i) (init_tk s0 CNone t cd i) /\ wk (init_tk s0 CNone t cd i) = true.
Proof. destruct s0; try discriminate; intros _; (split; [|reflexivity]); unfold R, init_tk; cbn; repeat split; auto. Qed.

Theorem tokenizer_refines_whatwg : forall s0 t cd i n mf,
  start_state s0 = true ->
  run_cov n (init_tk s0 CNone t cd i) = Some mf ->
  run_loop n (init_tk s0 CNone t cd i) = Some mf /\
  exists n' sf, sp_run n' (init_tk s0 CNone t cd i) = Some sf /\
                (forall n'' sf', sp_run n'' (init_tk s0 CNone t cd i) = Some sf' -> sf' = sf) /\
                rev (out sf) = flat (rev (out mf)) /\ inp sf = sinp mf /\ st sf = sst mf.
Proof.
  intros s0 t cd i n mf Hs Hrun. split; [apply run_cov_is_run_loop; exact Hrun|].
  destruct (R_init s0 t cd i Hs) as [HR Hwk].
  destruct (refinement n _ _ mf HR Hwk Hrun) as (n' & sf & Hn & HRf & _).
  exists n', sf. split; [exact Hn|]. split; [intros n'' sf' H'; exact (sp_run_det _ _ _ _ _ H' Hn)|].
  destruct HRf as (Hst & Hi & _ & Ho & _). split; [rewrite Ho; apply flatr_rev|]. split; assumption.
Qed.

(* ---- without CDATA sections allowed, EVERY run is covered ---- *)
Theorem refinement_no_cdata : forall n m s mf,
  R m s -> wk m = true -> covered m = true -> cdata_ok m = false -> run_loop n m = Some mf ->
  exists n' sf, sp_run n' s = Some sf /\ R mf sf.
Proof.
  induction n as [|n IH]; intros m s mf HR Hwk Hcov Hcd Hrun; [discriminate Hrun|].
  cbn [run_loop] in Hrun.
  pose proof (sim_step m s HR Hwk Hcov) as Hsim. unfold simok in Hsim.
  assert (Hscd : cdata_ok s = false) by (destruct HR as (_ & _ & _ & _ & Hx & _); congruence).
  destruct (step m) as [m' c]. cbn [fst snd] in Hsim. destruct Hsim as (_ & Hwk' & Hcd' & Hcv' & Hsim).
  assert (Hcov' : covered m' = true) by (destruct (covered m'); [reflexivity | specialize (Hcv' eq_refl); congruence]).
  destruct c.
  - destruct Hsim as (j & s' & Hj & HR').
    destruct (IH m' s' mf HR' Hwk' Hcov' ltac:(congruence) Hrun) as (n' & sf & Hn & HRf).
    exists (j + n')%nat, sf. split; [|assumption]. rewrite (sp_iter_run j n' s s' Hj). exact Hn.
  - destruct Hsim as (s' & Hs & HR'). inversion Hrun; subst mf.
    exists 1%nat, s'. split; [|assumption]. cbn [sp_run]. rewrite Hs. reflexivity.
Qed.

Theorem tokenizer_equals_whatwg_no_cdata : forall s0 t i,
  start_state s0 = true ->
  exists mf n' sf,
    tokenize s0 CNone t false i = Some mf /\
    sp_run n' (init_tk s0 CNone t false i) = Some sf /\
    (forall n'' sf', sp_run n'' (init_tk s0 CNone t false i) = Some sf' -> sf' = sf) /\
    rev (out sf) = flat (rev (out mf)) /\ inp sf = sinp mf /\ st sf = sst mf.
Proof.
  intros s0 t i Hs.
  destruct (tokenize s0 CNone t false i) as [mf|] eqn:Et; [|exfalso; exact (tokenize_total _ _ _ _ _ Et)].
  destruct (R_init s0 t false i Hs) as [HR Hwk].
  assert (Hcov : covered (init_tk s0 CNone t false i) = true) by (destruct s0; try discriminate Hs; reflexivity).
  unfold tokenize in Et.
  destruct (refinement_no_cdata _ _ _ mf HR Hwk Hcov eq_refl Et) as (n' & sf & Hn & HRf).
  exists mf, n', sf. split; [reflexivity|]. split; [exact Hn|].
  split; [intros n'' sf' H'; exact (sp_run_det _ _ _ _ _ H' Hn)|].
  destruct HRf as (Hst & Hi & _ & Ho & _). split; [rewrite Ho; apply flatr_rev|]. split; assumption.
Qed.

(* ---- CDATA sections included: everything but a U+0000 inside one ---- *)
Definition covered_cdata (m : tk) : bool :=
  match st m with
  | cdataSectionState => negb (has_nul (fst (csplit (inp m))))
  | cdataSectionBracketState | cdataSectionEndState => false       (* states html5lib does not have *)
  | _ => true
  end.
Lemma sim_step_cdata m s : R m s -> wk m = true -> covered_cdata m = true -> simok s (step m).
Proof.
  intros HR Hwk Hcov. destruct (tstate_eqb (st m) cdataSectionState) eqn:E.
  - assert (Hst : st m = cdataSectionState) by (destruct (st m); try discriminate E; reflexivity).
    unfold step. rewrite Hst. apply sim_cdataSectionState; [exact HR|exact Hst|].
    unfold covered_cdata in Hcov. rewrite Hst in Hcov. apply negb_true_iff in Hcov. exact Hcov.
  - apply sim_step; [exact HR|exact Hwk|]. unfold covered_cdata in Hcov. unfold covered.
    destruct (st m); try reflexivity; try discriminate Hcov; discriminate E.
Qed.

Fixpoint run_cov_cdata (fuel : nat) (k : tk) : option tk :=
  match fuel with
  | O => None
  | S f => if covered_cdata k then let '(k', cont) := step k in if cont then run_cov_cdata f k' else Some k' else None
  end.

Theorem refinement_cdata : forall n m s mf,
  R m s -> wk m = true -> run_cov_cdata n m = Some mf ->
  run_loop n m = Some mf /\ exists n' sf, sp_run n' s = Some sf /\ R mf sf /\ wk mf = true.
Proof.
  induction n as [|n IH]; intros m s mf HR Hwk Hrun; [discriminate Hrun|].
  cbn [run_cov_cdata run_loop] in *. destruct (covered_cdata m) eqn:Hcov; [|discriminate Hrun].
  pose proof (sim_step_cdata m s HR Hwk Hcov) as Hsim. unfold simok in Hsim.
  destruct (step m) as [m' c]. cbn [fst snd] in Hsim. destruct Hsim as (_ & Hwk' & _ & _ & Hsim).
  destruct c.
  - destruct Hsim as (j & s' & Hj & HR').
    destruct (IH m' s' mf HR' Hwk' Hrun) as (Hl & n' & sf & Hn & HRf & Hwf).
    split; [exact Hl|]. exists (j + n')%nat, sf. split; [|split; assumption]. rewrite (sp_iter_run j n' s s' Hj). exact Hn.
  - destruct Hsim as (s' & Hs & HR'). inversion Hrun; subst mf. split; [reflexivity|].
    exists 1%nat, s'. split; [|split; assumption]. cbn [sp_run]. rewrite Hs. reflexivity.
Qed.

Theorem tokenizer_refines_whatwg_cdata : forall s0 t cd i n mf,
  start_state s0 = true ->
  run_cov_cdata n (init_tk s0 CNone t cd i) = Some mf ->
  run_loop n (init_tk s0 CNone t cd i) = Some mf /\
  exists n' sf, sp_run n' (init_tk s0 CNone t cd i) = Some sf /\
                (forall n'' sf', sp_run n'' (init_tk s0 CNone t cd i) = Some sf' -> sf' = sf) /\
                rev (out sf) = flat (rev (out mf)) /\ inp sf = sinp mf /\ st sf = sst mf.
Proof.
  intros s0 t cd i n mf Hs Hrun. destruct (R_init s0 t cd i Hs) as [HR Hwk].
  destruct (refinement_cdata n _ _ mf HR Hwk Hrun) as (Hl & n' & sf & Hn & HRf & _).
  split; [exact Hl|]. exists n', sf. split; [exact Hn|]. split; [intros n'' sf' H'; exact (sp_run_det _ _ _ _ _ H' Hn)|].
  destruct HRf as (Hst & Hi & _ & Ho & _). split; [rewrite Ho; apply flatr_rev|]. split; assumption.
Qed.
