(* C02sim_g -- per-state simulation lemmas (M_tok state method vs S_tok), see Proofs/C02sim.v and C02simtac.v.
   Each lemma:  R m s -> st m = X -> wk m = true -> plain m = true -> simok s (step_X m). *)
From Coq Require Import NArith List Bool Arith Lia ZifyBool ZifyN.
From Verif Require Import Sx Str.
From Verif.Gen Require Import Entities Tokenizer.
From Verif.Model Require Import CharRef TokBase TokHand C02.
From Verif.Spec Require Import CharRef TokSpec.
From Verif.Proofs Require Import C02a C02dict C08 C02sim C02simtac.
Import ListNotations.
Local Open Scope N_scope.

Lemma sim_beforeDoctypeNameState : forall m s, R m s -> st m = beforeDoctypeNameState -> wk m = true -> plain m = true -> simok s (step_beforeDoctypeNameState m).
Proof. sim_state step_beforeDoctypeNameState. Qed.

Lemma sim_betweenDoctypePublicAndSystemIdentifiersState : forall m s, R m s -> st m = betweenDoctypePublicAndSystemIdentifiersState -> wk m = true -> plain m = true -> simok s (step_betweenDoctypePublicAndSystemIdentifiersState m).
Proof. sim_state step_betweenDoctypePublicAndSystemIdentifiersState. Qed.

Lemma sim_closeTagOpenState : forall m s, R m s -> st m = closeTagOpenState -> wk m = true -> plain m = true -> simok s (step_closeTagOpenState m).
Proof. sim_state step_closeTagOpenState. Qed.

Lemma sim_doctypePublicIdentifierDoubleQuotedState : forall m s, R m s -> st m = doctypePublicIdentifierDoubleQuotedState -> wk m = true -> plain m = true -> simok s (step_doctypePublicIdentifierDoubleQuotedState m).
Proof. sim_state step_doctypePublicIdentifierDoubleQuotedState. Qed.

Lemma sim_rcdataState : forall m s, R m s -> st m = rcdataState -> wk m = true -> plain m = true -> simok s (step_rcdataState m).
Proof. sim_state step_rcdataState. all: (batch_goal batch_emit). Qed.

Lemma sim_scriptDataDoubleEscapedLessThanSignState : forall m s, R m s -> st m = scriptDataDoubleEscapedLessThanSignState -> wk m = true -> plain m = true -> simok s (step_scriptDataDoubleEscapedLessThanSignState m).
Proof. sim_state step_scriptDataDoubleEscapedLessThanSignState. Qed.

Lemma sim_scriptDataEscapedLessThanSignState : forall m s, R m s -> st m = scriptDataEscapedLessThanSignState -> wk m = true -> plain m = true -> simok s (step_scriptDataEscapedLessThanSignState m).
Proof. sim_state step_scriptDataEscapedLessThanSignState. Qed.

