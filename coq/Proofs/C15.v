From Coq Require Import NArith List Bool Arith Lia.
From Verif Require Import Sx Str Tok.
From Verif.Model Require Import C15.
Import ListNotations.
Local Open Scope N_scope.

Section P.
Variable enc : str.

(* a rewritten meta keeps its namespace, name and attribute keys in order; only values change *)
Definition rel (t t' : token) : Prop :=
  t' = t \/ exists ns n a a', t = TEmpty ns n a /\ t' = TEmpty ns n a' /\ is_name s_meta n = true /\ map fst a' = map fst a.

Lemma rewrite_charset_keys a a' : rewrite_charset enc a = Some a' -> map fst a' = map fst a.
Proof.
  revert a'; induction a as [|[[ns n] v] r IH]; intros a'; cbn [rewrite_charset]; [discriminate|].
  destruct ns as [x|].
  - destruct (rewrite_charset enc r) as [r'|]; [|discriminate]. intro H. inversion H; subst. cbn. rewrite (IH r' eq_refl). reflexivity.
  - destruct (is_name s_charset n).
    + intro H. inversion H; subst. reflexivity.
    + destruct (rewrite_charset enc r) as [r'|]; [|discriminate]. intro H. inversion H; subst. cbn. rewrite (IH r' eq_refl). reflexivity.
Qed.

Lemma set_content_keys a : map fst (set_content enc a) = map fst a.
Proof.
  unfold set_content. induction a as [|kv r IH]; [reflexivity|]. cbn [map]. rewrite IH.
  destruct kv as [k v]. cbn [fst]. destruct (akey_eqb k content_key); reflexivity.
Qed.

Lemma rewrite_meta_keys a : map fst (fst (rewrite_meta enc a)) = map fst a.
Proof.
  unfold rewrite_meta. destruct (rewrite_charset enc a) as [a'|] eqn:E; cbn [fst].
  - apply rewrite_charset_keys. exact E.
  - destruct (has_pragma a && has_content a); cbn [fst]; [apply set_content_keys | reflexivity].
Qed.

(* what "declares the encoding" means for a meta's attributes *)
Definition declares (a : attrs) : Prop :=
  (exists n, is_name s_charset n = true /\ In ((None, n), enc) a) \/
  (has_pragma a = true /\ In (content_key, s_text_html_charset ++ enc) a).

Lemma rewrite_charset_declares a a' : rewrite_charset enc a = Some a' ->
  exists n, is_name s_charset n = true /\ In ((None, n), enc) a'.
Proof.
  revert a'; induction a as [|[[ns n] v] r IH]; intros a'; cbn [rewrite_charset]; [discriminate|].
  destruct ns as [x|].
  - destruct (rewrite_charset enc r) as [r'|]; [|discriminate]. intro H. inversion H; subst.
    destruct (IH r' eq_refl) as [m [Hm Hin]]. exists m. split; [exact Hm | right; exact Hin].
  - destruct (is_name s_charset n) eqn:E.
    + intro H. inversion H; subst. exists n. split; [exact E | left; reflexivity].
    + destruct (rewrite_charset enc r) as [r'|]; [|discriminate]. intro H. inversion H; subst.
      destruct (IH r' eq_refl) as [m [Hm Hin]]. exists m. split; [exact Hm | right; exact Hin].
Qed.

Lemma has_pragma_set_content a : has_pragma (set_content enc a) = has_pragma a.
Proof.
  unfold has_pragma, set_content. induction a as [|[[ns n] v] r IH]; [reflexivity|]. cbn [map existsb].
  rewrite IH. f_equal. cbn [fst snd]. destruct (akey_eqb (ns, n) content_key) eqn:E; [|reflexivity].
  apply akey_eqb_eq in E. inversion E; subst. reflexivity.
Qed.

Lemma rewrite_meta_declares a : snd (rewrite_meta enc a) = true -> declares (fst (rewrite_meta enc a)).
Proof.
  unfold rewrite_meta. destruct (rewrite_charset enc a) as [a'|] eqn:E; cbn [fst snd].
  - intros _. left. apply rewrite_charset_declares with (a := a). exact E.
  - destruct (has_pragma a && has_content a) eqn:H; cbn [fst snd]; [|discriminate]. intros _. right.
    apply andb_true_iff in H as [H1 H2]. split; [rewrite has_pragma_set_content; exact H1|].
    unfold has_content in H2. apply existsb_exists in H2 as [kv [Hin Hk]]. unfold set_content.
    apply in_map_iff. exists kv. split; [|exact Hin]. destruct kv as [k v]. cbn [fst] in *. rewrite Hk.
    apply akey_eqb_eq in Hk. subst k. reflexivity.
Qed.

Lemma injected_declares : match injected enc with TEmpty _ n a => is_name s_meta n = true /\ declares a | _ => False end.
Proof. cbn. split; [reflexivity|]. left. exists s_charset. split; [reflexivity | left; reflexivity]. Qed.

(* ---------- the stream ---------- *)
Definition P (s : st) : list token := map fst (pending s).
Definition noninj (o : list (token * bool)) : list token := map fst (filter (fun x => negb (snd x)) o).
Definition inv (s : st) : Prop :=
  Forall (fun x => snd x = false) (pending s) /\ (in_head s = false -> pending s = []).
Definition not_empty_head (t : token) : bool :=
  match t with TEmpty _ n _ => negb (is_name s_head n) | _ => true end.

Lemma noninj_pending s : inv s -> noninj (pending s) = P s.
Proof.
  intros [H _]. unfold noninj, P. induction (pending s) as [|x l IH]; [reflexivity|].
  inversion H; subst. cbn [filter]. rewrite H2. cbn [negb map]. f_equal. apply IH. assumption.
Qed.

Lemma noninj_app a b : noninj (a ++ b) = noninj a ++ noninj b.
Proof. unfold noninj. rewrite filter_app, map_app. reflexivity. Qed.

(* one token: what is emitted (not counting injected tokens) plus what stays queued is what was queued plus the
   token itself, possibly with rewritten meta values *)
Lemma step_rel s t : inv s -> not_empty_head t = true ->
  let '(o, s') := step enc s t in
  inv s' /\ exists t', rel t t' /\ noninj o ++ P s' = P s ++ [t'].
Proof.
  intros [Hp Hh] Hne.
  assert (Q : forall s0 t0, Forall (fun x => snd x = false) (pending s0) -> (in_head s0 = false -> pending s0 = []) ->
              let '(o, s') := (if in_head s0 then ([], {| in_head := true; found := found s0; pending := pending s0 ++ [(t0, false)] |})
                               else ([(t0, false)], s0)) in
              inv s' /\ noninj o ++ P s' = P s0 ++ [t0]).
  { intros s0 t0 H1 H2. destruct (in_head s0) eqn:E.
    - split; [split; [apply Forall_app; split; [exact H1 | constructor; [reflexivity | constructor]] | cbn; discriminate]|].
      unfold P. cbn [pending noninj filter map app]. rewrite map_app. reflexivity.
    - split; [split; [exact H1 | intros _; apply H2; reflexivity]|].
      unfold P. rewrite (H2 eq_refl). reflexivity. }
  destruct t; cbn [step not_empty_head] in *.
  - pose proof (Q s (TDoctype name pub sys) Hp Hh) as R. destruct (in_head s); destruct R as [R1 R2]; (split; [exact R1|]); eexists; (split; [left; reflexivity | exact R2]).
  - pose proof (Q s (TChars s0) Hp Hh) as R. destruct (in_head s); destruct R as [R1 R2]; (split; [exact R1|]); eexists; (split; [left; reflexivity | exact R2]).
  - pose proof (Q s (TSpace s0) Hp Hh) as R. destruct (in_head s); destruct R as [R1 R2]; (split; [exact R1|]); eexists; (split; [left; reflexivity | exact R2]).
  - destruct (is_name s_head name).
    + pose proof (Q {| in_head := true; found := found s; pending := pending s |} (TStart ns name a) Hp (fun H => ltac:(discriminate))) as R.
      cbn [in_head] in R. destruct R as [R1 R2]. split; [exact R1|]. eexists. split; [left; reflexivity | exact R2].
    + pose proof (Q s (TStart ns name a) Hp Hh) as R. destruct (in_head s); destruct R as [R1 R2]; (split; [exact R1|]); eexists; (split; [left; reflexivity | exact R2]).
  - destruct (is_name s_head name) eqn:Eh.
    + destruct (pending s) as [|p0 prest] eqn:Ep.
      * pose proof (Q s (TEnd ns name)) as R. rewrite Ep in R. specialize (R Hp Hh).
        destruct (in_head s); destruct R as [R1 R2]; (split; [exact R1|]); eexists; (split; [left; reflexivity | unfold P in *; rewrite Ep in *; exact R2]).
      * split; [split; [constructor | reflexivity]|]. eexists. split; [left; reflexivity|].
        unfold P. cbn [pending map app]. rewrite app_nil_r.
        inversion Hp as [|? ? H0 Hrest]; subst.
        change (p0 :: (if found s then [] else [(injected enc, true)]) ++ prest ++ [(TEnd ns name, false)])
          with ([p0] ++ (if found s then [] else [(injected enc, true)]) ++ prest ++ [(TEnd ns name, false)]).
        rewrite !noninj_app.
        assert (N0 : noninj [p0] = [fst p0]) by (unfold noninj; cbn [filter]; rewrite H0; reflexivity).
        assert (N1 : noninj (if found s then [] else [(injected enc, true)]) = []) by (destruct (found s); reflexivity).
        assert (N2 : noninj prest = map fst prest).
        { unfold noninj. clear -Hrest. induction prest as [|x l IH]; [reflexivity|]. inversion Hrest; subst.
          cbn [filter]. rewrite H1. cbn [negb map]. f_equal. apply IH. assumption. }
        rewrite N0, N1, N2. rewrite Ep. cbn [app map]. reflexivity.
    + pose proof (Q s (TEnd ns name) Hp Hh) as R. destruct (in_head s); destruct R as [R1 R2]; (split; [exact R1|]); eexists; (split; [left; reflexivity | exact R2]).
  - destruct (is_name s_meta name) eqn:Em.
    + pose proof (rewrite_meta_keys a) as K. destruct (rewrite_meta enc a) as [a' f]. cbn [fst] in K.
      pose proof (Q {| in_head := in_head s; found := found s || f; pending := pending s |} (TEmpty ns name a') Hp Hh) as R.
      cbn [in_head] in R. destruct (in_head s); destruct R as [R1 R2]; (split; [exact R1|]); exists (TEmpty ns name a');
        (split; [right; exists ns, name, a, a'; repeat split; auto | exact R2]).
    + apply negb_true_iff in Hne. rewrite Hne. cbn [andb].
      pose proof (Q s (TEmpty ns name a) Hp Hh) as R. destruct (in_head s); destruct R as [R1 R2]; (split; [exact R1|]); eexists; (split; [left; reflexivity | exact R2]).
  - pose proof (Q s (TComment s0) Hp Hh) as R. destruct (in_head s); destruct R as [R1 R2]; (split; [exact R1|]); eexists; (split; [left; reflexivity | exact R2]).
  - pose proof (Q s (TEntity s0) Hp Hh) as R. destruct (in_head s); destruct R as [R1 R2]; (split; [exact R1|]); eexists; (split; [left; reflexivity | exact R2]).
  - pose proof (Q s (TSerErr s0) Hp Hh) as R. destruct (in_head s); destruct R as [R1 R2]; (split; [exact R1|]); eexists; (split; [left; reflexivity | exact R2]).
  - pose proof (Q s (TOther ty) Hp Hh) as R. destruct (in_head s); destruct R as [R1 R2]; (split; [exact R1|]); eexists; (split; [left; reflexivity | exact R2]).
Qed.

Lemma run_rel ts : forall s, inv s -> forallb not_empty_head ts = true ->
  let '(o, s') := run_steps enc s ts in
  inv s' /\ exists ts', Forall2 rel ts ts' /\ noninj o ++ P s' = P s ++ ts'.
Proof.
  induction ts as [|t r IH]; intros s Hi Hne; cbn [run_steps].
  - split; [exact Hi|]. exists []. split; [constructor | cbn; rewrite app_nil_r; reflexivity].
  - cbn [forallb] in Hne. apply andb_true_iff in Hne as [H1 H2].
    pose proof (step_rel s t Hi H1) as S. destruct (step enc s t) as [o1 s1]. destruct S as [Hi1 [t' [Ht' E1]]].
    pose proof (IH s1 Hi1 H2) as R. destruct (run_steps enc s1 r) as [o2 s2]. destruct R as [Hi2 [ts' [Hts' E2]]].
    split; [exact Hi2|]. exists (t' :: ts'). split; [constructor; assumption|].
    rewrite noninj_app, <- app_assoc, E2, app_assoc, E1, <- app_assoc. reflexivity.
Qed.

(* THE structure theorem: on a stream without an EmptyTag named head in which every head is closed, the output
   minus the injected token is the input, token for token and in order, with only meta attribute values changed *)
Theorem imc_only_meta_values_change ts :
  forallb not_empty_head ts = true -> pending (snd (run_steps enc init ts)) = [] ->
  Forall2 rel ts (noninj (fst (run_steps enc init ts))).
Proof.
  intros Hne Hp. assert (Hi : inv init) by (split; [constructor | reflexivity]).
  pose proof (run_rel ts init Hi Hne) as R. destruct (run_steps enc init ts) as [o s']. destruct R as [_ [ts' [H E]]].
  cbn [fst snd] in *. unfold P in E. rewrite Hp in E. cbn in E. rewrite app_nil_r in E. rewrite E. exact H.
Qed.

End P.
