(* C01 -- the tables the tree-construction model relies on are the ones the source has now. *)
From Coq Require Import NArith List Bool.
From Verif Require Import Sx Str Tok.
From Verif.Gen Require Phases TreeTables.
From Verif.Spec Require TreeTables Dispatch.
Import ListNotations.

Lemma table_quirks_prefixes : Gen.TreeTables.quirks_prefixes = Spec.TreeTables.quirks_prefixes.
Proof. reflexivity. Qed.
Lemma table_quirks_exact : Gen.TreeTables.quirks_exact = Spec.TreeTables.quirks_exact.
Proof. reflexivity. Qed.
Lemma table_quirks_prefixes_no_sysid : Gen.TreeTables.quirks_prefixes_no_sysid = Spec.TreeTables.quirks_prefixes_no_sysid.
Proof. reflexivity. Qed.
Lemma table_limited_prefixes : Gen.TreeTables.limited_prefixes = Spec.TreeTables.limited_prefixes.
Proof. reflexivity. Qed.
Lemma table_limited_prefixes_sysid : Gen.TreeTables.limited_prefixes_sysid = Spec.TreeTables.limited_prefixes_sysid.
Proof. reflexivity. Qed.
Lemma table_adjust_mathml : Gen.TreeTables.adjust_mathml = Spec.TreeTables.adjust_mathml.
Proof. reflexivity. Qed.
Lemma table_adjust_svg : Gen.TreeTables.adjust_svg = Spec.TreeTables.adjust_svg.
Proof. reflexivity. Qed.
Lemma table_adjust_foreign : Gen.TreeTables.adjust_foreign = Spec.TreeTables.adjust_foreign.
Proof. reflexivity. Qed.
Lemma table_svg_tag_names : Gen.TreeTables.svg_tag_names = Spec.TreeTables.svg_tag_names.
Proof. reflexivity. Qed.
Lemma table_breakout_elements : Gen.TreeTables.breakout_elements = Spec.TreeTables.breakout_elements.
Proof. reflexivity. Qed.
Lemma table_new_modes : Gen.TreeTables.new_modes = Spec.TreeTables.new_modes.
Proof. reflexivity. Qed.
Lemma table_scope_default : Gen.TreeTables.scope_default = Spec.TreeTables.scope_default.
Proof. reflexivity. Qed.
Lemma table_scope_button : Gen.TreeTables.scope_button = Spec.TreeTables.scope_button.
Proof. reflexivity. Qed.
Lemma table_scope_list : Gen.TreeTables.scope_list = Spec.TreeTables.scope_list.
Proof. reflexivity. Qed.
Lemma table_scope_table : Gen.TreeTables.scope_table = Spec.TreeTables.scope_table.
Proof. reflexivity. Qed.
Lemma table_scope_select : Gen.TreeTables.scope_select = Spec.TreeTables.scope_select.
Proof. reflexivity. Qed.
Lemma table_special_elements : Gen.TreeTables.special_elements = Spec.TreeTables.special_elements.
Proof. reflexivity. Qed.
Lemma table_table_insert_mode_elements : Gen.TreeTables.table_insert_mode_elements = Spec.TreeTables.table_insert_mode_elements.
Proof. reflexivity. Qed.
Lemma table_heading_elements : Gen.TreeTables.heading_elements = Spec.TreeTables.heading_elements.
Proof. reflexivity. Qed.
Lemma table_cdata_elements : Gen.TreeTables.cdata_elements = Spec.TreeTables.cdata_elements.
Proof. reflexivity. Qed.
Lemma table_rcdata_elements : Gen.TreeTables.rcdata_elements = Spec.TreeTables.rcdata_elements.
Proof. reflexivity. Qed.
Lemma table_html_integration_points : Gen.TreeTables.html_integration_points = Spec.TreeTables.html_integration_points.
Proof. reflexivity. Qed.
Lemma table_mathml_text_integration_points : Gen.TreeTables.mathml_text_integration_points = Spec.TreeTables.mathml_text_integration_points.
Proof. reflexivity. Qed.
Lemma table_namespaces_tbl : Gen.TreeTables.namespaces_tbl = Spec.TreeTables.namespaces_tbl.
Proof. reflexivity. Qed.
Lemma dispatch_tables_equal : Gen.Phases.dispatch = Spec.Dispatch.dispatch_spec.
Proof. reflexivity. Qed.
Lemma all_tables_equal :
  Gen.TreeTables.quirks_prefixes = Spec.TreeTables.quirks_prefixes /\
  Gen.TreeTables.quirks_exact = Spec.TreeTables.quirks_exact /\
  Gen.TreeTables.quirks_prefixes_no_sysid = Spec.TreeTables.quirks_prefixes_no_sysid /\
  Gen.TreeTables.limited_prefixes = Spec.TreeTables.limited_prefixes /\
  Gen.TreeTables.limited_prefixes_sysid = Spec.TreeTables.limited_prefixes_sysid /\
  Gen.TreeTables.adjust_mathml = Spec.TreeTables.adjust_mathml /\
  Gen.TreeTables.adjust_svg = Spec.TreeTables.adjust_svg /\
  Gen.TreeTables.adjust_foreign = Spec.TreeTables.adjust_foreign /\
  Gen.TreeTables.svg_tag_names = Spec.TreeTables.svg_tag_names /\
  Gen.TreeTables.breakout_elements = Spec.TreeTables.breakout_elements /\
  Gen.TreeTables.new_modes = Spec.TreeTables.new_modes /\
  Gen.TreeTables.scope_default = Spec.TreeTables.scope_default /\
  Gen.TreeTables.scope_button = Spec.TreeTables.scope_button /\
  Gen.TreeTables.scope_list = Spec.TreeTables.scope_list /\
  Gen.TreeTables.scope_table = Spec.TreeTables.scope_table /\
  Gen.TreeTables.scope_select = Spec.TreeTables.scope_select /\
  Gen.TreeTables.special_elements = Spec.TreeTables.special_elements /\
  Gen.TreeTables.table_insert_mode_elements = Spec.TreeTables.table_insert_mode_elements /\
  Gen.TreeTables.heading_elements = Spec.TreeTables.heading_elements /\
  Gen.TreeTables.cdata_elements = Spec.TreeTables.cdata_elements /\
  Gen.TreeTables.rcdata_elements = Spec.TreeTables.rcdata_elements /\
  Gen.TreeTables.html_integration_points = Spec.TreeTables.html_integration_points /\
  Gen.TreeTables.mathml_text_integration_points = Spec.TreeTables.mathml_text_integration_points /\
  Gen.TreeTables.namespaces_tbl = Spec.TreeTables.namespaces_tbl.
Proof. repeat split; reflexivity. Qed.

(* ---- elementInScope never reaches its `assert False` while the root html element is on the stack ---- *)
From Verif.Model Require Import TCdom TC.
Local Open Scope N_scope.

Definition html_tuple : str * str := (html_ns, [104;116;109;108]).

Lemma stops_at_html : forall v,
  let '(lst, inv) := scope_set v in xorb inv (mem_pair html_tuple lst) = true.
Proof. destruct v; vm_compute; reflexivity. Qed.

Lemma in_scope_go_total s hit lst inv rs :
  (exists x, In x rs /\ xorb inv (mem_pair (name_tuple s x) lst) = true) ->
  in_scope_go s hit lst inv rs <> None.
Proof.
  induction rs as [|y r IH]; intros [x [Hin Hx]]; [destruct Hin|].
  cbn [in_scope_go]. destruct (hit y); [discriminate|].
  destruct Hin as [<-|Hin].
  - rewrite Hx. discriminate.
  - destruct (xorb inv (mem_pair (name_tuple s y) lst)); [discriminate|]. apply IH. exists x. split; assumption.
Qed.

Theorem scope_never_asserts_with_root n v s x :
  In x (opn s) -> name_tuple s x = html_tuple -> scope_asserts n v s = false.
Proof.
  intros Hin Ht. unfold scope_asserts. pose proof (stops_at_html v) as Hs.
  destruct (scope_set v) as [lst inv].
  destruct (in_scope_go s _ lst inv (rev (opn s))) eqn:E; [reflexivity|exfalso].
  revert E. apply in_scope_go_total. exists x. split.
  - apply (proj1 (in_rev _ _)). exact Hin.
  - rewrite Ht. exact Hs.
Qed.
