(* C02simtac -- the step-level simulation statement [simok], the generic tactics that discharge it for a
   translated state method, and the batching lemmas for charsUntil sites. *)
From Coq Require Import NArith List Bool Arith Lia ZifyBool ZifyN.
From Verif Require Import Sx Str.
From Verif.Gen Require Import Entities Tokenizer.
From Verif.Model Require Import CharRef TokBase TokHand C02.
From Verif.Spec Require Import CharRef TokSpec.
From Verif.Proofs Require Import C02a C02dict C08 C02sim.
From Verif.Proofs Require Export SpecTac.
Import ListNotations.
Local Open Scope N_scope.

Lemma has_attr_snoc e n a x sc : has_attr (CTag e n (a ++ [x]) sc) = true.
Proof. destruct a; reflexivity. Qed.

(* [covered]: everything except CDATA sections (html5lib scans for "]]>" in one step and replaces NUL there -- a
   recorded finding; the section is only recognised when the tree builder allows it, i.e. in foreign content) *)
Definition covered (m : tk) : bool :=
  match st m with cdataSectionState | cdataSectionBracketState | cdataSectionEndState => false | _ => true end.

(* one step of M_tok from a configuration related to [s]: no model error, the result is well-kinded, the
   CDATA flag is kept and a CDATA section is entered only when it is set, and S_tok follows *)
Definition simok (s : tk) (r : tk * bool) : Prop :=
  bad (fst r) = false /\ wk (fst r) = true /\
  cdata_ok (fst r) = cdata_ok s /\ (covered (fst r) = false -> cdata_ok s = true) /\
  if snd r then exists j s', sp_iter j s = Some s' /\ R (fst r) s'
  else exists s', sp_step s = (s', false) /\ R (fst r) s'.
Local Arguments lower_str : simpl never.
Local Arguments flatr : simpl never.
Local Arguments first_wins : simpl never.
Local Arguments py_attr_dict : simpl never.

Ltac cov_tac := first [ (let H := fresh in intro H; discriminate H) | (intros _; assumption) | (intros _; split_bools; assumption) ].
Ltac side2 := (split; [reflexivity|]); (split; [cbn [cdata_ok]; cov_tac|]).
Ltac head_if_sim := match goal with |- simok _ (if ?b then _ else _) => destruct b eqn:? end.

Lemma flat_tok_chars l : flat_tok (OChars l) = map (fun c => OChars [c]) l.
Proof. reflexivity. Qed.

Ltac m_norm :=
  cbv beta iota zeta delta [set_st set_inp set_cur set_tmp set_out set_bad emit emit_cur advance unget
                            name_app name_set name_lower data_app attr_new attr_name_app attr_val_app
                            set_self_closing set_incorrect pub_set sys_set pub_app sys_app tok_of_cur];
  cbn [st inp cur tmp out cdata_ok bad]; rewrite ?upd_last_snoc; cbn [fst snd].
Hint Rewrite lower_str_app lower_str_idem lower_last_snoc (@upd_last_snoc' (str * str)) : simdb.
Ltac cur_solve :=
  cbn [ncur app]; eval_eqb; autorewrite with simdb; unfold nulfix, lc, lower_str; cbn [map app];
  split_undecided; eval_ground; rewrite <- ?app_assoc; cbn [app map]; rewrite ?map_app; cbn [app map];
  rewrite <- ?app_assoc; cbn [app]; reflexivity.
Ltac r_solve :=
  unfold R; m_norm; eval_eqb; cbn [cur_dead];
  repeat split; try reflexivity;
  try (rewrite ?flatr_cons; rewrite ?flat_tok_chars; cbn [flat_tok rev map app]; rewrite ?py_attr_dict_first_wins; autorewrite with simdb;
       rewrite <- ?app_assoc; cbn [app]; reflexivity);
  try (left; reflexivity);
  try (right; solve [cur_solve]).
Ltac try_j j := exists j; eexists; split; [ s_compute; reflexivity | solve [r_solve] ].
Ltac leaf_sim :=
  unfold simok; cbn [fst snd]; m_norm;
  split; [reflexivity|];
  split; [first [reflexivity | (unfold wk; cbn [st cur tmp]; autorewrite with simdb; first [apply has_attr_snoc | reflexivity])]|];
  side2;
  first [ (eexists; split; [ solve [s_step] | solve [r_solve] ])
        | try_j 1%nat | try_j 2%nat | try_j 0%nat ].


(* [plain]: the configurations the simulation is proved for.  NOT plain: a step that consumes a character
   reference (html5lib's consumeEntity against the standard's algorithm: decided by C05's theorems and the
   correspondence run, not by this refinement) and CDATA sections (html5lib scans for "]]>" in one step and
   replaces NUL there -- a recorded finding). *)
Definition amp_next (m : tk) : bool := match inp m with 38 :: _ => true | _ => false end.
Definition plain (m : tk) : bool :=
  match st m with
  | entityDataState | characterReferenceInRcdata
  | cdataSectionState | cdataSectionBracketState | cdataSectionEndState => false
  | dataState | rcdataState | attributeValueDoubleQuotedState | attributeValueSingleQuotedState
  | attributeValueUnQuotedState | beforeAttributeValueState => negb (amp_next m)
  | _ => true
  end.


Ltac prep_cur :=
  match goal with
  | Hc : if false then _ else (cur_dead _ = true \/ ?sc = _) |- _ =>
      cbn [cur_dead] in Hc; destruct Hc as [Hc|Hc]; [ try discriminate Hc | try subst sc ]
  | _ => idtac
  end.
Ltac prep_wk :=
  match goal with
  | Hwk : wk _ = true |- _ =>
      unfold wk in Hwk; cbn [st cur tmp] in Hwk;
      match type of Hwk with
      | (_ && nil_str ?t) = true =>
          let H2 := fresh "Hnil" in apply andb_true_iff in Hwk; destruct Hwk as [Hwk H2]; destruct t; [|discriminate H2]
      | _ => idtac
      end;
      match type of Hwk with
      | ?f ?c = true => is_var c; destruct c; try discriminate Hwk
      | negb (?f ?c) = true => is_var c; destruct c; try discriminate Hwk
      | _ => idtac
      end
  end.
Ltac prep_attrs :=
  match goal with
  | Hwk : has_attr (CTag _ _ ?a _) = true |- _ =>
      let a0 := fresh "a0" in let an := fresh "an" in let av := fresh "av" in let Ea := fresh "Ea" in
      destruct a as [|p0 a']; [discriminate Hwk|];
      destruct (exists_last_pairs (p0 :: a') ltac:(discriminate)) as (a0 & an & av & Ea); rewrite Ea in *; clear Ea
  | Hwk : has_pub (CDoctype _ ?p _ _) = true |- _ => destruct p; [|discriminate Hwk]
  | Hwk : has_sys (CDoctype _ _ ?p _) = true |- _ => destruct p; [|discriminate Hwk]
  | _ => idtac
  end.
Ltac sim_state name :=
  intros m s HR Hst Hwk Hcov;
  destruct m as [ms mi mc mt mo mcd mb]; destruct s as [ss si sc st' so scd sb];
  unfold R, sst, sinp in HR; cbn [st inp cur tmp out cdata_ok bad] in *;
  destruct HR as (Hs & Hi & Ht & Ho & Hcd & Hb & Hsb & Hc); subst; cbv beta iota;
  eval_eqb; prep_cur; prep_wk; prep_attrs; cbn [ncur] in *; eval_eqb; autorewrite with simdb;
  unfold plain, amp_next in Hcov; cbn [st inp] in Hcov; try discriminate Hcov;
  unfold name;
  destruct mi as [|x r];
  cbv beta iota zeta delta [peek hd_error advance tl chars_until chars_while deq din is_eof dstr appropriate_bad set_bad];
  cbn [inp st cur tmp out cdata_ok bad andb orb negb];
  repeat (head_if_sim; cbn [andb orb negb]);
  split_bools;
  try (vm_compute in Hcov; discriminate Hcov);
  try (m_norm; unfold emit_current_token; cbn [cur set_inp set_st set_cur]; m_norm;
       repeat match goal with
              | |- context [match ?b with true => _ | false => _ end] => is_var b; destruct b
              | |- context [match ?a with [] => _ | _ :: _ => _ end] => is_var a; destruct a
              | |- context [match ?a ++ [?x] with [] => _ | _ :: _ => _ end] => is_var a; destruct a; cbn [app]
              end);
  try leaf_sim.
Ltac hstep_tac :=
  intros; 
  repeat match goal with
         | H : negb _ = true |- _ => apply negb_true_iff in H
         end;
  split_bools; solve [s_step].
Ltac first_in_batch :=
  cbn [forallb]; apply andb_true_iff; split;
  [ cbv beta; first [ reflexivity | (rw_conds; reflexivity)
                    | (unfold is_space, is_alpha, is_upper, is_lower in *; lia) ]
  | apply take_while_all ].
(* the remaining goal of a batching state: M_tok took  x :: take_while f r  in one go *)
Ltac batch_goal lem :=
  unfold simok; cbn [fst snd];
  split; [reflexivity|];
  split; [first [reflexivity | (unfold wk; cbn [st cur tmp]; autorewrite with simdb; first [apply has_attr_snoc | reflexivity])]|];
  side2;
  match goal with
  | |- context [sp_iter _ (mk_tk _ (?x :: ?r) _ _ _ _ _)] =>
      match goal with
      | |- context [take_while ?f r] =>
          exists (length (x :: take_while f r)); eexists; split;
          [ replace (x :: r) with ((x :: take_while f r) ++ drop_while f r)
              by (cbn [app]; rewrite take_drop_while; reflexivity);
            apply (lem _ f); [ hstep_tac | first_in_batch ]
          | solve [r_solve] ]
      end
  end.

Ltac batch_goal_skip :=
  unfold simok; cbn [fst snd];
  split; [reflexivity|];
  split; [first [reflexivity | (unfold wk; cbn [st cur tmp]; autorewrite with simdb; first [apply has_attr_snoc | reflexivity])]|];
  side2;
  match goal with
  | |- context [sp_iter _ (mk_tk _ (?x :: ?r) _ _ _ _ _)] =>
      match goal with
      | |- context [drop_while ?f r] =>
          exists (length (x :: take_while f r)); eexists; split;
          [ replace (x :: r) with ((x :: take_while f r) ++ drop_while f r)
              by (cbn [app]; rewrite take_drop_while; reflexivity);
            apply (batch_skip _ f); [ hstep_tac | first_in_batch ]
          | solve [r_solve] ]
      end
  end.
