(* C02sim_c -- per-state simulation lemmas (M_tok state method vs S_tok), see Proofs/C02sim.v and C02simtac.v.
   Each lemma:  R m s -> st m = X -> wk m = true -> plain m = true -> simok s (step_X m). *)
From Coq Require Import NArith List Bool Arith Lia ZifyBool ZifyN.
From Verif Require Import Sx Str.
From Verif.Gen Require Import Entities Tokenizer.
From Verif.Model Require Import CharRef TokBase TokHand C02.
From Verif.Spec Require Import CharRef TokSpec.
From Verif.Proofs Require Import C02a C02dict C08 C02sim C02simtac.
Import ListNotations.
Local Open Scope N_scope.

Lemma sim_attributeNameState : forall m s, R m s -> st m = attributeNameState -> wk m = true -> plain m = true ->
  simok s (step_attributeNameState m).
Proof.
  intros m s HR Hst Hwk Hcov;
  destruct m as [ms mi mc mt mo mcd mb]; destruct s as [ss si sc st' so scd sb];
  unfold R, sst, sinp in HR; cbn [st inp cur tmp out cdata_ok bad] in *;
  destruct HR as (Hs & Hi & Ht & Ho & Hcd & Hb & Hsb & Hc); subst; cbv beta iota;
  eval_eqb; prep_cur; prep_wk; prep_attrs; cbn [ncur] in *; eval_eqb; autorewrite with simdb.
  unfold step_attributeNameState.
  destruct mi as [|x r];
  cbv beta iota zeta delta [peek hd_error advance tl chars_until chars_while deq din is_eof dstr appropriate_bad set_bad
                            leaving_attribute_name last_name_lower last_is_duplicate is_quote_or_lt];
  cbn [inp st cur tmp out cdata_ok bad andb orb negb].
  all: m_norm.
  all: repeat (head_if_sim; cbn [andb orb negb]).
  all: split_bools.
  all: cbn [st inp cur tmp out cdata_ok bad].
  all: repeat match goal with |- context [if ?b then _ else _] => lazymatch b with true => fail | false => fail | _ => destruct b eqn:? end end.
  all: split_bools.
  all: try (m_norm; unfold emit_current_token; cbn [cur set_inp set_st set_cur]; m_norm;
       repeat match goal with
              | |- context [match ?b with true => _ | false => _ end] => is_var b; destruct b
              | |- context [match ?a with [] => _ | _ :: _ => _ end] => is_var a; destruct a
              | |- context [match ?a ++ [?x] with [] => _ | _ :: _ => _ end] => is_var a; destruct a; cbn [app]
              end).
  all: try leaf_sim.
  all: (batch_goal batch_name).
Qed.

Lemma sim_commentStartState : forall m s, R m s -> st m = commentStartState -> wk m = true -> plain m = true -> simok s (step_commentStartState m).
Proof. sim_state step_commentStartState. Qed.

Lemma sim_commentState : forall m s, R m s -> st m = commentState -> wk m = true -> plain m = true -> simok s (step_commentState m).
Proof. sim_state step_commentState. all: (batch_goal batch_comment). Qed.

Lemma sim_scriptDataEndTagNameState : forall m s, R m s -> st m = scriptDataEndTagNameState -> wk m = true -> plain m = true -> simok s (step_scriptDataEndTagNameState m).
Proof. sim_state step_scriptDataEndTagNameState. Qed.

Lemma sim_scriptDataEscapedDashState : forall m s, R m s -> st m = scriptDataEscapedDashState -> wk m = true -> plain m = true -> simok s (step_scriptDataEscapedDashState m).
Proof. sim_state step_scriptDataEscapedDashState. Qed.

Lemma sim_tagNameState : forall m s, R m s -> st m = tagNameState -> wk m = true -> plain m = true -> simok s (step_tagNameState m).
Proof. sim_state step_tagNameState. Qed.

