From Coq Require Import NArith List Bool Arith.
From Verif Require Import Sx Str Tok.
From Verif.Gen Require Import Encodings.
From Verif.Model Require Import C06.
Import ListNotations.
Local Open Scope N_scope.

(* ---------- the documented precedence, written independently as "first source that yields an encoding" ---------- *)
Definition parent_filtered (a : args) : option str :=
  match lookup_opt (a_parent a) with Some e => if is_utf16 e then None else Some e | None => None end.

Definition chain (bom : option str) (a : args) (meta : option str) : list (option str * bool) :=
  [(bom, true); (lookup_opt (a_override a), true); (lookup_opt (a_transport a), true); (meta, false);
   (parent_filtered a, false); (lookup_opt (a_likely a), false); (lookup_opt (a_default a), false);
   (Some win1252, false)].

Fixpoint first_some (l : list (option str * bool)) : str * bool :=
  match l with
  | [] => (win1252, false)
  | (Some e, c) :: _ => (e, c)
  | (None, _) :: r => first_some r
  end.

Lemma determine_is_first_some bom a meta : determine bom a meta = first_some (chain bom a meta).
Proof.
  unfold determine, chain, parent_filtered. cbn [first_some].
  destruct bom; [reflexivity|]. destruct (lookup_opt (a_override a)); [reflexivity|].
  destruct (lookup_opt (a_transport a)); [reflexivity|]. destruct meta; [reflexivity|].
  destruct (lookup_opt (a_parent a)) as [e|]; [destruct (is_utf16 e)|];
    destruct (lookup_opt (a_likely a)); try reflexivity; destruct (lookup_opt (a_default a)); reflexivity.
Qed.

Definition certain_source (bom : option str) (a : args) : bool :=
  match bom, lookup_opt (a_override a), lookup_opt (a_transport a) with
  | None, None, None => false
  | _, _, _ => true
  end.

Lemma certain_iff bom a meta : snd (determine bom a meta) = certain_source bom a.
Proof.
  unfold determine, certain_source.
  destruct bom; [reflexivity|]. destruct (lookup_opt (a_override a)); [reflexivity|].
  destruct (lookup_opt (a_transport a)); [reflexivity|]. destruct meta; [reflexivity|].
  destruct (lookup_opt (a_parent a)) as [e|]; [destruct (is_utf16 e)|];
    destruct (lookup_opt (a_likely a)); try reflexivity; destruct (lookup_opt (a_default a)); reflexivity.
Qed.

(* a certain encoding does not depend on what the document contains *)
Lemma certain_independent_of_content bom a m1 m2 :
  certain_source bom a = true -> determine bom a m1 = determine bom a m2.
Proof.
  unfold determine, certain_source.
  destruct bom; [reflexivity|]. destruct (lookup_opt (a_override a)); [reflexivity|].
  destruct (lookup_opt (a_transport a)); [reflexivity | discriminate].
Qed.

(* a same-origin parent encoding of the UTF-16 family is never used *)
Lemma parent_never_utf16 a e : parent_filtered a = Some e -> is_utf16 e = false.
Proof.
  unfold parent_filtered. destruct (lookup_opt (a_parent a)) as [x|]; [|discriminate].
  destruct (is_utf16 x) eqn:E; [discriminate|]. intro H. inversion H; subst. exact E.
Qed.

(* the order of the sources in the model is the order of the statements of determineEncoding *)
Lemma source_order_from_ast :
  determine_order = [(0, true); (1, true); (2, true); (3, false); (4, false); (5, false); (6, false)].
Proof. reflexivity. Qed.

(* a declared UTF-16 in <meta> means UTF-8 *)
Lemma lookup_utf8 : lookup utf8 = Some utf8.
Proof. vm_compute. reflexivity. Qed.

Lemma lookup_win1252 : lookup win1252 = Some win1252.
Proof. vm_compute. reflexivity. Qed.

Lemma meta_never_utf16 raw e : detect_meta raw = Some e -> str_eqb e utf16le || str_eqb e utf16be = false.
Proof.
  unfold detect_meta. destruct (prescan (firstn (N.to_nat numBytesMeta) raw)) as [x|]; [|discriminate].
  destruct (str_eqb x utf16le || str_eqb x utf16be) eqn:E.
  - rewrite lookup_utf8. intro H. inversion H; subst. vm_compute. reflexivity.
  - destruct (str_eqb x [120;45;117;115;101;114;45;100;101;102;105;110;101;100]).
    + rewrite lookup_win1252. intro H. inversion H; subst. vm_compute. reflexivity.
    + intro H. inversion H; subst. exact E.
Qed.

(* ... and a declared x-user-defined means windows-1252 *)
Lemma meta_never_x_user_defined raw e : detect_meta raw = Some e ->
  str_eqb e [120;45;117;115;101;114;45;100;101;102;105;110;101;100] = false.
Proof.
  unfold detect_meta. destruct (prescan (firstn (N.to_nat numBytesMeta) raw)) as [x|]; [|discriminate].
  destruct (str_eqb x utf16le || str_eqb x utf16be) eqn:E.
  - rewrite lookup_utf8. intro H. inversion H; subst. vm_compute. reflexivity.
  - destruct (str_eqb x [120;45;117;115;101;114;45;100;101;102;105;110;101;100]) eqn:E2.
    + rewrite lookup_win1252. intro H. inversion H; subst. vm_compute. reflexivity.
    + intro H. inversion H; subst. exact E2.
Qed.

(* only the first 1024 bytes are looked at *)
Lemma prescan_window raw : detect_meta raw = detect_meta (firstn (N.to_nat numBytesMeta) raw).
Proof. unfold detect_meta. rewrite firstn_firstn, Nat.min_id. reflexivity. Qed.
Lemma window_is_1024 : numBytesMeta = 1024.
Proof. reflexivity. Qed.

(* every label of the table resolves to its encoding (the keys are already stripped and lower case) and
   lookup ignores ASCII case and surrounding ASCII whitespace *)
Lemma all_labels_resolve : forallb (fun e => match lookup (fst e) with Some n => str_eqb n (snd e) | None => false end) LABELS = true.
Proof. vm_compute. reflexivity. Qed.

