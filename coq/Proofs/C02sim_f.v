(* C02sim_f -- per-state simulation lemmas (M_tok state method vs S_tok), see Proofs/C02sim.v and C02simtac.v.
   Each lemma:  R m s -> st m = X -> wk m = true -> plain m = true -> simok s (step_X m). *)
From Coq Require Import NArith List Bool Arith Lia ZifyBool ZifyN.
From Verif Require Import Sx Str.
From Verif.Gen Require Import Entities Tokenizer.
From Verif.Model Require Import CharRef TokBase TokHand C02.
From Verif.Spec Require Import CharRef TokSpec.
From Verif.Proofs Require Import C02a C02dict C08 C02sim C02simtac.
Import ListNotations.
Local Open Scope N_scope.

Lemma sim_afterAttributeValueState : forall m s, R m s -> st m = afterAttributeValueState -> wk m = true -> plain m = true -> simok s (step_afterAttributeValueState m).
Proof. sim_state step_afterAttributeValueState. Qed.

Lemma sim_beforeAttributeNameState : forall m s, R m s -> st m = beforeAttributeNameState -> wk m = true -> plain m = true -> simok s (step_beforeAttributeNameState m).
Proof. sim_state step_beforeAttributeNameState. all: batch_goal_skip. Qed.

Lemma sim_commentEndBangState : forall m s, R m s -> st m = commentEndBangState -> wk m = true -> plain m = true -> simok s (step_commentEndBangState m).
Proof. sim_state step_commentEndBangState. Qed.

Lemma sim_doctypeState : forall m s, R m s -> st m = doctypeState -> wk m = true -> plain m = true -> simok s (step_doctypeState m).
Proof. sim_state step_doctypeState. Qed.

Lemma sim_rcdataEndTagNameState : forall m s, R m s -> st m = rcdataEndTagNameState -> wk m = true -> plain m = true -> simok s (step_rcdataEndTagNameState m).
Proof. sim_state step_rcdataEndTagNameState. Qed.

Lemma sim_rcdataEndTagOpenState : forall m s, R m s -> st m = rcdataEndTagOpenState -> wk m = true -> plain m = true -> simok s (step_rcdataEndTagOpenState m).
Proof. sim_state step_rcdataEndTagOpenState. Qed.

Lemma sim_scriptDataState : forall m s, R m s -> st m = scriptDataState -> wk m = true -> plain m = true -> simok s (step_scriptDataState m).
Proof. sim_state step_scriptDataState. all: (batch_goal batch_emit). Qed.

