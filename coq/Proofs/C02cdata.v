(* C02cdata -- CDATA sections: html5lib's one-step scan for "]]>" against S_tok's three states. *)
From Coq Require Import NArith List Bool Arith Lia ZifyBool ZifyN.
From Verif Require Import Sx Str.
From Verif.Gen Require Import Entities Tokenizer.
From Verif.Model Require Import CharRef TokBase TokHand C02.
From Verif.Spec Require Import CharRef TokSpec.
From Verif.Proofs Require Import C02a C02dict C08 C02sim C02simtac.
Import ListNotations.
Local Open Scope N_scope.

(* the text up to the first "]]>" and what follows it; everything when there is none *)
Definition starts3 (i : str) : bool :=
  match i with a :: b :: c :: _ => (a =? 93) && (b =? 93) && (c =? 62) | _ => false end.
Fixpoint csplit (i : str) : str * str :=
  match i with
  | [] => ([], [])
  | c :: r => if starts3 i then ([], skipn 3 i) else let '(d, r') := csplit r in (c :: d, r')
  end.

Lemma csplit_cons c r : starts3 (c :: r) = false -> csplit (c :: r) = (c :: fst (csplit r), snd (csplit r)).
Proof. intro H. cbn [csplit]. rewrite H. destruct (csplit r). reflexivity. Qed.
Lemma csplit_hit r : csplit (93 :: 93 :: 62 :: r) = ([], r).
Proof. reflexivity. Qed.

(* ---- S_tok ---- *)
Lemma s_cdata : forall i cu t o cd,
  (exists j, sp_iter j (mk_tk cdataSectionState i cu t o cd false)
             = Some (mk_tk dataState (snd (csplit i)) cu t (singles_r (fst (csplit i)) ++ o) cd false)) /\
  (exists j, sp_iter j (mk_tk cdataSectionBracketState i cu t o cd false)
             = Some (mk_tk dataState (snd (csplit (93 :: i))) cu t (singles_r (fst (csplit (93 :: i))) ++ o) cd false)) /\
  (exists j, sp_iter j (mk_tk cdataSectionEndState i cu t o cd false)
             = Some (mk_tk dataState (snd (csplit (93 :: 93 :: i))) cu t (singles_r (fst (csplit (93 :: 93 :: i))) ++ o) cd false)).
Proof.
  induction i as [|c r IH]; intros cu t o cd.
  - split; [|split].
    + exists 1%nat. s_compute. reflexivity.
    + exists 2%nat. s_compute. reflexivity.
    + exists 2%nat. s_compute. reflexivity.
  - assert (P0 : forall o, exists j, sp_iter j (mk_tk cdataSectionState (c :: r) cu t o cd false)
             = Some (mk_tk dataState (snd (csplit (c :: r))) cu t (singles_r (fst (csplit (c :: r))) ++ o) cd false)).
    { intro o'. destruct (N.eqb_spec c 93) as [->|Hc].
      - destruct (IH cu t o' cd) as (_ & [j Hj] & _). exists (1 + j)%nat.
        erewrite sp_iter_app; [exact Hj|]. s_compute. reflexivity.
      - apply N.eqb_neq in Hc. destruct (IH cu t (OChars [c] :: o') cd) as ([j Hj] & _ & _). exists (1 + j)%nat.
        erewrite sp_iter_app; [|s_compute; reflexivity].
        rewrite csplit_cons by (cbn [starts3]; destruct r as [|x [|y z]]; rewrite ?Hc; reflexivity).
        cbn [fst snd]. rewrite singles_r_cons. exact Hj. }
    split; [apply P0|]. split.
    + destruct (N.eqb_spec c 93) as [->|Hc].
      * destruct (IH cu t o cd) as (_ & _ & [j Hj]). exists (1 + j)%nat. erewrite sp_iter_app; [exact Hj|]. s_compute. reflexivity.
      * apply N.eqb_neq in Hc. destruct (P0 (OChars [93] :: o)) as [j Hj]. exists (1 + j)%nat.
        erewrite sp_iter_app; [|s_compute; reflexivity].
        rewrite (csplit_cons 93 (c :: r)) by (cbn [starts3]; destruct r; rewrite ?Hc; reflexivity).
        cbn [fst snd]. rewrite singles_r_cons. exact Hj.
    + destruct (N.eqb_spec c 62) as [->|H62].
      * exists 1%nat. s_compute. reflexivity.
      * apply N.eqb_neq in H62. destruct (N.eqb_spec c 93) as [->|Hc].
        -- destruct (IH cu t (OChars [93] :: o) cd) as (_ & _ & [j Hj]). exists (1 + j)%nat.
           erewrite sp_iter_app; [|s_compute; reflexivity].
           rewrite (csplit_cons 93 (93 :: 93 :: r)) by reflexivity. cbn [fst snd]. rewrite singles_r_cons. exact Hj.
        -- apply N.eqb_neq in Hc. destruct (P0 (OChars [93] :: OChars [93] :: o)) as [j Hj]. exists (1 + j)%nat.
           erewrite sp_iter_app; [|s_compute; reflexivity].
           rewrite (csplit_cons 93 (93 :: c :: r)) by (cbn [starts3]; rewrite H62; reflexivity).
           rewrite (csplit_cons 93 (c :: r)) by (cbn [starts3]; destruct r; rewrite ?Hc; reflexivity).
           cbn [fst snd]. rewrite !singles_r_cons. exact Hj.
Qed.

(* ---- html5lib's loop ---- *)
Definition ne (c : N) : N -> bool := fun x => negb (x =? c).

Lemma starts3_false_head c r : (c =? 93) = false -> starts3 (c :: r) = false.
Proof. intro H. cbn [starts3]. destruct r as [|x [|y z]]; rewrite ?H; reflexivity. Qed.

(* a prefix without "]" is data *)
Lemma csplit_no93 a i : forallb (ne 93) a = true -> csplit (a ++ i) = (a ++ fst (csplit i), snd (csplit i)).
Proof.
  induction a as [|c a IH]; intro H; [cbn [app]; destruct (csplit i); reflexivity|].
  cbn [forallb] in H. apply andb_true_iff in H as [Hc Ha]. unfold ne in Hc. apply negb_true_iff in Hc.
  cbn [app]. rewrite csplit_cons by (apply starts3_false_head; exact Hc). rewrite (IH Ha). reflexivity.
Qed.
(* no ">" at all: everything is data *)
Lemma csplit_no62 b : forallb (ne 62) b = true -> csplit b = (b, []).
Proof.
  induction b as [|c b IH]; intro H; [reflexivity|].
  cbn [forallb] in H. apply andb_true_iff in H as [Hc Hb].
  assert (Hs : starts3 (c :: b) = false).
  { cbn [starts3]. destruct b as [|x [|y z]]; try reflexivity. cbn [forallb] in Hb.
    apply andb_true_iff in Hb as [_ Hb]. apply andb_true_iff in Hb as [Hy _]. unfold ne in Hy. apply negb_true_iff in Hy.
    rewrite Hy. rewrite andb_false_r. reflexivity. }
  rewrite csplit_cons by exact Hs. rewrite (IH Hb). reflexivity.
Qed.
(* b without ">" that ends in "]]", then ">": the section ends there *)
Lemma csplit_end b' r : forallb (ne 62) b' = true -> csplit (b' ++ 93 :: 93 :: 62 :: r) = (b', r).
Proof.
  induction b' as [|c b IH]; intro H; [reflexivity|].
  cbn [forallb] in H. apply andb_true_iff in H as [Hc Hb]. cbn [app].
  assert (Hs : starts3 (c :: b ++ 93 :: 93 :: 62 :: r) = false).
  { cbn [starts3]. destruct b as [|x [|y z]]; cbn [app].
    - replace (93 =? 62) with false by reflexivity. rewrite andb_false_r. reflexivity.
    - replace (93 =? 62) with false by reflexivity. rewrite andb_false_r. reflexivity.
    - cbn [forallb] in Hb. apply andb_true_iff in Hb as [_ Hb]. apply andb_true_iff in Hb as [Hy _].
      unfold ne in Hy. apply negb_true_iff in Hy. rewrite Hy. rewrite andb_false_r. reflexivity. }
  rewrite csplit_cons by exact Hs. rewrite (IH Hb). reflexivity.
Qed.

Lemma ends_with_2_spec c s : ends_with_2 c s = true -> exists p, s = p ++ [c; c].
Proof.
  unfold ends_with_2. destruct (rev s) as [|a [|b r]] eqn:E; try discriminate.
  intro H. apply andb_true_iff in H as [Ha Hb]. apply N.eqb_eq in Ha, Hb. subst a b.
  exists (rev r). rewrite <- (rev_involutive s), E. cbn [rev]. rewrite <- app_assoc. reflexivity.
Qed.
Lemma ends_with_2_snoc c p : ends_with_2 c (p ++ [c; c]) = true.
Proof. unfold ends_with_2. rewrite rev_app_distr. cbn [rev app]. rewrite N.eqb_refl. reflexivity. Qed.

(* b without ">" that does NOT end in "]]", then ">": that ">" is data *)
Lemma csplit_gt_data : forall b r, forallb (ne 62) b = true -> ends_with_2 93 b = false ->
  csplit (b ++ 62 :: r) = (b ++ 62 :: fst (csplit r), snd (csplit r)).
Proof.
  induction b as [|c b IH]; intros r Hb He.
  - cbn [app]. rewrite csplit_cons by (apply starts3_false_head; reflexivity). reflexivity.
  - cbn [forallb] in Hb. apply andb_true_iff in Hb as [Hc Hb]. cbn [app].
    assert (Hs : starts3 (c :: b ++ 62 :: r) = false).
    { cbn [starts3]. destruct b as [|x [|y z]]; cbn [app].
      - replace (62 =? 93) with false by reflexivity. rewrite andb_false_r. destruct r; reflexivity.
      - destruct ((c =? 93) && (x =? 93)) eqn:E; [|reflexivity]. exfalso.
        apply andb_true_iff in E as [E1 E2]. apply N.eqb_eq in E1, E2. subst. discriminate He.
      - cbn [forallb] in Hb. apply andb_true_iff in Hb as [_ Hb]. apply andb_true_iff in Hb as [Hy _].
        unfold ne in Hy. apply negb_true_iff in Hy. rewrite Hy. rewrite andb_false_r. reflexivity. }
    rewrite csplit_cons by exact Hs.
    assert (He' : ends_with_2 93 b = false).
    { destruct (ends_with_2 93 b) eqn:E; [|reflexivity]. destruct (ends_with_2_spec _ _ E) as [p ->].
      change (c :: p ++ [93; 93]) with ((c :: p) ++ [93; 93]) in He. rewrite ends_with_2_snoc in He. discriminate He. }
    rewrite (IH r Hb He'). reflexivity.
Qed.

Lemma firstn_snoc2 {A} (p : list A) x y : firstn (length (p ++ [x; y]) - 2) (p ++ [x; y]) = p.
Proof.
  rewrite app_length. cbn [length]. replace (length p + 2 - 2)%nat with (length p) by lia.
  rewrite firstn_app, Nat.sub_diag, firstn_all. cbn [firstn]. apply app_nil_r.
Qed.

Lemma cdata_loop_is_csplit : forall fuel acc i, (length i <= fuel)%nat ->
  cdata_loop fuel acc i = (acc ++ fst (csplit i), snd (csplit i)).
Proof.
  induction fuel as [|f IH]; intros acc i Hl.
  - destruct i; [|cbn in Hl; lia]. reflexivity.
  - unfold cdata_loop; fold cdata_loop.
    set (a := take_while (fun c => negb (c =? 93)) i).
    set (i1 := drop_while (fun c => negb (c =? 93)) i).
    set (b := take_while (fun c => negb (c =? 62)) i1).
    set (i2 := drop_while (fun c => negb (c =? 62)) i1).
    assert (Hi : i = a ++ b ++ i2).
    { unfold a, b, i2, i1. rewrite take_drop_while. rewrite take_drop_while. reflexivity. }
    assert (Ha : forallb (ne 93) a = true) by apply take_while_all.
    assert (Hb : forallb (ne 62) b = true) by apply take_while_all.
    pose proof (drop_while_head (fun c => negb (c =? 62)) i1) as Hh. fold i2 in Hh.
    clearbody a b i2. clear i1.
    destruct i2 as [|gt r].
    + rewrite Hi, app_nil_r. rewrite csplit_no93 by exact Ha. rewrite csplit_no62 by exact Hb. reflexivity.
    + apply negb_false_iff in Hh. apply N.eqb_eq in Hh. subst gt.
      destruct (ends_with_2 93 b) eqn:Ee.
      * destruct (ends_with_2_spec _ _ Ee) as [p Hp]. subst b. rewrite Hi. rewrite firstn_snoc2.
        rewrite csplit_no93 by exact Ha. rewrite <- app_assoc. cbn [app].
        assert (Hpb : forallb (ne 62) p = true).
        { rewrite forallb_app in Hb. apply andb_true_iff in Hb as [Hb _]. exact Hb. }
        rewrite (csplit_end p r Hpb). reflexivity.
      * assert (Hr : (length r <= f)%nat).
        { rewrite Hi in Hl. rewrite !app_length in Hl. cbn [length] in Hl. lia. }
        rewrite (IH _ r Hr). rewrite Hi. rewrite csplit_no93 by exact Ha. rewrite (csplit_gt_data b r Hb Ee).
        cbn [fst snd]. rewrite <- !app_assoc. reflexivity.
Qed.

Definition has_nul (s : str) : bool := existsb (fun c => c =? 0) s.
Lemma no_nul_count s : has_nul s = false -> count_nul s = 0%nat.
Proof.
  unfold has_nul, count_nul. induction s as [|c s IH]; [reflexivity|]. cbn [existsb filter]. intro H.
  apply orb_false_elim in H as [Hc Hs]. rewrite Hc. exact (IH Hs).
Qed.
Lemma no_nul_fffd s : has_nul s = false -> nul_to_fffd s = s.
Proof.
  unfold has_nul, nul_to_fffd. induction s as [|c s IH]; [reflexivity|]. cbn [existsb map]. intro H.
  apply orb_false_elim in H as [Hc Hs]. rewrite Hc, (IH Hs). reflexivity.
Qed.

(* the CDATA section step, for sections without U+0000 (with one, html5lib emits U+FFFD and an error where the
   standard's tokenizer emits U+0000: the recorded finding) *)
Lemma sim_cdataSectionState : forall m s, R m s -> st m = cdataSectionState ->
  has_nul (fst (csplit (inp m))) = false -> simok s (step_cdataSectionState m).
Proof.
  intros m s HR Hst Hnul.
  destruct m as [ms mi mc mt mo mcd mb]; destruct s as [ss si sc st' so scd sb].
  unfold R, sst, sinp in HR; cbn [st inp cur tmp out cdata_ok bad] in *.
  destruct HR as (Hs & Hi & Ht & Ho & Hcd & Hb & Hsb & Hc); subst; cbv beta iota. clear Hc.
  unfold step_cdataSectionState. cbn [inp]. rewrite (cdata_loop_is_csplit (length mi) [] mi (le_n _)). cbn [app].
  destruct (csplit mi) as [data rest] eqn:Ecs. cbn [fst snd] in *.
  rewrite (no_nul_count data Hnul). cbn [Nat.iter]. rewrite (no_nul_fffd data Hnul).
  destruct (s_cdata mi sc mt (flatr mo) mcd) as ([j Hj] & _ & _). rewrite Ecs in Hj. cbn [fst snd] in Hj.
  unfold simok. cbn [fst snd].
  destruct data as [|c d]; m_norm.
  - split; [reflexivity|]. split; [reflexivity|]. side2.
    exists j. eexists. split; [exact Hj|]. r_solve.
  - split; [reflexivity|]. split; [reflexivity|]. side2.
    exists j. eexists. split; [exact Hj|]. unfold R, sst, sinp. cbn [st inp cur tmp out cdata_ok bad]. eval_eqb. cbn [cur_dead].
    repeat split; try reflexivity. left; reflexivity.
Qed.
