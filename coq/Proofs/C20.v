From Coq Require Import NArith List Bool Lia Arith.
From Verif Require Import Sx Str Tok Sweep.
From Verif.Gen Require Import IHateXml.
From Verif.Model Require Import C20.
Import ListNotations.
Local Open Scope N_scope.

Definition name_ok (c : N) : bool := in_ranges xmlNameChars c.       (* XML 1.0 (4th ed.) NameChar minus ':' *)
Definition first_ok (c : N) : bool := in_ranges xmlNameFirstChars c. (* Letter | '_' *)
Definition bmp (s : str) : Prop := Forall (fun c => c < 65536) s.

(* ---------- complement of a sorted range list within [lo, max] ---------- *)
Fixpoint compl_from (lo : N) (rs : list (N * N)) (max : N) : list (N * N) :=
  match rs with
  | [] => if lo <=? max then [(lo, max)] else []
  | (a, b) :: r => (if lo <? a then [(lo, a - 1)] else []) ++ compl_from (b + 1) r max
  end.
Fixpoint sorted_from (lo : N) (rs : list (N * N)) : bool :=
  match rs with
  | [] => true
  | (a, b) :: r => (lo <=? a) && (a <=? b) && sorted_from (b + 1) r
  end.

Lemma in_ranges_below lo rs c : sorted_from lo rs = true -> c < lo -> in_ranges rs c = false.
Proof.
  revert lo; induction rs as [|[a b] r IH]; intros lo Hs Hc; [reflexivity|].
  cbn [sorted_from] in Hs. apply andb_true_iff in Hs as [Hs Hr]. apply andb_true_iff in Hs as [H1 H2].
  unfold in_ranges in *. cbn [existsb fst snd]. rewrite (IH (b + 1)); [|exact Hr|lia].
  rewrite orb_false_r. apply andb_false_iff. left. lia.
Qed.

Lemma compl_above rs : forall lo max c, sorted_from lo rs = true -> c < lo ->
  in_ranges (compl_from lo rs max) c = false.
Proof.
  induction rs as [|[a b] r IH]; intros lo max c Hs Hc.
  - cbn [compl_from]. destruct (lo <=? max); [|reflexivity]. unfold in_ranges. cbn.
    rewrite orb_false_r. apply andb_false_iff. left. lia.
  - cbn [sorted_from] in Hs. apply andb_true_iff in Hs as [Hs Hr]. apply andb_true_iff in Hs as [H1 H2].
    cbn [compl_from]. unfold in_ranges in *. rewrite existsb_app.
    rewrite (IH (b + 1) max c Hr) by lia. rewrite orb_false_r.
    destruct (lo <? a); [|reflexivity]. cbn. rewrite orb_false_r. apply andb_false_iff. left. lia.
Qed.

Lemma compl_spec rs : forall lo max c, sorted_from lo rs = true -> lo <= c -> c <= max ->
  in_ranges (compl_from lo rs max) c = negb (in_ranges rs c).
Proof.
  induction rs as [|[a b] r IH]; intros lo max c Hs Hlo Hmax.
  - cbn [compl_from]. assert (E : (lo <=? max) = true) by lia. rewrite E. unfold in_ranges. cbn.
    rewrite orb_false_r. apply andb_true_iff. split; lia.
  - cbn [sorted_from] in Hs. apply andb_true_iff in Hs as [Hs Hr]. apply andb_true_iff in Hs as [H1 H2].
    cbn [compl_from]. unfold in_ranges in *. rewrite existsb_app. cbn [existsb fst snd].
    destruct (N.lt_ge_cases c a) as [Hca|Hca].
    + (* below the range: covered by the gap *)
      assert (E : (lo <? a) = true) by lia. rewrite E. cbn [existsb fst snd].
      assert (E1 : (lo <=? c) && (c <=? a - 1) = true) by (apply andb_true_iff; split; lia).
      rewrite E1. cbn [orb].
      assert (E2 : (a <=? c) && (c <=? b) = false) by (apply andb_false_iff; left; lia).
      rewrite E2. cbn [orb].
      pose proof (in_ranges_below (b + 1) r c Hr) as B. unfold in_ranges in B. rewrite B by lia. reflexivity.
    + destruct (N.le_gt_cases c b) as [Hcb|Hcb].
      * (* inside the range *)
        assert (E2 : (a <=? c) && (c <=? b) = true) by (apply andb_true_iff; split; lia).
        rewrite E2. cbn [orb negb].
        pose proof (compl_above r (b + 1) max c Hr) as A. unfold in_ranges in A. rewrite A by lia.
        rewrite orb_false_r. destruct (lo <? a) eqn:E; [|reflexivity]. cbn [existsb fst snd].
        rewrite orb_false_r. apply andb_false_iff. right. lia.
      * (* above the range *)
        assert (E2 : (a <=? c) && (c <=? b) = false) by (apply andb_false_iff; right; lia).
        rewrite E2. cbn [orb]. rewrite (IH (b + 1) max c Hr) by lia.
        destruct (lo <? a) eqn:E; [|reflexivity]. cbn [existsb fst snd].
        assert (E1 : (lo <=? c) && (c <=? a - 1) = false) by (apply andb_false_iff; right; lia).
        rewrite E1. reflexivity.
Qed.

Lemma name_table_complement :
  sorted_from 0 xmlNameChars = true /\ nonXmlNameBMPRegexp = compl_from 0 xmlNameChars 65535.
Proof. split; vm_compute; reflexivity. Qed.
Lemma first_table_complement :
  sorted_from 0 xmlNameFirstChars = true /\ nonXmlNameFirstBMPRegexp = compl_from 0 xmlNameFirstChars 65535.
Proof. split; vm_compute; reflexivity. Qed.

Lemma bad_rest_compl c : c < 65536 -> bad_rest c = negb (name_ok c).
Proof.
  intro H. destruct name_table_complement as [S E]. unfold bad_rest, name_ok. rewrite E.
  apply compl_spec; [exact S | lia | lia].
Qed.
Lemma bad_first_compl c : c < 65536 -> bad_first c = negb (first_ok c).
Proof.
  intro H. destruct first_table_complement as [S E]. unfold bad_first, first_ok. rewrite E.
  apply compl_spec; [exact S | lia | lia].
Qed.

(* NameStart characters are Name characters: the first table is included in the second *)
Definition ranges_incl (xs ys : list (N * N)) : bool :=
  forallb (fun x => existsb (fun y => (fst y <=? fst x) && (snd x <=? snd y)) ys) xs.
Lemma first_ok_name_ok c : first_ok c = true -> name_ok c = true.
Proof.
  assert (I : ranges_incl xmlNameFirstChars xmlNameChars = true) by (vm_compute; reflexivity).
  unfold first_ok, name_ok, in_ranges, ranges_incl in *. intro H.
  apply existsb_exists in H as [x [Hx Hc]]. rewrite forallb_forall in I. specialize (I x Hx).
  apply existsb_exists in I as [y [Hy Hxy]]. apply existsb_exists. exists y. split; [exact Hy|].
  apply andb_true_iff in Hc as [? ?]. apply andb_true_iff in Hxy as [? ?]. apply andb_true_iff. split; lia.
Qed.

(* shape of an escape: U + five upper-case hex digits that decode to c (cheap per-character test) *)
Definition is_uhex (c : N) : bool := ((48 <=? c) && (c <=? 57)) || ((65 <=? c) && (c <=? 70)).
Definition esc_ok (c : N) : bool :=
  match esc c with
  | [u; a; b; d; e; f] => (u =? 85) && forallb is_uhex [a; b; d; e; f] && (unesc5 [a; b; d; e; f] =? c)
  | _ => false
  end.

Lemma sweep : all_below 65536 esc_ok = true.
Proof. vm_compute. reflexivity. Qed.

Definition uhex_chars : list N := [48; 49; 50; 51; 52; 53; 54; 55; 56; 57; 65; 66; 67; 68; 69; 70].
Lemma uhex_enum c : is_uhex c = true -> In c uhex_chars.
Proof.
  unfold is_uhex. intro H. assert (R : (48 <= c <= 57) \/ (65 <= c <= 70)) by lia.
  unfold uhex_chars. cbn [In].
  destruct R as [R|R];
    [assert (c = 48 \/ c = 49 \/ c = 50 \/ c = 51 \/ c = 52 \/ c = 53 \/ c = 54 \/ c = 55 \/ c = 56 \/ c = 57) by lia
    |assert (c = 65 \/ c = 66 \/ c = 67 \/ c = 68 \/ c = 69 \/ c = 70) by lia]; intuition.
Qed.
Lemma uhex_facts : forallb (fun c => name_ok c && pathex c) uhex_chars = true.
Proof. vm_compute. reflexivity. Qed.
Lemma uhex_ok c : is_uhex c = true -> name_ok c = true /\ pathex c = true.
Proof.
  intro H. pose proof uhex_facts as F. rewrite forallb_forall in F.
  specialize (F c (uhex_enum c H)). apply andb_true_iff in F. exact F.
Qed.

Lemma sweep_at c : c < 65536 ->
  bad_rest c = negb (name_ok c) /\ bad_first c = negb (first_ok c) /\
  (first_ok c = true -> name_ok c = true) /\ esc_ok c = true.
Proof.
  intro H. repeat split.
  - apply bad_rest_compl; exact H.
  - apply bad_first_compl; exact H.
  - apply first_ok_name_ok.
  - exact (all_below_spec _ _ sweep c H).
Qed.

Lemma U_facts : first_ok 85 = true /\ name_ok 85 = true /\ pathex 85 = false.
Proof. repeat split; vm_compute; reflexivity. Qed.

Lemma forallb5_map (P Q : N -> bool) a b d e f :
  (forall x, P x = true -> Q x = true) -> forallb P [a; b; d; e; f] = true -> forallb Q [a; b; d; e; f] = true.
Proof.
  intros I H. cbn [forallb] in *. repeat (apply andb_true_iff in H as [? H]).
  rewrite !I by assumption. reflexivity.
Qed.

Lemma esc_shape c : c < 65536 ->
  exists a b d e f, esc c = [85; a; b; d; e; f] /\ hexk 5 [a; b; d; e; f] = true /\
                    unesc5 [a; b; d; e; f] = c /\ forallb name_ok [a; b; d; e; f] = true.
Proof.
  intro H. destruct (sweep_at c H) as [_ [_ [_ E]]]. unfold esc_ok in E.
  destruct (esc c) as [|u [|a [|b [|d [|e [|f [|g t]]]]]]]; try discriminate.
  apply andb_true_iff in E as [E E3]. apply andb_true_iff in E as [E1 E2].
  apply N.eqb_eq in E1. subst u. apply N.eqb_eq in E3. exists a, b, d, e, f. repeat split; try assumption.
  - assert (Q : forallb pathex [a; b; d; e; f] = true)
      by (apply (forallb5_map is_uhex); [intros x Hx; apply uhex_ok; exact Hx | exact E2]).
    cbn [forallb] in Q. cbn [hexk]. exact Q.
  - apply (forallb5_map is_uhex); [intros x Hx; apply uhex_ok; exact Hx | exact E2].
Qed.

(* ---------- the regexes are exactly the complements of the XML productions (within the BMP) ---------- *)
Lemma regex_is_complement c : c < 65536 ->
  bad_rest c = negb (name_ok c) /\ bad_first c = negb (first_ok c).
Proof. intro H. split; [apply bad_rest_compl | apply bad_first_compl]; exact H. Qed.

(* ---------- toXmlName yields legal names ---------- *)
Lemma enc_rest_cons x r : enc_rest (x :: r) = (if bad_rest x then esc x else [x]) ++ enc_rest r.
Proof. reflexivity. Qed.
Arguments enc_rest : simpl never.

Lemma enc_rest_legal r : bmp r -> forallb name_ok (enc_rest r) = true.
Proof.
  induction 1 as [|x r Hx Hr IH]; [reflexivity|]. rewrite enc_rest_cons, forallb_app, IH, andb_true_r.
  destruct (sweep_at x Hx) as [A _]. rewrite A. destruct (name_ok x) eqn:E; cbn [negb].
  - cbn [forallb]. rewrite E. reflexivity.
  - destruct (esc_shape x Hx) as [a [b [d [e [f [-> [_ [_ Hn]]]]]]]].
    cbn [forallb] in *. destruct U_facts as [_ [-> _]]. exact Hn.
Qed.

Lemma toxml_legal n : n <> [] -> bmp n ->
  exists c r, toXmlName n = Some (c :: r) /\ first_ok c = true /\ forallb name_ok (c :: r) = true.
Proof.
  intros Hn Hb. destruct n as [|x n]; [contradiction|]. inversion Hb as [|? ? Hx Hr]; subst.
  cbn [toXmlName]. destruct (sweep_at x Hx) as [_ [B [C _]]]. destruct U_facts as [U1 [U2 _]].
  rewrite B. destruct (first_ok x) eqn:E; cbn [negb].
  - exists x, (enc_rest n). split; [reflexivity|].
    split; [exact E|]. cbn [forallb app]. rewrite (C eq_refl), (enc_rest_legal n Hr). reflexivity.
  - destruct (esc_shape x Hx) as [a [b [d [e [f [-> [_ [_ Hl]]]]]]]].
    exists 85, ([a; b; d; e; f] ++ enc_rest n). split; [reflexivity|]. split; [exact U1|].
    cbn [forallb]. rewrite U2. cbn [andb]. change (forallb name_ok ([a; b; d; e; f] ++ enc_rest n) = true).
    rewrite forallb_app, Hl, (enc_rest_legal n Hr). reflexivity.
Qed.

(* ---------- legal, colon-free names are left unchanged ---------- *)
Lemma enc_rest_id r : bmp r -> forallb name_ok r = true -> enc_rest r = r.
Proof.
  induction 1 as [|x r Hx Hr IH]; [reflexivity|]. cbn [forallb]. intro H.
  apply andb_true_iff in H as [H1 H2]. rewrite enc_rest_cons.
  destruct (sweep_at x Hx) as [A _]. rewrite A, H1. cbn [negb app]. rewrite (IH H2). reflexivity.
Qed.

Lemma toxml_identity c r : bmp (c :: r) -> first_ok c = true -> forallb name_ok r = true ->
  toXmlName (c :: r) = Some (c :: r).
Proof.
  intros Hb Hc Hr. inversion Hb as [|? ? Hx Hrb]; subst. cbn [toXmlName].
  destruct (sweep_at c Hx) as [_ [B _]]. rewrite B, Hc. cbn. rewrite (enc_rest_id r Hrb Hr). reflexivity.
Qed.

Lemma colon_is_coerced : bad_first 58 = true /\ bad_rest 58 = true.
Proof. split; vm_compute; reflexivity. Qed.

(* ---------- round trip through the single-pass decoder ---------- *)
Fixpoint nopat (s : str) : bool :=
  match s with [] => true | c :: r => negb ((c =? 85) && hexk 5 r) && nopat r end.

Lemma hexk_app k s t : hexk k s = true -> hexk k (s ++ t) = true.
Proof.
  revert s; induction k as [|k IH]; intros s H; [reflexivity|].
  destruct s as [|c s]; [discriminate|]. cbn in *. apply andb_true_iff in H as [H1 H2].
  rewrite H1, (IH _ H2). reflexivity.
Qed.

Lemma hexk_enc k : forall r, hexk k (enc_rest r) = true -> hexk k r = true.
Proof.
  induction k as [|k IH]; intros r H; [reflexivity|].
  destruct r as [|x r]; [exact H|]. rewrite enc_rest_cons in H.
  destruct (bad_rest x) eqn:E.
  - unfold esc in H. cbn [app hexk] in H. destruct U_facts as [_ [_ U3]]. rewrite U3 in H. discriminate.
  - cbn [app hexk] in H. cbn [hexk]. apply andb_true_iff in H as [H1 H2]. rewrite H1. cbn [andb].
    apply IH. exact H2.
Qed.

Lemma unesc5_app s t : length s = 5%nat -> unesc5 (s ++ t) = unesc5 s.
Proof.
  intro H. destruct s as [|a [|b [|c [|d [|e [|f s]]]]]]; try discriminate. reflexivity.
Qed.

Lemma lr_enc_rest r : bmp r -> nopat r = true ->
  forall fuel, (length (enc_rest r) <= fuel)%nat -> lr_fuel fuel (enc_rest r) = r.
Proof.
  induction 1 as [|x r Hx Hr IH]; intros Hn fuel Hf.
  - destruct fuel; reflexivity.
  - cbn [nopat] in Hn. apply andb_true_iff in Hn as [Hn1 Hn2]. apply negb_true_iff in Hn1.
    rewrite enc_rest_cons in *. destruct (bad_rest x) eqn:E.
    + destruct (esc_shape x Hx) as [a [b [d [e [f [Es [Hh [Hu _]]]]]]]]. rewrite Es in *.
      cbn [app length] in Hf. destruct fuel as [|fuel]; [lia|].
      cbn [app lr_fuel]. rewrite N.eqb_refl.
      change (a :: b :: d :: e :: f :: enc_rest r) with ([a; b; d; e; f] ++ enc_rest r).
      rewrite (hexk_app 5 [a; b; d; e; f] (enc_rest r) Hh). cbn [andb]. rewrite unesc5_app by reflexivity. rewrite Hu.
      f_equal. cbn [skipn app]. apply IH; [exact Hn2 | lia].
    + cbn [app length] in Hf. destruct fuel as [|fuel]; [lia|]. cbn [app lr_fuel].
      assert (C : (x =? 85) && hexk 5 (enc_rest r) = false).
      { destruct (N.eqb_spec x 85) as [->|Hne]; [|reflexivity]. cbn [andb].
        try rewrite N.eqb_refl in Hn1. cbn [andb] in Hn1.
        destruct (hexk 5 (enc_rest r)) eqn:Eh; [|reflexivity].
        apply (hexk_enc 5 r) in Eh. congruence. }
      rewrite C. f_equal. apply IH; [exact Hn2 | lia].
Qed.

Lemma lr_first c n : bmp (c :: n) -> nopat (c :: n) = true ->
  forall fuel, (length ((if bad_first c then esc c else [c]) ++ enc_rest n) <= fuel)%nat ->
  lr_fuel fuel ((if bad_first c then esc c else [c]) ++ enc_rest n) = c :: n.
Proof.
  intros Hb Hn fuel Hf.
  inversion Hb as [|? ? Hc Hr]; subst. cbn [nopat] in Hn. apply andb_true_iff in Hn as [Hn1 Hn2].
  apply negb_true_iff in Hn1.
  destruct (bad_first c) eqn:E.
  - destruct (esc_shape c Hc) as [a [b [d [e [f [Es [Hh [Hu _]]]]]]]]. rewrite Es in *.
    cbn [app length] in Hf. destruct fuel as [|fuel]; [lia|].
    cbn [app lr_fuel]. rewrite N.eqb_refl.
    change (a :: b :: d :: e :: f :: enc_rest n) with ([a; b; d; e; f] ++ enc_rest n).
    rewrite (hexk_app 5 [a; b; d; e; f] (enc_rest n) Hh). cbn [andb]. rewrite unesc5_app by reflexivity.
    rewrite Hu. f_equal. cbn [skipn app]. apply lr_enc_rest; [exact Hr | exact Hn2 | lia].
  - cbn [app length] in Hf. destruct fuel as [|fuel]; [lia|]. cbn [app lr_fuel].
    assert (C : (c =? 85) && hexk 5 (enc_rest n) = false).
    { destruct (N.eqb_spec c 85) as [->|Hne]; [|reflexivity]. cbn [andb].
      try rewrite N.eqb_refl in Hn1. cbn [andb] in Hn1.
      destruct (hexk 5 (enc_rest n)) eqn:Eh; [|reflexivity].
      apply (hexk_enc 5 n) in Eh. congruence. }
    rewrite C. f_equal. apply lr_enc_rest; [exact Hr | exact Hn2 | lia].
Qed.

Lemma roundtrip_lr n r : bmp n -> nopat n = true -> toXmlName n = Some r -> fromXmlName_lr r = n.
Proof.
  intros Hb Hn Ht. destruct n as [|c n]; [discriminate|]. cbn [toXmlName] in Ht. inversion Ht; subst r; clear Ht.
  unfold fromXmlName_lr. apply lr_first; [exact Hb | exact Hn | apply le_n].
Qed.

Lemma toxml_injective n1 n2 r : bmp n1 -> bmp n2 -> nopat n1 = true -> nopat n2 = true ->
  toXmlName n1 = Some r -> toXmlName n2 = Some r -> n1 = n2.
Proof.
  intros B1 B2 N1 N2 T1 T2.
  rewrite <- (roundtrip_lr n1 r B1 N1 T1), <- (roundtrip_lr n2 r B2 N2 T2). reflexivity.
Qed.

(* ---------- comments ---------- *)
Definition isd (c : N) : bool := c =? 45.
Definition h (s : str) : bool := match s with x :: _ => isd x | [] => false end.
Definition h2 (s : str) : bool := match s with x :: y :: _ => isd x && isd y | _ => false end.
Fixpoint D (s : str) : bool :=     (* contains "--" *)
  match s with c :: r => (isd c && h r) || D r | [] => false end.
Fixpoint T (s : str) : bool :=     (* contains "---" *)
  match s with c :: r => (isd c && h2 r) || T r | [] => false end.

Lemma contains_D s : contains dash2 s = D s.
Proof.
  induction s as [|c r IH]; [reflexivity|]. cbn [contains D]. rewrite IH. f_equal.
  unfold dash2, isd, h. cbn [starts_with]. rewrite (N.eqb_sym 45 c). f_equal.
  destruct r as [|c2 r']; [reflexivity|]. cbn [starts_with]. rewrite (N.eqb_sym 45 c2), andb_true_r. reflexivity.
Qed.

Lemma pass_cons2 c c2 r2 :
  dd_pass (c :: c2 :: r2) = if isd c && isd c2 then 45 :: 32 :: 45 :: dd_pass r2 else c :: dd_pass (c2 :: r2).
Proof. reflexivity. Qed.

Lemma pass_h s : h (dd_pass s) = h s.
Proof.
  destruct s as [|c [|c2 r2]]; try reflexivity. rewrite pass_cons2.
  destruct (isd c) eqn:Ec, (isd c2) eqn:E2; cbn [andb h]; try (rewrite Ec; reflexivity).
  all: try reflexivity.
Qed.

Lemma pass_h2 s : h2 (dd_pass s) = false.
Proof.
  destruct s as [|c [|c2 r2]]; try reflexivity. rewrite pass_cons2.
  destruct (isd c) eqn:Ec, (isd c2) eqn:E2; cbn [andb]; try reflexivity.
  - change (h2 (c :: dd_pass (c2 :: r2))) with
      (match dd_pass (c2 :: r2) with y :: _ => isd c && isd y | [] => false end).
    pose proof (pass_h (c2 :: r2)) as P. cbn [h] in P. destruct (dd_pass (c2 :: r2)) as [|y t]; [reflexivity|].
    cbn [h] in P. rewrite P, E2, andb_false_r. reflexivity.
  - change (h2 (c :: dd_pass (c2 :: r2))) with
      (match dd_pass (c2 :: r2) with y :: _ => isd c && isd y | [] => false end).
    destruct (dd_pass (c2 :: r2)); [reflexivity|]. rewrite Ec. reflexivity.
  - change (h2 (c :: dd_pass (c2 :: r2))) with
      (match dd_pass (c2 :: r2) with y :: _ => isd c && isd y | [] => false end).
    destruct (dd_pass (c2 :: r2)); [reflexivity|]. rewrite Ec. reflexivity.
Qed.

Lemma pass_no_triple : forall n s, (length s <= n)%nat -> T (dd_pass s) = false.
Proof.
  induction n as [|n IH]; intros s Hl.
  - destruct s; [reflexivity | cbn in Hl; lia].
  - destruct s as [|c [|c2 r2]]; [reflexivity | cbn; rewrite andb_false_r; reflexivity |].
    rewrite pass_cons2. cbn [length] in Hl.
    destruct (isd c && isd c2) eqn:E.
    + cbn [T h2]. unfold isd at 1 2 3 4. cbn [N.eqb andb orb].
      replace (45 =? 45) with true by reflexivity. replace (32 =? 45) with false by reflexivity.
      cbn [andb orb]. rewrite pass_h2. cbn [orb]. apply IH. lia.
    + cbn [T]. rewrite pass_h2, andb_false_r. cbn [orb]. apply IH. cbn [length]. lia.
Qed.

Lemma pass_no_double : forall n s, (length s <= n)%nat -> T s = false -> D (dd_pass s) = false.
Proof.
  induction n as [|n IH]; intros s Hl Ht.
  - destruct s; [reflexivity | cbn in Hl; lia].
  - destruct s as [|c [|c2 r2]].
    + reflexivity.
    + cbn. rewrite andb_false_r. reflexivity.
    + rewrite pass_cons2. cbn [length] in Hl. cbn [T] in Ht.
      apply orb_false_iff in Ht as [Ht1 Ht2]. apply orb_false_iff in Ht2 as [Ht2 Ht3].
      destruct (isd c && isd c2) eqn:E.
      * apply andb_true_iff in E as [Ec E2]. rewrite Ec in Ht1. cbn [andb h2] in Ht1.
        cbn [D h]. unfold isd at 1 2 3. replace (45 =? 45) with true by reflexivity.
        replace (32 =? 45) with false by reflexivity. cbn [andb orb]. rewrite pass_h.
        assert (Hh : h r2 = false).
        { destruct r2 as [|y t]; [reflexivity|]. cbn [h]. rewrite E2 in Ht1. cbn [andb] in Ht1. exact Ht1. }
        rewrite Hh. cbn [orb]. apply IH; [lia | exact Ht3].
      * cbn [D]. rewrite pass_h. cbn [h]. rewrite E. cbn [orb]. apply IH; [cbn [length]; lia|].
        cbn [T]. rewrite Ht2, Ht3. reflexivity.
Qed.

Lemma D_length s : D s = true -> (2 <= length s)%nat.
Proof.
  destruct s as [|c [|c2 r]]; cbn; try discriminate; try lia.
  all: try (rewrite andb_false_r; discriminate).
Qed.

Lemma dd_loop_sound f : forall s d, dd_loop f s = Some d -> contains dash2 d = false.
Proof.
  induction f as [|f IH]; intros s d; cbn [dd_loop]; destruct (contains dash2 s) eqn:E; intro H;
    try discriminate; try (inversion H; subst; exact E).
  eapply IH. exact H.
Qed.

Lemma dd_loop_total s : exists d, dd_loop (S (length s)) s = Some d.
Proof.
  cbn [dd_loop]. destruct (contains dash2 s) eqn:E; [|eexists; reflexivity].
  rewrite contains_D in E. pose proof (D_length s E) as L.
  destruct (length s) as [|[|k]] eqn:El; try lia.
  cbn [dd_loop]. destruct (contains dash2 (dd_pass s)) eqn:E2; [|eexists; reflexivity].
  assert (E3 : contains dash2 (dd_pass (dd_pass s)) = false).
  { rewrite contains_D. eapply pass_no_double; [apply le_n|]. eapply pass_no_triple. apply le_n. }
  destruct k; cbn [dd_loop]; rewrite E3; eexists; reflexivity.
Qed.

Lemma contains_dash2_space d : contains dash2 d = false -> contains dash2 (d ++ [32]) = false.
Proof.
  rewrite !contains_D. induction d as [|c r IH]; [reflexivity|]. cbn [app D].
  intro H. apply orb_false_iff in H as [H1 H2]. rewrite (IH H2), orb_false_r.
  destruct r as [|y t]; cbn [app h] in *; [rewrite andb_false_r; reflexivity | exact H1].
Qed.

Lemma ends_dash_space d : ends_dash (d ++ [32]) = false.
Proof. unfold ends_dash. rewrite rev_app_distr. reflexivity. Qed.

Lemma comment_coerced_dd e s :
  exists r, coerceComment true e s = Some r /\ contains dash2 r = false /\ ends_dash r = false.
Proof.
  unfold coerceComment. destruct (dd_loop_total s) as [d Hd]. rewrite Hd. cbn [orb andb].
  pose proof (dd_loop_sound _ _ _ Hd) as Hs. eexists. split; [reflexivity|].
  destruct (ends_dash d) eqn:E; split; auto using contains_dash2_space, ends_dash_space.
Qed.

Lemma comment_coerced_end s :
  exists r, coerceComment false true s = Some r /\ ends_dash r = false /\ (r = s \/ r = s ++ [32]).
Proof.
  unfold coerceComment. cbn [orb andb]. eexists. split; [reflexivity|].
  destruct (ends_dash s) eqn:E; split; auto using ends_dash_space.
Qed.

Lemma comment_untouched s : coerceComment false false s = Some s.
Proof. reflexivity. Qed.

(* ---------- public identifiers: for ALL code points ---------- *)
Lemma hex_digit_uhex dgt : dgt < 16 -> is_uhex (hex_digit dgt) = true.
Proof. intro H. unfold is_uhex, hex_digit. destruct (dgt <? 10) eqn:E; lia. Qed.

Lemma hex_fuel_uhex f : forall c acc, forallb is_uhex acc = true -> forallb is_uhex (hex_fuel f c acc) = true.
Proof.
  induction f as [|f IH]; intros c acc Ha; cbn [hex_fuel]; [exact Ha|].
  assert (Hd : is_uhex (hex_digit (c mod 16)) = true) by (apply hex_digit_uhex; apply N.mod_lt; lia).
  destruct (c / 16 =? 0); [cbn [forallb]; rewrite Hd, Ha; reflexivity|].
  apply IH. cbn [forallb]. rewrite Hd, Ha. reflexivity.
Qed.

Lemma esc_uhex c : exists t, esc c = 85 :: t /\ forallb is_uhex t = true.
Proof.
  unfold esc. eexists. split; [reflexivity|]. unfold pad5. rewrite forallb_app. apply andb_true_iff. split.
  - apply forallb_forall. intros x Hx. apply repeat_spec in Hx. subst. reflexivity.
  - apply hex_fuel_uhex. reflexivity.
Qed.

Lemma pubid_uhex_facts : forallb pubid_ok (85 :: uhex_chars) = true /\ pubid_ok 39 = true.
Proof. split; vm_compute; reflexivity. Qed.

Lemma esc_pubid c : forallb (fun x => pubid_ok x && negb (x =? 39)) (esc c) = true.
Proof.
  destruct (esc_uhex c) as [t [-> Ht]]. destruct pubid_uhex_facts as [F _].
  rewrite forallb_forall in F. rewrite forallb_forall in Ht.
  apply forallb_forall. intros x [<-|Hx].
  - rewrite (F 85 (or_introl eq_refl)). reflexivity.
  - specialize (Ht x Hx). rewrite (F x (or_intror (uhex_enum x Ht))). cbn [andb].
    unfold is_uhex in Ht. apply negb_true_iff. lia.
Qed.

Lemma pubid_coerced sq s :
  forallb pubid_ok (coercePubid sq s) = true /\
  (sq = true -> forallb (fun x => negb (x =? 39)) (coercePubid sq s) = true).
Proof.
  unfold coercePubid. induction s as [|c r [IH1 IH2]]; [split; reflexivity|].
  cbn [flat_map]. rewrite !forallb_app. pose proof (esc_pubid c) as Ep.
  assert (Ea : forallb pubid_ok (esc c) = true /\ forallb (fun x => negb (x =? 39)) (esc c) = true).
  { split; apply forallb_forall; intros x Hx; rewrite forallb_forall in Ep; specialize (Ep x Hx);
      apply andb_true_iff in Ep as [? ?]; assumption. }
  destruct Ea as [Ea1 Ea2].
  destruct (pubid_ok c) eqn:Ec; cbn [negb].
  - destruct (sq && (c =? 39)) eqn:Es.
    + rewrite Ea1, IH1. split; [reflexivity|]. intro Hq. rewrite Ea2, (IH2 Hq). reflexivity.
    + cbn [forallb]. rewrite Ec, IH1. split; [reflexivity|]. intro Hq. subst sq. cbn [andb] in Es.
      rewrite Es, (IH2 eq_refl). reflexivity.
  - rewrite Ea1, IH1. split; [reflexivity|]. intro Hq. rewrite Ea2, (IH2 Hq). reflexivity.
Qed.
