(* C03 -- totality facts that are a matter of logic. *)
From Coq Require Import NArith List Bool Arith Lia.
From Verif Require Import Sx Str.
From Verif.Gen Require Import Phases.
From Verif.Model Require Import C03.
Require Verif.Spec.Dispatch.
Import ListNotations.
Local Open Scope N_scope.

(* ---------------- generateImpliedEndTags ---------------- *)
Definition poppable (ex : option str) (n : str) : bool :=
  mem_str n implied_end_tag_names && negb (match ex with Some e => str_eqb n e | None => false end).

Lemma implied_go_spec ex : forall rs s d, implied_go ex rs = (s, d) ->
  exists popped, rs = popped ++ s /\ length popped = d /\ forallb (poppable ex) popped = true /\
                 match s with [] => True | n :: _ => poppable ex n = false end.
Proof.
  induction rs as [|n r IH]; intros s d; cbn [implied_go].
  - intro H. inversion H. exists []. repeat split; reflexivity.
  - fold (poppable ex n). destruct (poppable ex n) eqn:E.
    + destruct (implied_go ex r) as [s' d'] eqn:E2. intro H. inversion H; subst.
      destruct (IH _ _ eq_refl) as [p [H1 [H2 [H3 H4]]]].
      exists (n :: p). repeat split.
      * cbn [app]. rewrite H1. reflexivity.
      * cbn [length]. rewrite H2. reflexivity.
      * cbn [forallb]. rewrite E, H3. reflexivity.
      * exact H4.
    + intro H. inversion H; subst. exists []. repeat split; try reflexivity. exact E.
Qed.

(* the loop pops exactly the maximal run of implied-end-tag elements (other than [exclude]) at the top of the
   stack: the result is a prefix of the stack, everything above it was poppable, its own top is not *)
Theorem implied_end_tags_spec ex stack s d : generate_implied_end_tags ex stack = (s, d) ->
  exists popped, stack = s ++ popped /\ length popped = d /\ forallb (poppable ex) popped = true /\
                 match rev s with [] => True | n :: _ => poppable ex n = false end.
Proof.
  unfold generate_implied_end_tags. destruct (implied_go ex (rev stack)) as [s' d'] eqn:E. intro H. inversion H; subst.
  destruct (implied_go_spec ex _ _ _ E) as [p [H1 [H2 [H3 H4]]]].
  exists (rev p). repeat split.
  - rewrite <- (rev_involutive stack), H1, rev_app_distr. reflexivity.
  - rewrite rev_length. exact H2.
  - rewrite forallb_forall in *. intros x Hx. apply H3. apply in_rev. exact Hx.
  - rewrite rev_involutive. exact H4.
Qed.

(* with the root html element at the bottom (never poppable) the stack is never emptied *)
Lemma html_not_poppable ex : poppable ex [104;116;109;108] = false.
Proof. unfold poppable. replace (mem_str [104;116;109;108] implied_end_tag_names) with false by reflexivity. reflexivity. Qed.

Theorem implied_end_tags_keep_root ex rest :
  exists s', fst (generate_implied_end_tags ex ([104;116;109;108] :: rest)) = [104;116;109;108] :: s'.
Proof.
  destruct (generate_implied_end_tags ex ([104;116;109;108] :: rest)) as [s d] eqn:E.
  destruct (implied_end_tags_spec _ _ _ _ E) as [p [H1 [_ [H3 _]]]]. cbn [fst].
  destruct s as [|x s'].
  - cbn [app] in H1. subst p. cbn [forallb] in H3. rewrite html_not_poppable in H3. discriminate.
  - cbn [app] in H1. inversion H1; subst. exists s'. reflexivity.
Qed.

(* ---------------- the EOF hand-over graph ---------------- *)
Definition succs (n : str) : list str := map snd (filter (fun e => str_eqb (fst e) n) eof_edges).
Fixpoint longest (fuel : nat) (n : str) : option nat :=
  match fuel with
  | O => None
  | S f => fold_left (fun acc m => match acc, longest f m with
                                   | Some a, Some b => Some (Nat.max a (S b))
                                   | _, _ => None end) (succs n) (Some 0%nat)
  end.
Definition rk (n : str) : nat := match longest (S (length phase_names)) n with Some d => d | None => 0%nat end.

Lemma eof_edges_decrease : forallb (fun e => Nat.ltb (rk (snd e)) (rk (fst e))) eof_edges = true.
Proof. vm_compute. reflexivity. Qed.
Lemma eof_ranks_defined :
  forallb (fun n => match longest (S (length phase_names)) n with Some _ => true | None => false end) phase_names = true.
Proof. vm_compute. reflexivity. Qed.

Inductive chain : list str -> Prop :=
| chain_one n : chain [n]
| chain_cons a b l : In (a, b) eof_edges -> chain (b :: l) -> chain (a :: b :: l).

Lemma chain_rk_lt a l : chain (a :: l) -> forall x, In x l -> (rk x < rk a)%nat.
Proof.
  revert a. induction l as [|b l IH]; intros a Hc x Hx; [destruct Hx|].
  inversion Hc as [|? ? ? He Hc']; subst.
  pose proof eof_edges_decrease as D. rewrite forallb_forall in D. specialize (D _ He). cbn [fst snd] in D.
  apply Nat.ltb_lt in D.
  destruct Hx as [<-|Hx]; [exact D|]. specialize (IH b Hc' x Hx). lia.
Qed.

(* the phases the EOF loop goes through are pairwise different: `assert self.phase not in phases` cannot fire *)
Theorem eof_chain_nodup l : chain l -> NoDup l.
Proof.
  induction l as [|a l IH]; intro Hc; [constructor|].
  constructor.
  - intro Hin. pose proof (chain_rk_lt a l Hc a Hin). lia.
  - destruct l as [|b l']; [constructor|]. inversion Hc; subst. apply IH. assumption.
Qed.

Lemma rk_bound n : In n phase_names -> (rk n <= 6)%nat.
Proof.
  intro Hi.
  assert (H : forallb (fun m => Nat.leb (rk m) 6) phase_names = true) by (vm_compute; reflexivity).
  rewrite forallb_forall in H. specialize (H n Hi). apply Nat.leb_le in H. exact H.
Qed.

(* a phase that has no processEOF is never the current phase *)
Lemma no_eof_never_current : forallb (fun n => mem_str n never_current_phases) phases_without_processEOF = true.
Proof. vm_compute. reflexivity. Qed.

(* the start/end tag dispatch tables of all 23 phases, re-read from html5parser.py on every run, are the copy the
   tree-construction model was written against: a handler added, dropped or moved is a broken obligation here *)
Lemma dispatch_is_the_fixed_copy : Verif.Gen.Phases.dispatch = Verif.Spec.Dispatch.dispatch_spec.
Proof. reflexivity. Qed.

