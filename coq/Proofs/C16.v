From Coq Require Import NArith List Bool.
From Verif Require Import Sx Str Tok.
From Verif.Gen Require Import Errors.
From Verif.Model Require Import C16.
Import ListNotations.
Local Open Scope N_scope.

Definition site_err (s : str * str * list (str * bool)) : err := (snd (fst s), snd s).

(* every raise site names a code of E and supplies every variable its template uses *)
Definition find_cex : option (str * str * list (str * bool)) :=
  find (fun s => negb (format_ok (site_err s))) error_sites.
Lemma all_sites_format : find_cex = None.
Proof. vm_compute. reflexivity. Qed.

Lemma site_formats s : In s error_sites -> format_ok (site_err s) = true.
Proof.
  intro H. pose proof all_sites_format as F. unfold find_cex in F.
  destruct (format_ok (site_err s)) eqn:E; [reflexivity | exfalso].
  pose proof (find_none _ _ F s H) as N. cbn beta in N. rewrite E in N. discriminate.
Qed.

Lemma site_count : (200 <=? N.of_nat (length error_sites)) = true /\ (100 <=? N.of_nat (length E_table)) = true.
Proof. split; vm_compute; reflexivity. Qed.

(* `strict` is read in exactly one place: parseError *)
Lemma strict_read_only_in_parseError :
  strict_reads = [[104;116;109;108;53;108;105;98;47;104;116;109;108;53;112;97;114;115;101;114;46;112;121;58;
                   72;84;77;76;80;97;114;115;101;114;46;112;97;114;115;101;69;114;114;111;114]].
Proof. vm_compute. reflexivity. Qed.

(* ---------- the record-then-raise logic ---------- *)
Lemma run_nonstrict calls : forall errs, run_calls false calls errs = (errs ++ calls, None).
Proof.
  induction calls as [|e r IH]; intro errs; cbn [run_calls parse_error].
  - rewrite app_nil_r. reflexivity.
  - rewrite IH, <- app_assoc. reflexivity.
Qed.

Lemma run_strict_nil : run_calls true [] [] = ([], None).
Proof. reflexivity. Qed.

Lemma run_strict_cons e r :
  run_calls true (e :: r) [] = ([e], Some (if format_ok e then ParseErrorExn e else KeyErrorExn e)).
Proof. reflexivity. Qed.

(* strict raises iff the non-strict run of the same calls records at least one error; the error raised is the
   first one recorded; it is a ParseError (not KeyError) whenever that call comes from a site of the source *)
Theorem strict_iff_errors calls :
  match snd (run_calls true calls []) with
  | None => fst (run_calls false calls []) = []
  | Some x => exists e rest, fst (run_calls false calls []) = e :: rest /\
                             fst (run_calls true calls []) = [e] /\
                             x = (if format_ok e then ParseErrorExn e else KeyErrorExn e)
  end.
Proof.
  destruct calls as [|e r].
  - reflexivity.
  - rewrite run_strict_cons, run_nonstrict. cbn [snd fst app]. exists e, r. repeat split.
Qed.

Theorem strict_raises_ParseError e r s :
  In s error_sites -> e = site_err s -> snd (run_calls true (e :: r) []) = Some (ParseErrorExn e).
Proof. intros Hs ->. rewrite run_strict_cons. cbn [snd]. rewrite (site_formats s Hs). reflexivity. Qed.

Theorem nonstrict_all_format calls :
  Forall (fun e => exists s, In s error_sites /\ e = site_err s) calls ->
  forallb format_ok (fst (run_calls false calls [])) = true.
Proof.
  intro H. rewrite run_nonstrict. cbn [fst app]. apply forallb_forall. intros e He.
  rewrite Forall_forall in H. destruct (H e He) as [s [Hs ->]]. apply site_formats. exact Hs.
Qed.
