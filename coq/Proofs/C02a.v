(* C02a -- proofs about the generated tokenizer model (Gen/Tokenizer.v).
   Part 1: termination.  Every step of every state method either makes the remaining input shorter, or leaves
   it as long and moves to a state of strictly smaller rank; so 3*|input|+3 steps always suffice. *)
From Coq Require Import NArith List Bool Arith Lia.
From Verif Require Import Sx Str.
From Verif.Gen Require Import Entities Tokenizer.
From Verif.Model Require Import CharRef TokBase TokHand C02.
From Verif.Proofs Require Import C14.
Import ListNotations.
Local Open Scope N_scope.

Definition rank (s : tstate) : nat :=
  match s with
  | dataState | rcdataState | rawtextState | scriptDataState | plaintextState => 0
  | tagOpenState | closeTagOpenState | markupDeclarationOpenState
  | scriptDataEscapedLessThanSignState | scriptDataEscapedEndTagOpenState | scriptDataEscapedEndTagNameState
  | scriptDataDoubleEscapeStartState | scriptDataDoubleEscapedLessThanSignState | scriptDataDoubleEscapeEndState
  | beforeAttributeValueState | afterAttributeValueState | selfClosingStartTagState
  | doctypeState | afterDoctypePublicKeywordState | afterDoctypeSystemKeywordState | afterDoctypeNameState => 2
  | _ => 1
  end.

Definition dec (k k' : tk) : Prop :=
  (length (inp k') < length (inp k))%nat \/
  (length (inp k') = length (inp k) /\ (rank (st k') < rank (st k))%nat).
Definition ok (k : tk) (r : tk * bool) : Prop := snd r = true -> dec k (fst r).

Lemma drop_while_len f (l : str) : (length (drop_while f l) <= length l)%nat.
Proof. induction l as [|x l IH]; cbn [drop_while]; [lia|]. destruct (f x); cbn [length]; lia. Qed.

(* ---- the helpers that stay folded ---- *)
Lemma inp_emit_current_token k : inp (emit_current_token k) = inp k.
Proof.
  unfold emit_current_token. destruct (cur k) as [|[|] n a sc|d|n p s c]; try reflexivity.
  destruct a; destruct sc; reflexivity.
Qed.

Lemma fold_emit_inp (errs : list str) : forall k, inp (fold_left (fun k e => emit (OErr e) k) errs k) = inp k.
Proof. induction errs as [|e r IH]; intro k; cbn [fold_left]; [reflexivity|]. rewrite IH. reflexivity. Qed.
Lemma fold_emit_st (errs : list str) : forall k, st (fold_left (fun k e => emit (OErr e) k) errs k) = st k.
Proof. induction errs as [|e r IH]; intro k; cbn [fold_left]; [reflexivity|]. rewrite IH. reflexivity. Qed.

Lemma inp_attr_val_app x k : inp (attr_val_app x k) = inp k.
Proof. unfold attr_val_app. destruct (cur k); try reflexivity. destruct (upd_last _ _); reflexivity. Qed.
Lemma st_attr_val_app x k : st (attr_val_app x k) = st k.
Proof. unfold attr_val_app. destruct (cur k); try reflexivity. destruct (upd_last _ _); reflexivity. Qed.

Lemma consume_number_len h i : (length (snd (consume_number h i)) <= length i)%nat.
Proof.
  unfold consume_number.
  set (al := if h then is_hex else is_digit).
  destruct (num_char _) as [ch err].
  pose proof (drop_while_len al i) as H.
  destruct (drop_while al i) as [|c r] eqn:E; cbn [snd]; [lia|].
  cbn [length] in H.
  destruct c as [|p]; cbn [snd length]; try lia.
  repeat (destruct p as [p|p|]; cbn [snd length]; try lia).
Qed.

Lemma consume_named_len f i : (length (snd (consume_named entities f i)) <= length i)%nat.
Proof.
  unfold consume_named. destruct (scan entities [] i) as [pre rest] eqn:E.
  destruct (scan_spec entities i [] pre rest E) as [m [_ [H2 _]]].
  assert (Hl : (length rest <= length i)%nat) by (rewrite H2, app_length; lia).
  destruct (longest_prefix entities pre); [|exact Hl].
  match goal with |- context [if ?b then _ else _] => destruct b end; exact Hl.
Qed.

Lemma consume_entity_len a f i : (length (snd (consume_entity a f i)) <= length i)%nat.
Proof.
  unfold consume_entity. destruct i as [|c0 r0]; [cbn; lia|].
  match goal with |- context [if ?b then _ else _] => destruct b end; [cbn [snd]; lia|].
  destruct (c0 =? 35).
  - set (hex := match r0 with c1 :: _ => (c1 =? 120) || (c1 =? 88) | [] => false end).
    set (after := if hex then tl r0 else r0).
    assert (Ha : (length after <= length r0)%nat) by (subst after; destruct hex; [destruct r0; cbn; lia|lia]).
    match goal with |- context [if ?b then _ else _] => destruct b end.
    + pose proof (consume_number_len hex after) as Hn.
      destruct (consume_number hex after) as [[ch errs] rest]. cbn [snd] in *. cbn [length]. lia.
    + cbn [snd length]. lia.
  - apply consume_named_len.
Qed.

Lemma inp_consume_entity_k a f k : (length (inp (consume_entity_k a f k)) <= length (inp k))%nat.
Proof.
  unfold consume_entity_k. pose proof (consume_entity_len a f (inp k)) as H.
  destruct (consume_entity a f (inp k)) as [[o errs] rest]. cbn [snd] in H.
  destruct f.
  - rewrite inp_attr_val_app, fold_emit_inp. exact H.
  - destruct o as [|c [|c2 o2]]; try (destruct (is_space c)); cbn [emit set_out inp]; rewrite fold_emit_inp; exact H.
Qed.
Lemma st_consume_entity_k a f k : st (consume_entity_k a f k) = st k.
Proof.
  unfold consume_entity_k. destruct (consume_entity a f (inp k)) as [[o errs] rest].
  destruct f.
  - rewrite st_attr_val_app, fold_emit_st. reflexivity.
  - destruct o as [|c [|c2 o2]]; try (destruct (is_space c)); cbn [emit set_out st]; rewrite fold_emit_st; reflexivity.
Qed.

(* ---- projections through the primitives ---- *)
Lemma inp_name_app x k : inp (name_app x k) = inp k.
Proof. unfold name_app. repeat match goal with |- context [match ?c with _ => _ end] => destruct c end; reflexivity. Qed.
Lemma st_name_app x k : st (name_app x k) = st k.
Proof. unfold name_app. repeat match goal with |- context [match ?c with _ => _ end] => destruct c end; reflexivity. Qed.
Lemma inp_name_set x k : inp (name_set x k) = inp k.
Proof. unfold name_set. repeat match goal with |- context [match ?c with _ => _ end] => destruct c end; reflexivity. Qed.
Lemma st_name_set x k : st (name_set x k) = st k.
Proof. unfold name_set. repeat match goal with |- context [match ?c with _ => _ end] => destruct c end; reflexivity. Qed.
Lemma inp_name_lower k : inp (name_lower k) = inp k.
Proof. unfold name_lower. repeat match goal with |- context [match ?c with _ => _ end] => destruct c end; reflexivity. Qed.
Lemma st_name_lower k : st (name_lower k) = st k.
Proof. unfold name_lower. repeat match goal with |- context [match ?c with _ => _ end] => destruct c end; reflexivity. Qed.
Lemma inp_data_app x k : inp (data_app x k) = inp k.
Proof. unfold data_app. repeat match goal with |- context [match ?c with _ => _ end] => destruct c end; reflexivity. Qed.
Lemma st_data_app x k : st (data_app x k) = st k.
Proof. unfold data_app. repeat match goal with |- context [match ?c with _ => _ end] => destruct c end; reflexivity. Qed.
Lemma inp_attr_new x k : inp (attr_new x k) = inp k.
Proof. unfold attr_new. repeat match goal with |- context [match ?c with _ => _ end] => destruct c end; reflexivity. Qed.
Lemma st_attr_new x k : st (attr_new x k) = st k.
Proof. unfold attr_new. repeat match goal with |- context [match ?c with _ => _ end] => destruct c end; reflexivity. Qed.
Lemma inp_attr_name_app x k : inp (attr_name_app x k) = inp k.
Proof. unfold attr_name_app. repeat match goal with |- context [match ?c with _ => _ end] => destruct c end; reflexivity. Qed.
Lemma st_attr_name_app x k : st (attr_name_app x k) = st k.
Proof. unfold attr_name_app. repeat match goal with |- context [match ?c with _ => _ end] => destruct c end; reflexivity. Qed.
Lemma inp_set_self_closing k : inp (set_self_closing k) = inp k.
Proof. unfold set_self_closing. repeat match goal with |- context [match ?c with _ => _ end] => destruct c end; reflexivity. Qed.
Lemma st_set_self_closing k : st (set_self_closing k) = st k.
Proof. unfold set_self_closing. repeat match goal with |- context [match ?c with _ => _ end] => destruct c end; reflexivity. Qed.
Lemma inp_set_incorrect k : inp (set_incorrect k) = inp k.
Proof. unfold set_incorrect. repeat match goal with |- context [match ?c with _ => _ end] => destruct c end; reflexivity. Qed.
Lemma st_set_incorrect k : st (set_incorrect k) = st k.
Proof. unfold set_incorrect. repeat match goal with |- context [match ?c with _ => _ end] => destruct c end; reflexivity. Qed.
Lemma inp_pub_set x k : inp (pub_set x k) = inp k.
Proof. unfold pub_set. repeat match goal with |- context [match ?c with _ => _ end] => destruct c end; reflexivity. Qed.
Lemma st_pub_set x k : st (pub_set x k) = st k.
Proof. unfold pub_set. repeat match goal with |- context [match ?c with _ => _ end] => destruct c end; reflexivity. Qed.
Lemma inp_sys_set x k : inp (sys_set x k) = inp k.
Proof. unfold sys_set. repeat match goal with |- context [match ?c with _ => _ end] => destruct c end; reflexivity. Qed.
Lemma st_sys_set x k : st (sys_set x k) = st k.
Proof. unfold sys_set. repeat match goal with |- context [match ?c with _ => _ end] => destruct c end; reflexivity. Qed.
Lemma inp_pub_app x k : inp (pub_app x k) = inp k.
Proof. unfold pub_app. repeat match goal with |- context [match ?c with _ => _ end] => destruct c end; reflexivity. Qed.
Lemma st_pub_app x k : st (pub_app x k) = st k.
Proof. unfold pub_app. repeat match goal with |- context [match ?c with _ => _ end] => destruct c end; reflexivity. Qed.
Lemma inp_sys_app x k : inp (sys_app x k) = inp k.
Proof. unfold sys_app. repeat match goal with |- context [match ?c with _ => _ end] => destruct c end; reflexivity. Qed.
Lemma st_sys_app x k : st (sys_app x k) = st k.
Proof. unfold sys_app. repeat match goal with |- context [match ?c with _ => _ end] => destruct c end; reflexivity. Qed.
Lemma inp_emit t k : inp (emit t k) = inp k. Proof. reflexivity. Qed.
Lemma st_emit t k : st (emit t k) = st k. Proof. reflexivity. Qed.
Lemma inp_emit_cur k : inp (emit_cur k) = inp k. Proof. reflexivity. Qed.
Lemma st_emit_cur k : st (emit_cur k) = st k. Proof. reflexivity. Qed.
Lemma inp_set_st s k : inp (set_st s k) = inp k. Proof. reflexivity. Qed.
Lemma st_set_st s k : st (set_st s k) = s. Proof. reflexivity. Qed.
Lemma inp_set_inp i k : inp (set_inp i k) = i. Proof. reflexivity. Qed.
Lemma st_set_inp i k : st (set_inp i k) = st k. Proof. reflexivity. Qed.
Lemma inp_set_cur c k : inp (set_cur c k) = inp k. Proof. reflexivity. Qed.
Lemma st_set_cur c k : st (set_cur c k) = st k. Proof. reflexivity. Qed.
Lemma inp_set_tmp c k : inp (set_tmp c k) = inp k. Proof. reflexivity. Qed.
Lemma st_set_tmp c k : st (set_tmp c k) = st k. Proof. reflexivity. Qed.
Lemma inp_set_bad k : inp (set_bad k) = inp k. Proof. reflexivity. Qed.
Lemma st_set_bad k : st (set_bad k) = st k. Proof. reflexivity. Qed.
Lemma inp_unget d k : inp (unget d k) = match d with Some c => c :: inp k | None => inp k end.
Proof. destruct d; reflexivity. Qed.
Lemma st_unget d k : st (unget d k) = st k. Proof. destruct d; reflexivity. Qed.
Create HintDb tkproj.
#[export] Hint Rewrite inp_name_app st_name_app inp_name_set st_name_set inp_name_lower st_name_lower inp_data_app st_data_app inp_attr_new st_attr_new inp_attr_name_app st_attr_name_app inp_set_self_closing st_set_self_closing inp_set_incorrect st_set_incorrect inp_pub_set st_pub_set inp_sys_set st_sys_set inp_pub_app st_pub_app inp_sys_app st_sys_app inp_emit st_emit inp_emit_cur st_emit_cur inp_set_st st_set_st inp_set_inp st_set_inp
  inp_set_cur st_set_cur inp_set_tmp st_set_tmp inp_set_bad st_set_bad inp_unget st_unget
  inp_attr_val_app st_attr_val_app inp_emit_current_token st_consume_entity_k : tkproj.

(* ---- the generic tactic for a translated state method ---- *)
Ltac head_if := match goal with |- ok _ (if ?b then _ else _) => destruct b eqn:? end.
Ltac gen_lens :=
  repeat match goal with
         | |- context [drop_while ?f ?l] =>
             let H := fresh "Hdw" in pose proof (drop_while_len f l) as H; generalize dependent (drop_while f l); intros
         | |- context [inp (consume_entity_k ?a ?f ?k)] =>
             let H := fresh "Hce" in pose proof (inp_consume_entity_k a f k) as H;
             generalize dependent (inp (consume_entity_k a f k)); intros
         end.
Ltac leaf :=
  unfold ok, dec; cbn [fst snd]; intros Hc; try discriminate Hc; clear Hc;
  unfold consume_entity_data, process_entity_in_attribute;
  autorewrite with tkproj; cbn [inp st];
  gen_lens; autorewrite with tkproj in *; cbn [inp st length rank] in *; try lia.

Ltac state_ok name :=
  intros k Hst; destruct k as [s i c t o cd b]; cbn [st] in Hst; subst s;
  unfold name;
  destruct i as [|x r];
  try match goal with |- context [appropriate_bad] => destruct c end;
  cbv beta iota zeta delta [peek hd_error advance tl chars_until chars_while deq din is_eof dstr
                            appropriate_bad set_bad];
  cbn [inp st cur tmp out cdata_ok bad andb orb negb];
  repeat (head_if; cbn [andb orb negb]);
  leaf.

Lemma ok_dataState : forall k, st k = dataState -> ok k (step_dataState k).
Proof. state_ok step_dataState. Qed.
Lemma ok_entityDataState : forall k, st k = entityDataState -> ok k (step_entityDataState k).
Proof. state_ok step_entityDataState. Qed.
Lemma ok_rcdataState : forall k, st k = rcdataState -> ok k (step_rcdataState k).
Proof. state_ok step_rcdataState. Qed.
Lemma ok_characterReferenceInRcdata : forall k, st k = characterReferenceInRcdata -> ok k (step_characterReferenceInRcdata k).
Proof. state_ok step_characterReferenceInRcdata. Qed.
Lemma ok_rawtextState : forall k, st k = rawtextState -> ok k (step_rawtextState k).
Proof. state_ok step_rawtextState. Qed.
Lemma ok_scriptDataState : forall k, st k = scriptDataState -> ok k (step_scriptDataState k).
Proof. state_ok step_scriptDataState. Qed.
Lemma ok_plaintextState : forall k, st k = plaintextState -> ok k (step_plaintextState k).
Proof. state_ok step_plaintextState. Qed.
Lemma ok_tagOpenState : forall k, st k = tagOpenState -> ok k (step_tagOpenState k).
Proof. state_ok step_tagOpenState. Qed.
Lemma ok_closeTagOpenState : forall k, st k = closeTagOpenState -> ok k (step_closeTagOpenState k).
Proof. state_ok step_closeTagOpenState. Qed.
Lemma ok_tagNameState : forall k, st k = tagNameState -> ok k (step_tagNameState k).
Proof. state_ok step_tagNameState. Qed.
Lemma ok_rcdataLessThanSignState : forall k, st k = rcdataLessThanSignState -> ok k (step_rcdataLessThanSignState k).
Proof. state_ok step_rcdataLessThanSignState. Qed.
Lemma ok_rcdataEndTagOpenState : forall k, st k = rcdataEndTagOpenState -> ok k (step_rcdataEndTagOpenState k).
Proof. state_ok step_rcdataEndTagOpenState. Qed.
Lemma ok_rcdataEndTagNameState : forall k, st k = rcdataEndTagNameState -> ok k (step_rcdataEndTagNameState k).
Proof. state_ok step_rcdataEndTagNameState. Qed.
Lemma ok_rawtextLessThanSignState : forall k, st k = rawtextLessThanSignState -> ok k (step_rawtextLessThanSignState k).
Proof. state_ok step_rawtextLessThanSignState. Qed.
Lemma ok_rawtextEndTagOpenState : forall k, st k = rawtextEndTagOpenState -> ok k (step_rawtextEndTagOpenState k).
Proof. state_ok step_rawtextEndTagOpenState. Qed.
Lemma ok_rawtextEndTagNameState : forall k, st k = rawtextEndTagNameState -> ok k (step_rawtextEndTagNameState k).
Proof. state_ok step_rawtextEndTagNameState. Qed.
Lemma ok_scriptDataLessThanSignState : forall k, st k = scriptDataLessThanSignState -> ok k (step_scriptDataLessThanSignState k).
Proof. state_ok step_scriptDataLessThanSignState. Qed.
Lemma ok_scriptDataEndTagOpenState : forall k, st k = scriptDataEndTagOpenState -> ok k (step_scriptDataEndTagOpenState k).
Proof. state_ok step_scriptDataEndTagOpenState. Qed.
Lemma ok_scriptDataEndTagNameState : forall k, st k = scriptDataEndTagNameState -> ok k (step_scriptDataEndTagNameState k).
Proof. state_ok step_scriptDataEndTagNameState. Qed.
Lemma ok_scriptDataEscapeStartState : forall k, st k = scriptDataEscapeStartState -> ok k (step_scriptDataEscapeStartState k).
Proof. state_ok step_scriptDataEscapeStartState. Qed.
Lemma ok_scriptDataEscapeStartDashState : forall k, st k = scriptDataEscapeStartDashState -> ok k (step_scriptDataEscapeStartDashState k).
Proof. state_ok step_scriptDataEscapeStartDashState. Qed.
Lemma ok_scriptDataEscapedState : forall k, st k = scriptDataEscapedState -> ok k (step_scriptDataEscapedState k).
Proof. state_ok step_scriptDataEscapedState. Qed.
Lemma ok_scriptDataEscapedDashState : forall k, st k = scriptDataEscapedDashState -> ok k (step_scriptDataEscapedDashState k).
Proof. state_ok step_scriptDataEscapedDashState. Qed.
Lemma ok_scriptDataEscapedDashDashState : forall k, st k = scriptDataEscapedDashDashState -> ok k (step_scriptDataEscapedDashDashState k).
Proof. state_ok step_scriptDataEscapedDashDashState. Qed.
Lemma ok_scriptDataEscapedLessThanSignState : forall k, st k = scriptDataEscapedLessThanSignState -> ok k (step_scriptDataEscapedLessThanSignState k).
Proof. state_ok step_scriptDataEscapedLessThanSignState. Qed.
Lemma ok_scriptDataEscapedEndTagOpenState : forall k, st k = scriptDataEscapedEndTagOpenState -> ok k (step_scriptDataEscapedEndTagOpenState k).
Proof. state_ok step_scriptDataEscapedEndTagOpenState. Qed.
Lemma ok_scriptDataEscapedEndTagNameState : forall k, st k = scriptDataEscapedEndTagNameState -> ok k (step_scriptDataEscapedEndTagNameState k).
Proof. state_ok step_scriptDataEscapedEndTagNameState. Qed.
Lemma ok_scriptDataDoubleEscapeStartState : forall k, st k = scriptDataDoubleEscapeStartState -> ok k (step_scriptDataDoubleEscapeStartState k).
Proof. state_ok step_scriptDataDoubleEscapeStartState. Qed.
Lemma ok_scriptDataDoubleEscapedState : forall k, st k = scriptDataDoubleEscapedState -> ok k (step_scriptDataDoubleEscapedState k).
Proof. state_ok step_scriptDataDoubleEscapedState. Qed.
Lemma ok_scriptDataDoubleEscapedDashState : forall k, st k = scriptDataDoubleEscapedDashState -> ok k (step_scriptDataDoubleEscapedDashState k).
Proof. state_ok step_scriptDataDoubleEscapedDashState. Qed.
Lemma ok_scriptDataDoubleEscapedDashDashState : forall k, st k = scriptDataDoubleEscapedDashDashState -> ok k (step_scriptDataDoubleEscapedDashDashState k).
Proof. state_ok step_scriptDataDoubleEscapedDashDashState. Qed.
Lemma ok_scriptDataDoubleEscapedLessThanSignState : forall k, st k = scriptDataDoubleEscapedLessThanSignState -> ok k (step_scriptDataDoubleEscapedLessThanSignState k).
Proof. state_ok step_scriptDataDoubleEscapedLessThanSignState. Qed.
Lemma ok_scriptDataDoubleEscapeEndState : forall k, st k = scriptDataDoubleEscapeEndState -> ok k (step_scriptDataDoubleEscapeEndState k).
Proof. state_ok step_scriptDataDoubleEscapeEndState. Qed.
Lemma ok_beforeAttributeNameState : forall k, st k = beforeAttributeNameState -> ok k (step_beforeAttributeNameState k).
Proof. state_ok step_beforeAttributeNameState. Qed.
Lemma ok_afterAttributeNameState : forall k, st k = afterAttributeNameState -> ok k (step_afterAttributeNameState k).
Proof. state_ok step_afterAttributeNameState. Qed.
Lemma ok_beforeAttributeValueState : forall k, st k = beforeAttributeValueState -> ok k (step_beforeAttributeValueState k).
Proof. state_ok step_beforeAttributeValueState. Qed.
Lemma ok_attributeValueDoubleQuotedState : forall k, st k = attributeValueDoubleQuotedState -> ok k (step_attributeValueDoubleQuotedState k).
Proof. state_ok step_attributeValueDoubleQuotedState. Qed.
Lemma ok_attributeValueSingleQuotedState : forall k, st k = attributeValueSingleQuotedState -> ok k (step_attributeValueSingleQuotedState k).
Proof. state_ok step_attributeValueSingleQuotedState. Qed.
Lemma ok_attributeValueUnQuotedState : forall k, st k = attributeValueUnQuotedState -> ok k (step_attributeValueUnQuotedState k).
Proof. state_ok step_attributeValueUnQuotedState. Qed.
Lemma ok_afterAttributeValueState : forall k, st k = afterAttributeValueState -> ok k (step_afterAttributeValueState k).
Proof. state_ok step_afterAttributeValueState. Qed.
Lemma ok_selfClosingStartTagState : forall k, st k = selfClosingStartTagState -> ok k (step_selfClosingStartTagState k).
Proof. state_ok step_selfClosingStartTagState. Qed.
Lemma ok_commentStartState : forall k, st k = commentStartState -> ok k (step_commentStartState k).
Proof. state_ok step_commentStartState. Qed.
Lemma ok_commentStartDashState : forall k, st k = commentStartDashState -> ok k (step_commentStartDashState k).
Proof. state_ok step_commentStartDashState. Qed.
Lemma ok_commentState : forall k, st k = commentState -> ok k (step_commentState k).
Proof. state_ok step_commentState. Qed.
Lemma ok_commentEndDashState : forall k, st k = commentEndDashState -> ok k (step_commentEndDashState k).
Proof. state_ok step_commentEndDashState. Qed.
Lemma ok_commentEndState : forall k, st k = commentEndState -> ok k (step_commentEndState k).
Proof. state_ok step_commentEndState. Qed.
Lemma ok_commentEndBangState : forall k, st k = commentEndBangState -> ok k (step_commentEndBangState k).
Proof. state_ok step_commentEndBangState. Qed.
Lemma ok_doctypeState : forall k, st k = doctypeState -> ok k (step_doctypeState k).
Proof. state_ok step_doctypeState. Qed.
Lemma ok_beforeDoctypeNameState : forall k, st k = beforeDoctypeNameState -> ok k (step_beforeDoctypeNameState k).
Proof. state_ok step_beforeDoctypeNameState. Qed.
Lemma ok_doctypeNameState : forall k, st k = doctypeNameState -> ok k (step_doctypeNameState k).
Proof. state_ok step_doctypeNameState. Qed.
Lemma ok_afterDoctypePublicKeywordState : forall k, st k = afterDoctypePublicKeywordState -> ok k (step_afterDoctypePublicKeywordState k).
Proof. state_ok step_afterDoctypePublicKeywordState. Qed.
Lemma ok_beforeDoctypePublicIdentifierState : forall k, st k = beforeDoctypePublicIdentifierState -> ok k (step_beforeDoctypePublicIdentifierState k).
Proof. state_ok step_beforeDoctypePublicIdentifierState. Qed.
Lemma ok_doctypePublicIdentifierDoubleQuotedState : forall k, st k = doctypePublicIdentifierDoubleQuotedState -> ok k (step_doctypePublicIdentifierDoubleQuotedState k).
Proof. state_ok step_doctypePublicIdentifierDoubleQuotedState. Qed.
Lemma ok_doctypePublicIdentifierSingleQuotedState : forall k, st k = doctypePublicIdentifierSingleQuotedState -> ok k (step_doctypePublicIdentifierSingleQuotedState k).
Proof. state_ok step_doctypePublicIdentifierSingleQuotedState. Qed.
Lemma ok_afterDoctypePublicIdentifierState : forall k, st k = afterDoctypePublicIdentifierState -> ok k (step_afterDoctypePublicIdentifierState k).
Proof. state_ok step_afterDoctypePublicIdentifierState. Qed.
Lemma ok_betweenDoctypePublicAndSystemIdentifiersState : forall k, st k = betweenDoctypePublicAndSystemIdentifiersState -> ok k (step_betweenDoctypePublicAndSystemIdentifiersState k).
Proof. state_ok step_betweenDoctypePublicAndSystemIdentifiersState. Qed.
Lemma ok_afterDoctypeSystemKeywordState : forall k, st k = afterDoctypeSystemKeywordState -> ok k (step_afterDoctypeSystemKeywordState k).
Proof. state_ok step_afterDoctypeSystemKeywordState. Qed.
Lemma ok_beforeDoctypeSystemIdentifierState : forall k, st k = beforeDoctypeSystemIdentifierState -> ok k (step_beforeDoctypeSystemIdentifierState k).
Proof. state_ok step_beforeDoctypeSystemIdentifierState. Qed.
Lemma ok_doctypeSystemIdentifierDoubleQuotedState : forall k, st k = doctypeSystemIdentifierDoubleQuotedState -> ok k (step_doctypeSystemIdentifierDoubleQuotedState k).
Proof. state_ok step_doctypeSystemIdentifierDoubleQuotedState. Qed.
Lemma ok_doctypeSystemIdentifierSingleQuotedState : forall k, st k = doctypeSystemIdentifierSingleQuotedState -> ok k (step_doctypeSystemIdentifierSingleQuotedState k).
Proof. state_ok step_doctypeSystemIdentifierSingleQuotedState. Qed.
Lemma ok_afterDoctypeSystemIdentifierState : forall k, st k = afterDoctypeSystemIdentifierState -> ok k (step_afterDoctypeSystemIdentifierState k).
Proof. state_ok step_afterDoctypeSystemIdentifierState. Qed.
Lemma ok_bogusDoctypeState : forall k, st k = bogusDoctypeState -> ok k (step_bogusDoctypeState k).
Proof. state_ok step_bogusDoctypeState. Qed.


Create HintDb okdb.
#[export] Hint Resolve ok_dataState ok_entityDataState ok_rcdataState ok_characterReferenceInRcdata ok_rawtextState ok_scriptDataState ok_plaintextState ok_tagOpenState ok_closeTagOpenState ok_tagNameState ok_rcdataLessThanSignState ok_rcdataEndTagOpenState ok_rcdataEndTagNameState ok_rawtextLessThanSignState ok_rawtextEndTagOpenState ok_rawtextEndTagNameState ok_scriptDataLessThanSignState ok_scriptDataEndTagOpenState ok_scriptDataEndTagNameState ok_scriptDataEscapeStartState ok_scriptDataEscapeStartDashState ok_scriptDataEscapedState ok_scriptDataEscapedDashState ok_scriptDataEscapedDashDashState ok_scriptDataEscapedLessThanSignState ok_scriptDataEscapedEndTagOpenState ok_scriptDataEscapedEndTagNameState ok_scriptDataDoubleEscapeStartState ok_scriptDataDoubleEscapedState ok_scriptDataDoubleEscapedDashState ok_scriptDataDoubleEscapedDashDashState ok_scriptDataDoubleEscapedLessThanSignState ok_scriptDataDoubleEscapeEndState ok_beforeAttributeNameState ok_afterAttributeNameState ok_beforeAttributeValueState ok_attributeValueDoubleQuotedState ok_attributeValueSingleQuotedState ok_attributeValueUnQuotedState ok_afterAttributeValueState ok_selfClosingStartTagState ok_commentStartState ok_commentStartDashState ok_commentState ok_commentEndDashState ok_commentEndState ok_commentEndBangState ok_doctypeState ok_beforeDoctypeNameState ok_doctypeNameState ok_afterDoctypePublicKeywordState ok_beforeDoctypePublicIdentifierState ok_doctypePublicIdentifierDoubleQuotedState ok_doctypePublicIdentifierSingleQuotedState ok_afterDoctypePublicIdentifierState ok_betweenDoctypePublicAndSystemIdentifiersState ok_afterDoctypeSystemKeywordState ok_beforeDoctypeSystemIdentifierState ok_doctypeSystemIdentifierDoubleQuotedState ok_doctypeSystemIdentifierSingleQuotedState ok_afterDoctypeSystemIdentifierState ok_bogusDoctypeState : okdb.
