(* C08units -- the lift to whole streams WITH raw-text and RCDATA elements.  The tokenizer alone never leaves the data
   state on a start tag: the parser switches it.  [reads] spells that out -- after the start tag of a raw-text
   element the tokenizer continues in the RAWTEXT state, after title/textarea in the RCDATA state -- and the theorem
   says that what Ser writes for any stream of safe tokens and such elements is read back, unit by unit, as exactly
   those tokens. *)
From Coq Require Import NArith List Bool Arith Lia.
From Verif Require Import Sx Str Tok.
From Verif.Gen Require Import Consts Entities Serializer.
From Verif.Model Require Import CharRef TokBase Ser.
From Verif.Spec Require Import CharRef TokSpec.
From Verif.Proofs Require Import C08 SpecTac C08comment C08doctype C08tag C08raw.
Import ListNotations.
Local Open Scope N_scope.

Definition s_style : str := [115;116;121;108;101].
Definition s_xmp : str := [120;109;112].
Definition s_iframe : str := [105;102;114;97;109;101].
Definition s_noembed : str := [110;111;101;109;98;101;100].
Definition s_noframes : str := [110;111;102;114;97;109;101;115].
Definition s_title : str := [116;105;116;108;101].
Definition s_textarea : str := [116;101;120;116;97;114;101;97].
Definition rawtext_switch : list str := [s_style; s_xmp; s_iframe; s_noembed; s_noframes].
Definition rcdata_switch : list str := [s_title; s_textarea].
Definition s_script : str := [115;99;114;105;112;116].

Inductive unit : Type :=
| UTok (t : token)
| URaw (ns : option str) (name : str) (a : attrs) (text : str)      (* <style>text</style> ... *)
| URc (ns : option str) (name : str) (a : attrs) (text : str)       (* <title>text</title>, <textarea> *)
| UScript (ns : option str) (a : attrs) (text : str).              (* <script>text</script> *)

Definition flatten (u : unit) : list token :=
  match u with
  | UTok t => [t]
  | URaw ns n a text | URc ns n a text => [TStart ns n a; TChars text; TEnd ns n]
  | UScript ns a text => [TStart ns s_script a; TChars text; TEnd ns s_script]
  end.
Definition rd_unit (o : sopts) (u : unit) : list otok :=
  match u with
  | UTok t => rd_tok o t
  | URaw _ n a text | URc _ n a text =>
      OStart (lower_str n) (first_wins [] (map (rd_attr o n) a)) false :: map (fun c => OChars [c]) text ++ [OEnd (lower_str n) [] false]
  | UScript _ a text =>
      OStart s_script (first_wins [] (map (rd_attr o s_script) a)) false :: map (fun c => OChars [c]) text ++ [OEnd s_script [] false]
  end.

Definition unit_ok (o : sopts) (u : unit) : Prop :=
  match u with
  | UTok t => safe_tok o t
  | URaw _ n a text =>
      mem_str n rawtext_switch = true /\ escape_rcdata o = false /\
      forallb (fun x : attr => aname_ok (snd (fst x))) a = true /\ raw_ok text = true
  | URc _ n a text =>
      mem_str n rcdata_switch = true /\
      forallb (fun x : attr => aname_ok (snd (fst x))) a = true /\ forallb (fun c => negb (c =? 0)) text = true
  | UScript _ a text =>
      escape_rcdata o = false /\ forallb (fun x : attr => aname_ok (snd (fst x))) a = true /\ script_ok text = true
  end.

(* how a parser drives the tokenizer over the units *)
Fixpoint reads (o : sopts) (us : list unit) (k k' : tk) : Prop :=
  match us with
  | [] => k' = k
  | UTok t :: r =>
      exists j k1, sp_iter j k = Some k1 /\ st k1 = dataState /\ out k1 = rev (rd_tok o t) ++ out k /\ reads o r k1 k'
  | URaw _ n a text :: r =>
      exists j1 k1 j2 k2,
        sp_iter j1 k = Some k1 /\ st k1 = dataState /\
        out k1 = OStart (lower_str n) (first_wins [] (map (rd_attr o n) a)) false :: out k /\
        sp_iter j2 (set_st rawtextState k1) = Some k2 /\ st k2 = dataState /\
        out k2 = OEnd (lower_str n) [] false :: singles_r text ++ out k1 /\ reads o r k2 k'
  | URc _ n a text :: r =>
      exists j1 k1 j2 k2,
        sp_iter j1 k = Some k1 /\ st k1 = dataState /\
        out k1 = OStart (lower_str n) (first_wins [] (map (rd_attr o n) a)) false :: out k /\
        sp_iter j2 (set_st rcdataState k1) = Some k2 /\ st k2 = dataState /\
        out k2 = OEnd (lower_str n) [] false :: singles_r text ++ out k1 /\ reads o r k2 k'
  | UScript _ a text :: r =>
      exists j1 k1 j2 k2,
        sp_iter j1 k = Some k1 /\ st k1 = dataState /\
        out k1 = OStart s_script (first_wins [] (map (rd_attr o s_script) a)) false :: out k /\
        sp_iter j2 (set_st scriptDataState k1) = Some k2 /\ st k2 = dataState /\
        out k2 = OEnd s_script [] false :: singles_r text ++ out k1 /\ reads o r k2 k'
  end.

(* names *)
Lemma switch_names_ok n : mem_str n rawtext_switch = true \/ mem_str n rcdata_switch = true ->
  n <> [] /\ forallb is_alpha n = true /\ tname_ok n = true /\ lower_str n = n.
Proof.
  intro H. assert (In n (rawtext_switch ++ rcdata_switch)).
  { apply in_or_app. destruct H as [H|H]; [left|right]; apply mem_str_In in H; exact H. }
  cbn in H0. repeat (destruct H0 as [<-|H0]; [repeat split; try reflexivity; discriminate|]). contradiction.
Qed.
Lemma rawtext_is_rcdata_element n : mem_str n rawtext_switch = true -> mem_str n rcdataElements = true.
Proof.
  intro H. apply mem_str_In in H. cbn in H. repeat (destruct H as [<-|H]; [reflexivity|]). contradiction.
Qed.
Lemma rcdata_not_rcdata_element n : mem_str n rcdata_switch = true -> mem_str n rcdataElements = false.
Proof.
  intro H. apply mem_str_In in H. cbn in H. repeat (destruct H as [<-|H]; [reflexivity|]). contradiction.
Qed.

Theorem units_roundtrip o : qc_ok o -> forall us txt errs rest cu tm out0 cd,
  Forall (unit_ok o) us -> ser_loop o false (flat_map flatten us) = Some (txt, errs) ->
  exists k', reads o us (mk_tk dataState (txt ++ rest) cu tm out0 cd false) k' /\
             st k' = dataState /\ inp k' = rest /\ out k' = rev (flat_map (rd_unit o) us) ++ out0 /\
             cdata_ok k' = cd /\ bad k' = false.
Proof.
  intros Hq us. induction us as [|u us IH]; intros txt errs rest cu tm out0 cd HF Hl.
  - cbn in Hl. inversion Hl; subst. eexists. split; [reflexivity|]. repeat split.
  - inversion HF as [|? ? Hu HFr]; subst. cbn [flat_map] in Hl.
    destruct u as [t|ns n a text|ns n a text|ns a text]; cbn [flatten app] in Hl.
    + (* a safe token: one step of the stream theorem *)
      cbn [ser_loop] in Hl. destruct (ser_token o false t) as [[[c' txt0] e0]|] eqn:Etok; [|discriminate Hl].
      destruct (ser_loop o c' (flat_map flatten us)) as [[txt' e']|] eqn:El; [|discriminate Hl].
      inversion Hl; subst txt errs. clear Hl.
      assert (Hone : ser_loop o false [t] = Some (txt0, e0)).
      { cbn [ser_loop]. rewrite Etok. rewrite !app_nil_r. reflexivity. }
      destruct (stream_roundtrip o Hq [t] txt0 e0 (txt' ++ rest) cu tm out0 cd (Forall_cons t (Hu : safe_tok o t) (Forall_nil _)) Hone)
        as [j [cu1 Hj]].
      assert (Hc' : c' = false).
      { cbn [unit_ok] in Hu. destruct t as [dn dp ds|s|s|ns name a|ns name|ns name a|d|en|er|ty]; cbn [safe_tok] in Hu; try contradiction;
          cbn [ser_token] in Etok.
        - destruct dn; [|contradiction]. destruct (ser_doctype (Some s) dp ds). inversion Etok; reflexivity.
        - inversion Etok; reflexivity.
        - inversion Etok; reflexivity.
        - destruct Hu as (_ & Hrc & _). rewrite Hrc in Etok. inversion Etok; reflexivity.
        - injection Etok as E1 E2 E3. rewrite <- E1. match goal with |- (if ?b then _ else _) = _ => destruct b; reflexivity end.
        - destruct Hu as (_ & Hrc & _). rewrite Hrc in Etok. inversion Etok; reflexivity.
        - inversion Etok; reflexivity. }
      subst c'. destruct (IH txt' e' rest cu1 tm (rev (flat_map (rd_tok o) [t]) ++ out0) cd HFr El) as [k' [Hr [H1 [H2 [H3 [H4 H5]]]]]].
      exists k'. split.
      * cbn [reads]. eexists j, _. rewrite <- app_assoc. split; [exact Hj|]. split; [reflexivity|].
        cbn [out flat_map]. rewrite app_nil_r. split; [reflexivity|]. cbn [flat_map] in Hr. rewrite app_nil_r in Hr. exact Hr.
      * split; [exact H1|]. split; [exact H2|]. split; [|split; assumption].
        rewrite H3. cbn [flat_map rd_unit]. rewrite app_nil_r, rev_app_distr, <- app_assoc. reflexivity.
    + (* a raw-text element *)
      destruct Hu as (Hn & He & Ha & Ht). destruct (switch_names_ok n (or_introl Hn)) as (Hne & Hal & Htn & Hlow).
      cbn [ser_loop ser_token] in Hl. rewrite (rawtext_is_rcdata_element n Hn), He in Hl. cbn [negb andb] in Hl.
      destruct (ser_loop o false (flat_map flatten us)) as [[txt' e']|] eqn:El; [|discriminate Hl].
      inversion Hl; subst txt errs. clear Hl. rewrite <- !app_assoc.
      destruct (start_tag_roundtrip o false n a (text ++ ([60; 47] ++ n ++ [62]) ++ txt' ++ rest) cu tm out0 cd Hq Htn Ha) as [j1 H1].
      cbn [andb] in H1.
      set (k1 := mk_tk dataState (text ++ ([60; 47] ++ n ++ [62]) ++ txt' ++ rest) (CTag false (lower_str n) (map (rd_attr o n) a) false) tm
                       (OStart (lower_str n) (first_wins [] (map (rd_attr o n) a)) false :: out0) cd false) in *.
      destruct (rawtext_element_roundtrip n text (txt' ++ rest) (map (rd_attr o n) a) false tm (out k1) cd Hne Hal Ht) as [j2 H2].
      destruct (IH txt' e' rest (CTag true (lower_str n) [] false) n
                   (OEnd (lower_str n) [] false :: singles_r text ++ out k1) cd HFr eq_refl) as [k' [Hr [G1 [G2 [G3 [G4 G5]]]]]].
      exists k'. split.
      * cbn [reads]. eexists j1, k1, j2, _. split.
        { match goal with |- sp_iter _ (mk_tk _ ?X _ _ _ _ _) = _ =>
            replace X with (ser_start o false n a ++ text ++ ([60; 47] ++ n ++ [62]) ++ txt' ++ rest); [exact H1|] end.
          unfold ser_start. cbn [andb app]. repeat (rewrite <- app_assoc; cbn [app]). reflexivity. }
        split; [reflexivity|]. split; [reflexivity|].
        split.
        { unfold k1, set_st. cbn [st inp cur tmp out cdata_ok bad app] in H2 |- *. repeat (rewrite <- app_assoc; cbn [app]).
          repeat (rewrite <- app_assoc in H2; cbn [app] in H2). exact H2. }
        split; [reflexivity|]. split; [reflexivity|]. exact Hr.
      * split; [exact G1|]. split; [exact G2|]. split; [|split; assumption].
        rewrite G3. unfold k1. cbn [out flat_map rd_unit]. unfold singles_r.
        rewrite rev_app_distr. cbn [rev app]. rewrite rev_app_distr. cbn [rev app]. repeat (rewrite <- app_assoc; cbn [app]). reflexivity.
    + (* title / textarea *)
      destruct Hu as (Hn & Ha & Ht). destruct (switch_names_ok n (or_intror Hn)) as (Hne & Hal & Htn & Hlow).
      cbn [ser_loop ser_token] in Hl. rewrite (rcdata_not_rcdata_element n Hn) in Hl. cbn [andb] in Hl.
      destruct (ser_loop o false (flat_map flatten us)) as [[txt' e']|] eqn:El; [|discriminate Hl].
      inversion Hl; subst txt errs. clear Hl. rewrite <- !app_assoc.
      destruct (start_tag_roundtrip o false n a (escape text ++ ([60; 47] ++ n ++ [62]) ++ txt' ++ rest) cu tm out0 cd Hq Htn Ha) as [j1 H1].
      cbn [andb] in H1.
      set (k1 := mk_tk dataState (escape text ++ ([60; 47] ++ n ++ [62]) ++ txt' ++ rest) (CTag false (lower_str n) (map (rd_attr o n) a) false) tm
                       (OStart (lower_str n) (first_wins [] (map (rd_attr o n) a)) false :: out0) cd false) in *.
      destruct (rcdata_element_roundtrip n text (txt' ++ rest) (map (rd_attr o n) a) false tm (out k1) cd Hne Hal Ht) as [j2 H2].
      destruct (IH txt' e' rest (CTag true (lower_str n) [] false) n
                   (OEnd (lower_str n) [] false :: singles_r text ++ out k1) cd HFr eq_refl) as [k' [Hr [G1 [G2 [G3 [G4 G5]]]]]].
      exists k'. split.
      * cbn [reads]. eexists j1, k1, j2, _. split.
        { match goal with |- sp_iter _ (mk_tk _ ?X _ _ _ _ _) = _ =>
            replace X with (ser_start o false n a ++ escape text ++ ([60; 47] ++ n ++ [62]) ++ txt' ++ rest); [exact H1|] end.
          unfold ser_start. cbn [andb app]. repeat (rewrite <- app_assoc; cbn [app]). reflexivity. }
        split; [reflexivity|]. split; [reflexivity|].
        split.
        { unfold k1, set_st. cbn [st inp cur tmp out cdata_ok bad app] in H2 |- *. repeat (rewrite <- app_assoc; cbn [app]).
          repeat (rewrite <- app_assoc in H2; cbn [app] in H2). exact H2. }
        split; [reflexivity|]. split; [reflexivity|]. exact Hr.
      * split; [exact G1|]. split; [exact G2|]. split; [|split; assumption].
        rewrite G3. unfold k1. cbn [out flat_map rd_unit]. unfold singles_r.
        rewrite rev_app_distr. cbn [rev app]. rewrite rev_app_distr. cbn [rev app]. repeat (rewrite <- app_assoc; cbn [app]). reflexivity.
    + (* script, text without "<!" and "</" *)
      destruct Hu as (He & Ha & Ht). set (n := s_script) in *.
      assert (Hne : n <> []) by discriminate. assert (Hal : forallb is_alpha n = true) by reflexivity.
      assert (Htn : tname_ok n = true) by reflexivity.
      cbn [ser_loop ser_token] in Hl. replace (mem_str n rcdataElements) with true in Hl by reflexivity. rewrite He in Hl. cbn [negb andb] in Hl.
      destruct (ser_loop o false (flat_map flatten us)) as [[txt' e']|] eqn:El; [|discriminate Hl].
      inversion Hl; subst txt errs. clear Hl. rewrite <- !app_assoc.
      destruct (start_tag_roundtrip o false n a (text ++ ([60; 47] ++ n ++ [62]) ++ txt' ++ rest) cu tm out0 cd Hq Htn Ha) as [j1 H1].
      cbn [andb] in H1.
      set (k1 := mk_tk dataState (text ++ ([60; 47] ++ n ++ [62]) ++ txt' ++ rest) (CTag false (lower_str n) (map (rd_attr o n) a) false) tm
                       (OStart (lower_str n) (first_wins [] (map (rd_attr o n) a)) false :: out0) cd false) in *.
      destruct (script_element_roundtrip n text (txt' ++ rest) (map (rd_attr o n) a) false tm (out k1) cd Hne Hal Ht) as [j2 H2].
      destruct (IH txt' e' rest (CTag true (lower_str n) [] false) n
                   (OEnd (lower_str n) [] false :: singles_r text ++ out k1) cd HFr eq_refl) as [k' [Hr [G1 [G2 [G3 [G4 G5]]]]]].
      exists k'. split.
      * cbn [reads]. eexists j1, k1, j2, _. split.
        { match goal with |- sp_iter _ (mk_tk _ ?X _ _ _ _ _) = _ =>
            replace X with (ser_start o false n a ++ text ++ ([60; 47] ++ n ++ [62]) ++ txt' ++ rest); [exact H1|] end.
          unfold ser_start. cbn [andb app]. repeat (rewrite <- app_assoc; cbn [app]). reflexivity. }
        split; [reflexivity|]. split; [reflexivity|].
        split.
        { unfold k1, set_st. cbn [st inp cur tmp out cdata_ok bad app] in H2 |- *. repeat (rewrite <- app_assoc; cbn [app]).
          repeat (rewrite <- app_assoc in H2; cbn [app] in H2). exact H2. }
        split; [reflexivity|]. split; [reflexivity|]. exact Hr.
      * split; [exact G1|]. split; [exact G2|]. split; [|split; assumption].
        rewrite G3. unfold k1. cbn [out flat_map rd_unit]. unfold singles_r.
        rewrite rev_app_distr. cbn [rev app]. rewrite rev_app_distr. cbn [rev app]. repeat (rewrite <- app_assoc; cbn [app]). reflexivity.
Qed.
