(* C02charref -- html5lib's consumeEntity against the standard's character-reference rules as S_tok uses them
   (spec_charref): same decoded characters; html5lib may additionally swallow a run of name characters
   ([extra]: letters, digits, ";") which it emits as text, where the standard leaves them on the input -- and
   then reads them as ordinary characters.  Built on C14's theorems (longest match, numeric values). *)
From Coq Require Import NArith List Bool Arith Lia ZifyBool ZifyN.
From Verif Require Import Sx Str Tok.
From Verif.Gen Require Import Entities.
From Verif.Model Require Import CharRef TokBase.
From Verif.Spec Require Import CharRef TokSpec.
From Verif.Proofs Require Import C14.
Import ListNotations.
Local Open Scope N_scope.

Definition ok_allowed (a : option N) : bool :=
  match a with None => true | Some c => (c =? 34) || (c =? 39) || (c =? 62) end.

Lemma key_starts_alpha c : has_prefix entities [c] = true -> is_alpha c = true.
Proof.
  unfold has_prefix. intro H. apply existsb_exists in H as [e [He Hs]].
  pose proof entity_semi_last as A. rewrite forallb_forall in A. specialize (A e He).
  unfold semi_last in A. apply andb_true_iff in A as [_ A].
  destruct (fst e) as [|c' k]; [discriminate A|]. cbn [starts_with] in Hs.
  apply andb_true_iff in Hs as [Hs _]. apply N.eqb_eq in Hs. subst c'. exact A.
Qed.

Lemma is_key_nil : is_key entities [] = false.
Proof. vm_compute. reflexivity. Qed.

Lemma named_non_alpha attr c r : is_alpha c = false ->
  consume_named entities attr (c :: r) = ([38], [E_expected_named], c :: r).
Proof.
  intro Hc. unfold consume_named. cbn [scan app].
  destruct (has_prefix entities [c]) eqn:Hp; [apply key_starts_alpha in Hp; congruence|].
  unfold longest_prefix. cbn [length lp_len firstn]. rewrite is_key_nil. reflexivity.
Qed.

Lemma take_while_nil_head (f : N -> bool) (l : str) :
  take_while f l = [] <-> match l with d :: _ => f d = false | [] => True end.
Proof.
  destruct l as [|d l]; cbn [take_while]; [tauto|]. destruct (f d); split; intro H; try discriminate; reflexivity.
Qed.

Lemma charref_agree allowed attr i : ok_allowed allowed = true ->
  exists extra,
    fst (fst (consume_entity allowed attr i)) = fst (spec_charref attr i) ++ extra /\
    snd (spec_charref attr i) = extra ++ snd (consume_entity allowed attr i) /\
    forallb name_char extra = true.
Proof.
  intro Hal. destruct i as [|c0 r0]; [exists []; repeat split|].
  unfold consume_entity, spec_charref.
  destruct (is_space c0 || (c0 =? 60) || (c0 =? 38) || match allowed with Some a => a =? c0 | None => false end) eqn:E1.
  { assert (Ha : is_alnum c0 = false).
    { unfold is_alnum, is_alpha, is_upper, is_lower, is_digit, is_space, ok_allowed in *. destruct allowed; lia. }
    assert (Hh : (c0 =? 35) = false).
    { unfold is_space, ok_allowed in *. destruct allowed; lia. }
    rewrite Ha, Hh. exists []. repeat split. }
  destruct (c0 =? 35) eqn:E35.
  { replace (is_alnum c0) with false by (unfold is_alnum, is_alpha, is_upper, is_lower, is_digit; lia).
    unfold spec_numeric.
    set (hex := match r0 with c1 :: _ => (c1 =? 120) || (c1 =? 88) | [] => false end).
    set (after := if hex then tl r0 else r0).
    set (valid := if hex then is_hex else is_digit).
    assert (Hfo : match after with d :: _ => if hex then is_hex d else is_digit d | [] => false end
                  = match after with d :: _ => valid d | [] => false end).
    { unfold valid. destruct after; [reflexivity|]. destruct hex; reflexivity. }
    rewrite Hfo.
    destruct (take_while valid after) as [|d0 ds'] eqn:Etw.
    - apply take_while_nil_head in Etw.
      replace (match after with d :: _ => valid d | [] => false end) with false
        by (destruct after; [reflexivity | symmetry; exact Etw]).
      exists []. cbn [fst snd]. repeat split; rewrite ?app_nil_r; reflexivity.
    - assert (Hhd : match after with d :: _ => valid d | [] => false end = true).
      { destruct after as [|d a]; [discriminate Etw|]. cbn [take_while] in Etw. destruct (valid d); [reflexivity|discriminate Etw]. }
      rewrite Hhd. unfold consume_number. fold valid. rewrite Etw.
      set (ds := d0 :: ds') in *.
      set (radix := if hex then 16 else 10).
      pose proof (truncated_value_ok radix ds) as T.
      assert (Hr : radix = 10 \/ radix = 16) by (unfold radix; destruct hex; [right|left]; reflexivity).
      assert (Hv : forallb (valid_digit radix) ds = true).
      { rewrite <- Etw. pose proof (take_while_all valid after) as A.
        unfold valid_digit, radix, valid in *. destruct hex; exact A. }
      specialize (T Hr Hv). cbv zeta in T.
      destruct (num_char (if Nat.ltb 7 (length (drop_while (fun c => c =? 48) ds)) then 1114112
                          else value radix (drop_while (fun c => c =? 48) ds))) as [ch err] eqn:En.
      cbn [fst] in T. subst ch.
      exists []. rewrite app_nil_r. cbn [app].
      destruct (drop_while valid after) as [|x rr]; [repeat split|].
      destruct (N.eqb_spec x 59) as [->|Hx]; [repeat split|].
      destruct x as [|p]; [repeat split|].
      repeat (destruct p as [p|p|]; try (repeat split; fail); try congruence). }
  destruct (is_alnum c0) eqn:Ean.
  - pose proof (named_vs_spec_entities attr (c0 :: r0)) as H. cbv zeta in H.
    destruct H as (extra & H1 & _ & H3 & H4). exists extra.
    destruct (consume_named entities attr (c0 :: r0)) as [[o e] rest].
    destruct (spec_named entities attr (c0 :: r0)) as [[so se] srest].
    cbn [fst snd] in *. repeat split; assumption.
  - rewrite named_non_alpha by (unfold is_alnum in Ean; apply orb_false_elim in Ean; tauto).
    exists []. repeat split.
Qed.
