(* C02sim_i -- per-state simulation lemmas (M_tok state method vs S_tok), see Proofs/C02sim.v and C02simtac.v.
   Each lemma:  R m s -> st m = X -> wk m = true -> plain m = true -> simok s (step_X m). *)
From Coq Require Import NArith List Bool Arith Lia ZifyBool ZifyN.
From Verif Require Import Sx Str.
From Verif.Gen Require Import Entities Tokenizer.
From Verif.Model Require Import CharRef TokBase TokHand C02.
From Verif.Spec Require Import CharRef TokSpec.
From Verif.Proofs Require Import C02a C02dict C08 C02sim C02simtac.
Import ListNotations.
Local Open Scope N_scope.

Lemma sim_afterDoctypeSystemIdentifierState : forall m s, R m s -> st m = afterDoctypeSystemIdentifierState -> wk m = true -> plain m = true -> simok s (step_afterDoctypeSystemIdentifierState m).
Proof. sim_state step_afterDoctypeSystemIdentifierState. Qed.

Lemma sim_beforeDoctypePublicIdentifierState : forall m s, R m s -> st m = beforeDoctypePublicIdentifierState -> wk m = true -> plain m = true -> simok s (step_beforeDoctypePublicIdentifierState m).
Proof. sim_state step_beforeDoctypePublicIdentifierState. Qed.

Lemma sim_doctypeSystemIdentifierSingleQuotedState : forall m s, R m s -> st m = doctypeSystemIdentifierSingleQuotedState -> wk m = true -> plain m = true -> simok s (step_doctypeSystemIdentifierSingleQuotedState m).
Proof. sim_state step_doctypeSystemIdentifierSingleQuotedState. Qed.

Lemma sim_scriptDataDoubleEscapeEndState : forall m s, R m s -> st m = scriptDataDoubleEscapeEndState -> wk m = true -> plain m = true -> simok s (step_scriptDataDoubleEscapeEndState m).
Proof. sim_state step_scriptDataDoubleEscapeEndState. Qed.

Lemma sim_scriptDataDoubleEscapedState : forall m s, R m s -> st m = scriptDataDoubleEscapedState -> wk m = true -> plain m = true -> simok s (step_scriptDataDoubleEscapedState m).
Proof. sim_state step_scriptDataDoubleEscapedState. Qed.

Lemma sim_scriptDataEndTagOpenState : forall m s, R m s -> st m = scriptDataEndTagOpenState -> wk m = true -> plain m = true -> simok s (step_scriptDataEndTagOpenState m).
Proof. sim_state step_scriptDataEndTagOpenState. Qed.

Lemma sim_scriptDataEscapeStartState : forall m s, R m s -> st m = scriptDataEscapeStartState -> wk m = true -> plain m = true -> simok s (step_scriptDataEscapeStartState m).
Proof. sim_state step_scriptDataEscapeStartState. Qed.

