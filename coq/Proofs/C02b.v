(* C02b -- termination of the tokenizer model: the hand-modelled states, the dispatcher, the bound. *)
From Coq Require Import NArith List Bool Arith Lia.
From Verif Require Import Sx Str.
From Verif.Gen Require Import Entities Tokenizer.
From Verif.Model Require Import CharRef TokBase TokHand C02.
From Verif.Proofs Require Import C14 C02a.
Import ListNotations.
Local Open Scope N_scope.

(* ---- the hand-modelled states ---- *)
Lemma inp_last_name_lower k : inp (last_name_lower k) = inp k.
Proof. unfold last_name_lower. destruct (cur k); try reflexivity. destruct (upd_last _ _); reflexivity. Qed.
Lemma st_last_name_lower k : st (last_name_lower k) = st k.
Proof. unfold last_name_lower. destruct (cur k); try reflexivity. destruct (upd_last _ _); reflexivity. Qed.
Lemma inp_leaving e k : inp (leaving_attribute_name e k) = inp k.
Proof.
  unfold leaving_attribute_name.
  destruct e; [rewrite inp_emit_current_token|]; destruct (last_is_duplicate _); cbn [emit set_out inp];
    apply inp_last_name_lower.
Qed.
Lemma inp_attr_name_app x k : inp (attr_name_app x k) = inp k.
Proof. unfold attr_name_app. destruct (cur k); try reflexivity. destruct (upd_last _ _); reflexivity. Qed.

Lemma st_emit_current_token k : st (emit_current_token k) = dataState \/ st (emit_current_token k) = st k.
Proof.
  unfold emit_current_token. destruct (cur k) as [|[|] n a sc|d|n p s c]; cbn; auto.
Qed.

Lemma ok_attributeNameState : forall k, st k = attributeNameState -> ok k (step_attributeNameState k).
Proof.
  intros k Hst. destruct k as [s i c t o cd b]. cbn [st] in Hst. subst s.
  unfold step_attributeNameState, ok, dec.
  destruct i as [|x r]; unfold peek, advance; cbn [hd_error inp set_inp tl]; cbn [fst snd]; intros _.
  - right. rewrite inp_leaving. cbn. split; [reflexivity|].
    unfold leaving_attribute_name.
    assert (H : forall k', st k' = dataState -> (rank (st (if last_is_duplicate (last_name_lower k')
                 then emit (OErr E_duplicate_attribute) (last_name_lower k') else last_name_lower k')) < 1)%nat).
    { intros k' Hk. destruct (last_is_duplicate _); cbn [emit set_out st]; rewrite st_last_name_lower, Hk; cbn; lia. }
    apply H. reflexivity.
  - left.
    repeat match goal with |- context [if ?b then _ else _] => destruct b end;
      cbn [fst chars_while]; rewrite ?inp_leaving, ?inp_attr_name_app; cbn [inp set_inp set_st emit set_out length];
      try lia.
    pose proof (drop_while_len is_alpha r). lia.
Qed.

Lemma ok_bogusCommentState : forall k, st k = bogusCommentState -> ok k (step_bogusCommentState k).
Proof.
  intros k Hst. destruct k as [s i c t o cd b]. cbn [st] in Hst. subst s.
  unfold step_bogusCommentState, ok, dec, chars_until. cbn [fst snd inp set_inp emit set_out advance set_st st].
  intros _.
  pose proof (drop_while_len (fun c0 => negb (c0 =? 62)) i) as H.
  destruct (drop_while _ i) as [|y l]; cbn [tl length rank] in *; lia.
Qed.

Lemma kw_match_len e w : forall i r, kw_match e w i = Some r -> (length r <= length i)%nat.
Proof.
  induction w as [|a w IH]; intros i r; cbn [kw_match].
  - intro H; inversion H; lia.
  - destruct i as [|c i]; [discriminate|].
    destruct (if e then c =? a else (c =? a) || (c + 32 =? a)); [|discriminate].
    intro H. apply IH in H. cbn [length]. lia.
Qed.

Lemma ok_markupDeclarationOpenState : forall k, st k = markupDeclarationOpenState ->
  ok k (step_markupDeclarationOpenState k).
Proof.
  intros k Hst. destruct k as [s i c t o cd b]. cbn [st] in Hst. subst s.
  unfold step_markupDeclarationOpenState, ok, dec. cbn [inp cdata_ok].
  assert (Hf : dec (mk_tk markupDeclarationOpenState i c t o cd b)
                 (set_st bogusCommentState (emit (OErr E_expected_dashes_or_doctype)
                    (mk_tk markupDeclarationOpenState i c t o cd b)))).
  { right. cbn. split; [reflexivity|lia]. }
  destruct i as [|x r]; cbn [fst snd]; intros _; [exact Hf|].
  destruct (x =? 45).
  { destruct r as [|x2 r2]; [exact Hf|]. destruct (x2 =? 45); [|exact Hf]. left. cbn. lia. }
  destruct ((x =? 100) || (x =? 68)).
  { destruct (kw_match false kw_octype r) as [r'|] eqn:E; [|exact Hf].
    apply kw_match_len in E. left. cbn. lia. }
  destruct ((x =? 91) && cd); [|exact Hf].
  destruct (kw_match true kw_CDATA r) as [r'|] eqn:E; [|exact Hf].
  apply kw_match_len in E. left. cbn. lia.
Qed.

Lemma kw_scan_len w : forall i, (length (snd (kw_scan w i)) <= length i)%nat.
Proof.
  induction w as [|a w IH]; intro i; cbn [kw_scan]; [cbn; lia|].
  destruct i as [|c i]; [cbn; lia|].
  destruct ((c =? a) || (c + 32 =? a)); [|cbn; lia].
  specialize (IH i). cbn [length]. lia.
Qed.

Lemma ok_afterDoctypeNameState : forall k, st k = afterDoctypeNameState -> ok k (step_afterDoctypeNameState k).
Proof.
  intros k Hst. destruct k as [s i c t o cd b]. cbn [st] in Hst. subst s.
  unfold step_afterDoctypeNameState, ok, dec.
  destruct i as [|x r]; unfold peek, advance; cbn [hd_error inp set_inp tl]; cbn [fst snd]; intros _.
  - right. unfold emit_cur, set_incorrect. destruct c; cbn; (split; [reflexivity|lia]).
  - destruct (is_space x); [left; cbn; lia|].
    destruct (x =? 62); [left; unfold emit_cur; cbn; lia|].
    assert (Hb : forall k', (length (inp k') <= length (x :: r))%nat ->
               (length (inp (set_st bogusDoctypeState (set_incorrect
                   (emit (OErr E_expected_space_or_right_bracket_in_doctype) k')))) < length (x :: r))%nat \/
               (length (inp (set_st bogusDoctypeState (set_incorrect
                   (emit (OErr E_expected_space_or_right_bracket_in_doctype) k')))) = length (x :: r) /\
                (rank (st (set_st bogusDoctypeState (set_incorrect
                   (emit (OErr E_expected_space_or_right_bracket_in_doctype) k')))) < 2)%nat)).
    { intros k' Hk. assert (Hi : inp (set_st bogusDoctypeState (set_incorrect
                   (emit (OErr E_expected_space_or_right_bracket_in_doctype) k'))) = inp k').
      { unfold set_incorrect. cbn [emit set_out cur]. destruct (cur k'); reflexivity. }
      rewrite Hi. cbn [set_st st rank]. lia. }
    destruct ((x =? 112) || (x =? 80)).
    { pose proof (kw_scan_len kw_ublic r) as Hl. cbn [inp].
      destruct (kw_scan kw_ublic r) as [[|] r']; cbn [snd] in Hl.
      - left. cbn. lia.
      - cbn [fst]. apply Hb. cbn. lia. }
    destruct ((x =? 115) || (x =? 83)).
    { pose proof (kw_scan_len kw_ystem r) as Hl. cbn [inp].
      destruct (kw_scan kw_ystem r) as [[|] r']; cbn [snd] in Hl.
      - left. cbn. lia.
      - cbn [fst]. apply Hb. cbn. lia. }
    cbn [fst]. apply Hb. cbn. lia.
Qed.

Lemma cdata_loop_len : forall fuel acc i, (length (snd (cdata_loop fuel acc i)) <= length i)%nat.
Proof.
  induction fuel as [|f IH]; intros acc i; cbn [cdata_loop];
    pose proof (drop_while_len (fun c => negb (c =? 93)) i) as H1;
    pose proof (drop_while_len (fun c => negb (c =? 62)) (drop_while (fun c => negb (c =? 93)) i)) as H2;
    destruct (drop_while (fun c => negb (c =? 62)) (drop_while (fun c => negb (c =? 93)) i)) as [|gt r];
    try (cbn; lia); cbn [length] in H2.
  - destruct (ends_with_2 _ _); cbn [snd]; lia.
  - destruct (ends_with_2 _ _); [cbn [snd]; lia|]. specialize (IH (acc ++ take_while (fun c => negb (c =? 93)) i ++
        take_while (fun c => negb (c =? 62)) (drop_while (fun c => negb (c =? 93)) i) ++ [gt]) r). lia.
Qed.

Lemma iter_emit_inp n e : forall k, inp (Nat.iter n (emit e) k) = inp k.
Proof. induction n as [|n IH]; intro k; cbn [Nat.iter]; [reflexivity|]. cbn [emit set_out inp]. apply IH. Qed.

Lemma ok_cdataSectionState : forall k, st k = cdataSectionState -> ok k (step_cdataSectionState k).
Proof.
  intros k Hst. destruct k as [s i c t o cd b]. cbn [st] in Hst. subst s.
  unfold step_cdataSectionState, ok, dec. cbn [inp].
  pose proof (cdata_loop_len (length i) [] i) as H.
  destruct (cdata_loop (length i) [] i) as [data rest]. cbn [snd] in H. cbn [fst snd]. intros _.
  assert (Hi : inp (match data with [] => Nat.iter (count_nul data) (emit (OErr E_invalid_codepoint))
                      (set_inp rest (mk_tk cdataSectionState i c t o cd b))
                    | _ :: _ => emit (OChars (nul_to_fffd data)) (Nat.iter (count_nul data) (emit (OErr E_invalid_codepoint))
                      (set_inp rest (mk_tk cdataSectionState i c t o cd b))) end) = rest).
  { destruct data; cbn [emit set_out inp]; rewrite iter_emit_inp; reflexivity. }
  cbn [set_st inp st rank]. rewrite Hi. cbn [length]. lia.
Qed.

#[export] Hint Resolve ok_attributeNameState ok_bogusCommentState ok_markupDeclarationOpenState
  ok_afterDoctypeNameState ok_cdataSectionState : okdb.

(* ---- the dispatcher: every step of every state ---- *)
Lemma step_ok k : ok k (step k).
Proof.
  unfold step. destruct (st k) eqn:E; auto with okdb; unfold ok; cbn [snd]; discriminate.
Qed.

Definition measure (k : tk) : nat := (3 * length (inp k) + rank (st k))%nat.

Lemma rank_le s : (rank s <= 2)%nat.
Proof. destruct s; cbn; lia. Qed.

Lemma step_measure k k' : step k = (k', true) -> (measure k' < measure k)%nat.
Proof.
  intro H. pose proof (step_ok k) as Hok. rewrite H in Hok. specialize (Hok eq_refl). cbn [fst] in Hok.
  unfold measure. pose proof (rank_le (st k')). destruct Hok as [Hl|[Hl Hr]]; lia.
Qed.

Theorem run_terminates : forall n k, (measure k < n)%nat -> run_loop n k <> None.
Proof.
  induction n as [|n IH]; intros k Hm; [lia|].
  cbn [run_loop]. destruct (step k) as [k' c] eqn:E. destruct c; [|discriminate].
  apply IH. apply step_measure in E. lia.
Qed.

Theorem tokenize_total s c t cd i : tokenize s c t cd i <> None.
Proof.
  unfold tokenize. apply run_terminates. unfold measure, fuel_for, init_tk. cbn [inp st].
  pose proof (rank_le s). lia.
Qed.
