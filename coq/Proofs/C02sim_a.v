(* C02sim_a -- per-state simulation lemmas (M_tok state method vs S_tok), see Proofs/C02sim.v and C02simtac.v.
   Each lemma:  R m s -> st m = X -> wk m = true -> plain m = true -> simok s (step_X m). *)
From Coq Require Import NArith List Bool Arith Lia ZifyBool ZifyN.
From Verif Require Import Sx Str.
From Verif.Gen Require Import Entities Tokenizer.
From Verif.Model Require Import CharRef TokBase TokHand C02.
From Verif.Spec Require Import CharRef TokSpec.
From Verif.Proofs Require Import C02a C02dict C08 C02sim C02simtac.
Import ListNotations.
Local Open Scope N_scope.

Lemma sim_bogusDoctypeState : forall m s, R m s -> st m = bogusDoctypeState -> wk m = true -> plain m = true -> simok s (step_bogusDoctypeState m).
Proof. sim_state step_bogusDoctypeState. Qed.

Lemma sim_doctypeNameState : forall m s, R m s -> st m = doctypeNameState -> wk m = true -> plain m = true -> simok s (step_doctypeNameState m).
Proof. sim_state step_doctypeNameState. Qed.

Lemma sim_rcdataLessThanSignState : forall m s, R m s -> st m = rcdataLessThanSignState -> wk m = true -> plain m = true -> simok s (step_rcdataLessThanSignState m).
Proof. sim_state step_rcdataLessThanSignState. Qed.

Lemma sim_scriptDataEscapedEndTagOpenState : forall m s, R m s -> st m = scriptDataEscapedEndTagOpenState -> wk m = true -> plain m = true -> simok s (step_scriptDataEscapedEndTagOpenState m).
Proof. sim_state step_scriptDataEscapedEndTagOpenState. Qed.

