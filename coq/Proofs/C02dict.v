(* C02dict -- emitCurrentToken's  data = dict(raw); if len(raw) > len(data): data.update(raw[::-1])
   keeps, for every attribute name, its FIRST value, in order of first occurrence: it is the standard's
   "drop the later duplicate" (Spec/TokSpec.v: first_wins), for every attribute list. *)
From Coq Require Import NArith List Bool Arith Lia.
From Verif Require Import Sx Str.
From Verif.Model Require Import TokBase TokHand.
From Verif.Spec Require Import TokSpec.
Import ListNotations.
Local Open Scope N_scope.

Definition keys (d : pairs) : list str := map fst d.
Fixpoint get (d : pairs) (k : str) : option str :=
  match d with
  | [] => None
  | (k', v) :: r => if str_eqb k k' then Some v else get r k
  end.

(* new keys of l, in order of first occurrence, given the keys already seen *)
Fixpoint nk (seen : list str) (l : list str) : list str :=
  match l with
  | [] => []
  | k :: r => if mem_str k seen then nk seen r else k :: nk (k :: seen) r
  end.

Lemma nk_ext l : forall s1 s2, (forall k, mem_str k s1 = mem_str k s2) -> nk s1 l = nk s2 l.
Proof.
  induction l as [|k r IH]; intros s1 s2 H; cbn [nk]; [reflexivity|].
  rewrite <- (H k). destruct (mem_str k s1); [apply IH; exact H|].
  f_equal. apply IH. intro k'.
  change (str_eqb k' k || mem_str k' s1 = str_eqb k' k || mem_str k' s2). rewrite H. reflexivity.
Qed.

Lemma mem_app k a b : mem_str k (a ++ b) = mem_str k a || mem_str k b.
Proof. unfold mem_str. apply existsb_app. Qed.

(* ---- dict_set / dict_update ---- *)
Lemma keys_dict_set d k v : keys (dict_set d k v) = if mem_str k (keys d) then keys d else keys d ++ [k].
Proof.
  induction d as [|[k' v'] r IH]; cbn [dict_set keys map mem_str existsb]; [reflexivity|].
  cbn [fst]. destruct (str_eqb k k') eqn:E; cbn [orb map fst]; [reflexivity|].
  fold (keys (dict_set r k v)). rewrite IH. fold (keys r). fold (mem_str k (keys r)).
  destruct (mem_str k (keys r)); reflexivity.
Qed.

Lemma get_dict_set d k v k' : get (dict_set d k v) k' = if str_eqb k' k then Some v else get d k'.
Proof.
  induction d as [|[k0 v0] r IH]; cbn [dict_set get].
  - reflexivity.
  - destruct (str_eqb k k0) eqn:E; cbn [get].
    + apply str_eqb_eq in E. subst k0. destruct (str_eqb k' k); reflexivity.
    + rewrite IH. destruct (str_eqb k' k0) eqn:E2; [|reflexivity].
      apply str_eqb_eq in E2. subst k0. destruct (str_eqb k' k) eqn:E3; [|reflexivity].
      apply str_eqb_eq in E3. subst k'. rewrite str_eqb_refl in E. discriminate.
Qed.

Lemma keys_dict_update items : forall d, keys (dict_update d items) = keys d ++ nk (keys d) (map fst items).
Proof.
  induction items as [|[k v] r IH]; intro d; cbn [dict_update fold_left map nk fst snd].
  - rewrite app_nil_r. reflexivity.
  - fold (dict_update (dict_set d k v) r). rewrite IH, keys_dict_set.
    destruct (mem_str k (keys d)) eqn:E; [reflexivity|].
    rewrite <- app_assoc. cbn [app]. f_equal. f_equal. apply nk_ext. intro k0.
    rewrite mem_app. cbn [mem_str existsb]. rewrite orb_false_r.
    fold (mem_str k0 (keys d)). apply orb_comm.
Qed.

Lemma get_app a b k : get (a ++ b) k = match get a k with Some v => Some v | None => get b k end.
Proof.
  induction a as [|[k' v] r IH]; cbn [app get]; [reflexivity|]. destruct (str_eqb k k'); [reflexivity|apply IH].
Qed.

Lemma get_dict_update items : forall d k,
  get (dict_update d items) k = match get (rev items) k with Some v => Some v | None => get d k end.
Proof.
  induction items as [|[k0 v0] r IH]; intros d k; cbn [dict_update fold_left rev fst snd].
  - reflexivity.
  - fold (dict_update (dict_set d k0 v0) r). rewrite IH, get_app, get_dict_set. cbn [get].
    destruct (get (rev r) k); [reflexivity|]. destruct (str_eqb k k0); reflexivity.
Qed.

(* ---- first_wins ---- *)
Lemma keys_first_wins a : forall seen, keys (first_wins seen a) = nk seen (map fst a).
Proof.
  induction a as [|[k v] r IH]; intro seen; cbn [first_wins map nk fst]; [reflexivity|].
  destruct (mem_str k seen); [apply IH|]. cbn [keys map fst]. f_equal. apply IH.
Qed.

Lemma get_first_wins a : forall seen k, get (first_wins seen a) k = if mem_str k seen then None else get a k.
Proof.
  induction a as [|[k0 v0] r IH]; intros seen k; cbn [first_wins get].
  - destruct (mem_str k seen); reflexivity.
  - destruct (mem_str k0 seen) eqn:E0.
    + rewrite IH. destruct (mem_str k seen) eqn:E; [reflexivity|].
      destruct (str_eqb k k0) eqn:E1; [|reflexivity]. apply str_eqb_eq in E1. subst k0. congruence.
    + cbn [get]. destruct (str_eqb k k0) eqn:E1.
      * apply str_eqb_eq in E1. subst k0. rewrite E0. reflexivity.
      * rewrite IH. cbn [mem_str existsb]. rewrite E1. reflexivity.
Qed.

(* ---- association lists with distinct keys are determined by their keys and their lookups ---- *)
Lemma get_none_not_in d k : get d k = None <-> ~ In k (keys d).
Proof.
  induction d as [|[k' v] r IH]; cbn [get keys map In fst].
  - tauto.
  - destruct (str_eqb k k') eqn:E.
    + apply str_eqb_eq in E. subst k'. split; [discriminate|]. intro H. exfalso. apply H. left. reflexivity.
    + apply str_eqb_neq in E. rewrite IH. fold (keys r). split.
      * intros H [H1|H1]; [congruence|tauto].
      * intros H H1. apply H. right. exact H1.
Qed.

Lemma assoc_ext d1 : forall d2, NoDup (keys d1) -> keys d1 = keys d2 -> (forall k, get d1 k = get d2 k) -> d1 = d2.
Proof.
  induction d1 as [|[k v] r IH]; intros d2 Hnd Hk Hg.
  - destruct d2; [reflexivity|discriminate].
  - destruct d2 as [|[k2 v2] r2]; [discriminate|]. cbn [keys map fst] in Hk. injection Hk as -> Hk.
    pose proof (Hg k2) as H0. cbn [get] in H0. rewrite str_eqb_refl in H0. injection H0 as ->.
    f_equal. inversion Hnd as [|? ? Hni Hnd']; subst. apply IH; [exact Hnd'|exact Hk|].
    intro k. pose proof (Hg k) as H1. cbn [get] in H1.
    destruct (str_eqb k k2) eqn:E; [|exact H1].
    apply str_eqb_eq in E. subst k2.
    assert (H2 : get r k = None) by (apply get_none_not_in; exact Hni).
    assert (H3 : get r2 k = None).
    { apply get_none_not_in. unfold keys in *. rewrite <- Hk. exact Hni. }
    congruence.
Qed.

Lemma nk_nodup l : forall seen, NoDup (nk seen l) /\ forall k, In k (nk seen l) -> mem_str k seen = false.
Proof.
  induction l as [|k r IH]; intro seen; cbn [nk].
  - split; [constructor|intros ? []].
  - destruct (mem_str k seen) eqn:E; [apply IH|].
    destruct (IH (k :: seen)) as [Hn Hm]. split.
    + constructor; [|exact Hn]. intro Hin. apply Hm in Hin. cbn [mem_str existsb] in Hin.
      rewrite str_eqb_refl in Hin. discriminate.
    + intros k0 [<-|Hin]; [exact E|]. apply Hm in Hin. cbn [mem_str existsb] in Hin.
      apply orb_false_iff in Hin. apply Hin.
Qed.

Lemma nk_all_seen l seen : (forall k, In k l -> mem_str k seen = true) -> nk seen l = [].
Proof.
  induction l as [|k r IH]; intro H; cbn [nk]; [reflexivity|].
  rewrite (H k (or_introl eq_refl)). apply IH. intros k0 Hk. apply H. right. exact Hk.
Qed.

Lemma in_nk_or_seen l : forall seen k, In k l -> mem_str k seen = true \/ In k (nk seen l).
Proof.
  induction l as [|k0 r IH]; intros seen k Hin; [destruct Hin|].
  cbn [nk]. destruct Hin as [<-|Hin].
  - destruct (mem_str k0 seen) eqn:E; [left; reflexivity|right; left; reflexivity].
  - destruct (mem_str k0 seen) eqn:E; [apply IH; exact Hin|].
    destruct (IH (k0 :: seen) k Hin) as [H|H]; [|right; right; exact H].
    cbn [mem_str existsb] in H. apply orb_true_iff in H. destruct H as [H|H].
    + apply str_eqb_eq in H. subst k0. right. left. reflexivity.
    + left. exact H.
Qed.

Lemma get_in_keys d k : get d k <> None <-> In k (keys d).
Proof.
  pose proof (get_none_not_in d k) as H. destruct (get d k); split; intro H1; try congruence.
  - destruct (in_dec str_eq_dec k (keys d)) as [Hi|Hi]; [exact Hi|]. apply H in Hi. discriminate.
  - exfalso. apply (proj1 H eq_refl). exact H1.
Qed.

Lemma get_rev_none l k : get l k = None -> get (rev l) k = None.
Proof.
  intro H. apply get_none_not_in. apply get_none_not_in in H. intro Hin. apply H.
  unfold keys in *. rewrite map_rev in Hin. apply in_rev in Hin. exact Hin.
Qed.

(* no key repeated: the last binding is the first one *)
Lemma get_rev_nodup l : NoDup (keys l) -> forall k, get (rev l) k = get l k.
Proof.
  induction l as [|[k0 v0] r IH]; intros Hnd k; [reflexivity|].
  inversion Hnd as [|? ? Hni Hnd']; subst. cbn [rev get]. rewrite get_app. cbn [get].
  rewrite (IH Hnd'). destruct (str_eqb k k0) eqn:E.
  - apply str_eqb_eq in E. subst k0. replace (get r k) with (@None str); [reflexivity|].
    symmetry. apply get_none_not_in. exact Hni.
  - destruct (get r k); reflexivity.
Qed.

Lemma nk_length l : forall seen, (length (nk seen l) <= length l)%nat.
Proof.
  induction l as [|k r IH]; intro seen; cbn [nk length]; [lia|].
  destruct (mem_str k seen); [specialize (IH seen); lia|]. cbn [length]. specialize (IH (k :: seen)). lia.
Qed.
Lemma nk_full l : forall seen, length (nk seen l) = length l -> nk seen l = l.
Proof.
  induction l as [|k r IH]; intros seen H; [reflexivity|]. cbn [nk] in *.
  destruct (mem_str k seen).
  - pose proof (nk_length r seen). cbn [length] in H. lia.
  - cbn [length] in H. f_equal. apply IH. lia.
Qed.

Theorem py_attr_dict_first_wins raw : py_attr_dict raw = first_wins [] raw.
Proof.
  unfold py_attr_dict.
  set (d := dict_update [] raw).
  assert (Hkd : keys d = nk [] (map fst raw)) by (subst d; rewrite keys_dict_update; reflexivity).
  assert (Hnd : NoDup (keys d)) by (rewrite Hkd; apply nk_nodup).
  assert (Hkf : keys (first_wins [] raw) = keys d) by (rewrite keys_first_wins, Hkd; reflexivity).
  assert (Hgd : forall k, get d k = get (rev raw) k).
  { intro k. subst d. rewrite get_dict_update. cbn [get]. destruct (get (rev raw) k); reflexivity. }
  destruct (Nat.ltb (length d) (length raw)) eqn:E.
  - (* some name repeated: update with the reversed list *)
    apply assoc_ext.
    + rewrite keys_dict_update. replace (nk (keys d) (map fst (rev raw))) with (@nil str).
      * rewrite app_nil_r. exact Hnd.
      * symmetry. apply nk_all_seen. intros k Hin. rewrite map_rev in Hin. apply in_rev in Hin.
        destruct (in_nk_or_seen (map fst raw) [] k Hin) as [H|H]; [discriminate|].
        rewrite <- Hkd in H. apply mem_str_In. exact H.
    + rewrite keys_dict_update. replace (nk (keys d) (map fst (rev raw))) with (@nil str).
      * rewrite app_nil_r. symmetry. exact Hkf.
      * symmetry. apply nk_all_seen. intros k Hin. rewrite map_rev in Hin. apply in_rev in Hin.
        destruct (in_nk_or_seen (map fst raw) [] k Hin) as [H|H]; [discriminate|].
        rewrite <- Hkd in H. apply mem_str_In. exact H.
    + intro k. rewrite get_dict_update, rev_involutive, get_first_wins. cbn [mem_str existsb].
      destruct (get raw k) eqn:Eg; [reflexivity|]. rewrite Hgd. apply get_rev_none. exact Eg.
  - (* no name repeated *)
    apply Nat.ltb_ge in E.
    assert (Hlen : length (nk [] (map fst raw)) = length (map fst raw)).
    { pose proof (nk_length (map fst raw) []) as H.
      assert (Hd : length (nk [] (map fst raw)) = length d) by (rewrite <- Hkd; unfold keys; apply map_length).
      rewrite map_length in *. lia. }
    apply nk_full in Hlen.
    assert (Hnr : NoDup (keys raw)) by (unfold keys; rewrite <- Hlen; apply nk_nodup).
    apply assoc_ext; [exact Hnd|symmetry; exact Hkf|].
    intro k. rewrite Hgd, get_first_wins. cbn [mem_str existsb]. apply get_rev_nodup. exact Hnr.
Qed.
