(* C01b -- the stack-clearing and scope algorithms of the tree-construction model against their plain meaning. *)
From Coq Require Import NArith List Bool Arith Lia String.
From Verif Require Import Sx Str Tok.
From Verif.Model Require Import TokBase TCdom TC.
Import ListNotations.
Local Open Scope N_scope.
Local Open Scope list_scope.
Local Notation length := List.length.

(* ---- "clear the stack back to a ... context" (after the repair in /repo: HTML elements only) ---- *)
Definition stops (names : list string) (s : ps) (x : nat) : bool := name_in (hname_html s x) names.

Lemma top_snoc l x s : opn s = l ++ [x] -> top s = Some x.
Proof. intro H. unfold top. rewrite H, rev_app_distr. reflexivity. Qed.
Lemma top_nil s : opn s = [] -> top s = None.
Proof. intro H. unfold top. rewrite H. reflexivity. Qed.
Lemma pop_snoc l x s : opn s = l ++ [x] ->
  opn (pop s) = l /\ d (pop s) = d s /\ htmlns (pop s) = htmlns s /\ crash (pop s) = crash s.
Proof.
  intro H. unfold pop. rewrite H. destruct (l ++ [x]) eqn:E; [destruct l; discriminate E|].
  rewrite <- E. cbn [set_opn opn d htmlns crash]. rewrite removelast_last. repeat split; reflexivity.
Qed.

(* the loop pops exactly down to the topmost element that [stops] it: nothing else changes, it never indexes an
   empty stack when some element of the stack stops it (the root html element always does) *)
Lemma clear_stack_spec names : forall fuel l s,
  opn s = l -> (length l < fuel)%nat -> (exists x, In x l /\ stops names s x = true) ->
  crash (pop_while_not_html_fuel fuel names s) = crash s /\ d (pop_while_not_html_fuel fuel names s) = d s /\
  exists k y, opn (pop_while_not_html_fuel fuel names s) = firstn (Datatypes.S k) l /\ nth_error l k = Some y /\
              stops names s y = true /\ forall z, In z (skipn (Datatypes.S k) l) -> stops names s z = false.
Proof.
  induction fuel as [|f IH]; intros l s Hl Hf Hex; [lia|].
  assert (Hne : l <> []) by (destruct Hex as [x [Hx _]]; intro Hn; rewrite Hn in Hx; exact Hx).
  destruct (exists_last Hne) as [l0 [x E]]. clear Hne. rewrite E in Hl, Hf, Hex |- *. clear E l.
  cbn [pop_while_not_html_fuel]. rewrite (top_snoc l0 x s Hl).
  fold (stops names s x). destruct (stops names s x) eqn:Esx.
  - split; [reflexivity|]. split; [reflexivity|]. exists (length l0), x. rewrite Hl.
    rewrite firstn_all2 by (rewrite app_length; cbn; lia).
    split; [reflexivity|]. split; [rewrite nth_error_app2, Nat.sub_diag by lia; reflexivity|]. split; [exact Esx|].
    rewrite skipn_all2 by (rewrite app_length; cbn; lia). intros z [].
  - destruct (pop_snoc l0 x s Hl) as (Ho & Hd & Hn & Hc).
    assert (Hst : forall z, stops names (pop s) z = stops names s z).
    { intro z. unfold stops, hname_html. rewrite Hd, Hn. reflexivity. }
    assert (Hex' : exists y, In y l0 /\ stops names (pop s) y = true).
    { destruct Hex as [y [Hy Hsy]]. apply in_app_or in Hy as [Hy|[<-|[]]].
      - exists y. rewrite Hst. split; assumption.
      - congruence. }
    assert (Hf' : (length l0 < f)%nat) by (rewrite app_length in Hf; cbn in Hf; lia).
    destruct (IH l0 (pop s) Ho Hf' Hex') as (Hc' & Hd' & k & y & Hk & Hn' & Hsy & Hall).
    split; [congruence|]. split; [congruence|]. exists k, y.
    assert (Hkl : (k < length l0)%nat) by (apply nth_error_Some; congruence).
    split; [rewrite Hk, firstn_app; replace (Datatypes.S k - length l0)%nat with 0%nat by lia; cbn [firstn]; rewrite app_nil_r; reflexivity|].
    split; [rewrite nth_error_app1 by exact Hkl; exact Hn'|]. split; [rewrite <- Hst; exact Hsy|].
    intros z Hz. rewrite skipn_app in Hz. apply in_app_or in Hz as [Hz|Hz].
    + rewrite <- Hst. exact (Hall z Hz).
    + replace (Datatypes.S k - length l0)%nat with 0%nat in Hz by lia. cbn [skipn] in Hz. destruct Hz as [<-|[]]. exact Esx.
Qed.

(* with the html element (HTML namespace) anywhere on the stack -- it is always at the bottom -- clearing back to a
   table / table body / table row context never indexes an empty stack, changes nothing but the stack, and leaves
   exactly the elements up to the topmost HTML table|tbody|tfoot|thead|tr|html element *)
Theorem clear_stack_total names s r :
  In r (opn s) -> ens (d s) r = htmlns s -> name_in (ename (d s) r) names = true ->
  crash (pop_while_not_html names s) = crash s /\ d (pop_while_not_html names s) = d s /\
  exists k y, opn (pop_while_not_html names s) = firstn (Datatypes.S k) (opn s) /\ nth_error (opn s) k = Some y /\
              stops names s y = true /\ forall z, In z (skipn (Datatypes.S k) (opn s)) -> stops names s z = false.
Proof.
  intros Hr Hns Hnm. unfold pop_while_not_html.
  apply (clear_stack_spec names (Datatypes.S (length (opn s))) (opn s) s eq_refl (Nat.lt_succ_diag_r _)).
  exists r. split; [exact Hr|]. unfold stops, hname_html. rewrite Hns.
  replace (opt_str_eqb (htmlns s) (htmlns s)) with true; [exact Hnm|].
  symmetry. unfold opt_str_eqb. destruct (htmlns s); [apply str_eqb_refl|reflexivity].
Qed.

Theorem pop_to_root_spec s : opn (pop_to_root s) = firstn 1 (opn s) /\ d (pop_to_root s) = d s /\ crash (pop_to_root s) = crash s.
Proof. repeat split. Qed.

(* ---- "has an element in scope" ---- *)
(* the walk answers yes exactly when, reading the stack from the top, a target element comes before any element of
   the scope's stop list (for the select scope: before any element NOT on its list) *)
Lemma in_scope_go_true s hit lst inv : forall rs,
  in_scope_go s hit lst inv rs = Some true <->
  exists pre x post, rs = pre ++ x :: post /\ hit x = true /\
                     forall y, In y pre -> hit y = false /\ xorb inv (mem_pair (name_tuple s y) lst) = false.
Proof.
  induction rs as [|x rs IH]; cbn [in_scope_go].
  - split; [discriminate|]. intros (pre & x & post & H & _). destruct pre; discriminate H.
  - destruct (hit x) eqn:Eh.
    + split; [intros _|reflexivity]. exists [], x, rs. split; [reflexivity|]. split; [exact Eh|]. intros y0 [].
    + destruct (xorb inv (mem_pair (name_tuple s x) lst)) eqn:Ex.
      * split; [discriminate|]. intros (pre & z & post & H & Hz & Hpre). destruct pre as [|p pre].
        -- injection H as -> _. congruence.
        -- injection H as -> _. destruct (Hpre p (or_introl eq_refl)) as [_ Hp]. congruence.
      * rewrite IH. split.
        -- intros (pre & z & post & -> & Hz & Hpre). exists (x :: pre), z, post. split; [reflexivity|]. split; [exact Hz|].
           intros y0 [<-|Hy]; [split; [exact Eh|exact Ex] | exact (Hpre y0 Hy)].
        -- intros (pre & z & post & H & Hz & Hpre). destruct pre as [|p pre].
           ++ injection H as -> _. congruence.
           ++ injection H as -> ->. exists pre, z, post. split; [reflexivity|]. split; [exact Hz|].
              intros y0 Hy. apply Hpre. right. exact Hy.
Qed.

Definition is_html_named (s : ps) (n : str) (x : nat) : bool :=
  let t := name_tuple s x in str_eqb (fst t) html_ns && str_eqb (snd t) n.

Theorem in_scope_meaning n v s :
  in_scope_str n v s = true <->
  exists pre x post, rev (opn s) = pre ++ x :: post /\ is_html_named s n x = true /\
    forall y, In y pre -> is_html_named s n y = false /\
                          xorb (snd (scope_set v)) (mem_pair (name_tuple s y) (fst (scope_set v))) = false.
Proof.
  unfold in_scope_str. destruct (scope_set v) as [lst inv] eqn:Ev. cbn [fst snd].
  rewrite <- (in_scope_go_true s (is_html_named s n) lst inv (rev (opn s))). unfold is_html_named.
  destruct (in_scope_go s _ lst inv (rev (opn s))) as [[|]|]; split; intro H; try reflexivity; try discriminate H.
Qed.
