(* C08tag -- what Ser writes for start tags, end tags, text and whitespace is read back by S_tok (the WHATWG
   tokenizer transcription) as exactly those tokens; with comments (C08comment) and doctypes (C08doctype) lifted to
   whole streams without raw-text elements. *)
From Coq Require Import NArith List Bool Arith Lia ZifyBool ZifyN.
From Verif Require Import Sx Str Tok.
From Verif.Gen Require Import Consts Entities Serializer.
From Verif.Model Require Import CharRef TokBase Ser.
From Verif.Spec Require Import CharRef TokSpec.
From Verif.Proofs Require Import C08 SpecTac.
From Verif.Proofs Require Import C08comment C08doctype.
Import ListNotations.
Local Open Scope N_scope.

(* characters a tag name may contain after its first letter / an attribute name may contain *)
Definition tname_char (c : N) : bool :=
  negb (is_space c) && negb (c =? 47) && negb (c =? 62) && negb (c =? 0).
Definition aname_char (c : N) : bool := tname_char c && negb (c =? 61).

Lemma batch_tagname : forall l rest e n a sc t o cd, forallb tname_char l = true ->
  sp_iter (length l) (mk_tk tagNameState (l ++ rest) (CTag e n a sc) t o cd false)
  = Some (mk_tk tagNameState rest (CTag e (n ++ lower_str l) a sc) t o cd false).
Proof.
  induction l as [|c l IH]; intros rest e n a sc t o cd Hl.
  - cbn. rewrite app_nil_r. reflexivity.
  - cbn [forallb] in Hl. apply andb_true_iff in Hl as [Hc Hl].
    cbn [length app]. erewrite sp_iter_step.
    2:{ unfold tname_char in Hc. s_step. }
    cbn [tl]. rewrite IH by exact Hl. rewrite <- app_assoc. reflexivity.
Qed.

Lemma forallb_impl {T} (f g : T -> bool) l : (forall x, f x = true -> g x = true) -> forallb f l = true -> forallb g l = true.
Proof. intros H. induction l as [|x l IH]; [reflexivity|]. cbn [forallb]. intro Hl. apply andb_true_iff in Hl as [H1 H2]. rewrite (H x H1), (IH H2). reflexivity. Qed.

Lemma lc_id c : is_upper c = false -> lc c = c.
Proof. intro H. unfold lc, ascii_lower. rewrite H. reflexivity. Qed.
Lemma lower_str_id l : forallb (fun c => negb (is_upper c)) l = true -> lower_str l = l.
Proof.
  induction l as [|c l IH]; [reflexivity|]. cbn [forallb]. intro H. apply andb_true_iff in H as [Hc Hl].
  unfold lower_str in *. cbn [map]. rewrite IH by exact Hl. unfold ascii_lower. apply negb_true_iff in Hc. rewrite Hc. reflexivity.
Qed.
(* the four configurations in which S_tok can stand after a tag name / an attribute *)
Definition ending (E : tstate) : Prop :=
  E = tagNameState \/ E = attributeNameState \/ E = attributeValueUnQuotedState \/ E = afterAttributeValueState.
(* attributeNameState and the unquoted state need an attribute to exist *)
Definition fits (E : tstate) (A : pairs) : Prop := E = tagNameState \/ E = afterAttributeValueState \/ A <> [].

Ltac s_compute ::= repeat (erewrite sp_iter_step; [ | solve [s_step] ]; cbn [tl]); cbn [sp_iter].
Ltac fin := repeat match goal with H : lc _ = _ |- _ => rewrite !H end; cbn [app]; rewrite <- ?app_assoc; cbn [app]; reflexivity.
Ltac find_j :=
  first [ (exists 1%nat; s_compute; fin) | (exists 2%nat; s_compute; fin)
        | (exists 3%nat; s_compute; fin) | (exists 4%nat; s_compute; fin)
        | (exists 5%nat; s_compute; fin) ].

(* a space and the first character of an attribute name *)
Lemma space_then_name E n A c i t o cd : ending E -> fits E A -> aname_char c = true ->
  exists j, sp_iter j (mk_tk E (32 :: c :: i) (CTag false n A false) t o cd false)
            = Some (mk_tk attributeNameState i (CTag false n (A ++ [([lc c], [])]) false) t o cd false).
Proof.
  intros HE HF Hc. unfold aname_char, tname_char in Hc.
  destruct HE as [HE|[HE|[HE|HE]]]; subst E.
  - find_j.
  - destruct HF as [HF|[HF|HF]]; try discriminate HF.
    destruct (exists_last_pairs A HF) as (a0 & an & av & ->). find_j.
  - destruct HF as [HF|[HF|HF]]; try discriminate HF.
    destruct (exists_last_pairs A HF) as (a0 & an & av & ->). find_j.
  - find_j.
Qed.

(* the rest of an attribute name *)
Lemma name_rest : forall l rest n a0 an av t o cd, forallb aname_char l = true ->
  sp_iter (length l) (mk_tk attributeNameState (l ++ rest) (CTag false n (a0 ++ [(an, av)]) false) t o cd false)
  = Some (mk_tk attributeNameState rest (CTag false n (a0 ++ [(an ++ lower_str l, av)]) false) t o cd false).
Proof.
  intros l rest n a0 an av t o cd Hl.
  rewrite (batch_name attributeNameState aname_char); [reflexivity | | exact Hl].
  intros c r e n' a0' an' av' sc t' o' cd' Hc. unfold aname_char, tname_char in Hc.
  s_step.
Qed.

(* ---- unquoted values ---- *)
Definition unq_ok (c : N) : bool := negb (is_space c) && negb (c =? 62) && negb (c =? 34) && negb (c =? 39).
Definition escu (lt : bool) (x : N) : str := if x =? 38 then s_amp else if lt && (x =? 60) then s_lt else [x].

Lemma unquoted_body lt : forall v rest e n a0 an av sc tm o cd, forallb unq_ok v = true ->
  exists j, sp_iter j (mk_tk attributeValueUnQuotedState (flat_map (escu lt) v ++ rest) (CTag e n (a0 ++ [(an, av)]) sc) tm o cd false)
            = Some (mk_tk attributeValueUnQuotedState rest (CTag e n (a0 ++ [(an, av ++ map nulfix v)]) sc) tm o cd false).
Proof.
  induction v as [|x v IH]; intros rest e n a0 an av sc tm o cd Hv.
  - exists 0%nat. cbn [map]. rewrite app_nil_r. reflexivity.
  - cbn [forallb] in Hv. apply andb_true_iff in Hv as [Hx Hv]. cbn [flat_map]. rewrite <- app_assoc.
    assert (Hs : sp_step (mk_tk attributeValueUnQuotedState (escu lt x ++ flat_map (escu lt) v ++ rest)
                            (CTag e n (a0 ++ [(an, av)]) sc) tm o cd false)
                 = (mk_tk attributeValueUnQuotedState (flat_map (escu lt) v ++ rest)
                      (CTag e n (a0 ++ [(an, av ++ [nulfix x])]) sc) tm o cd false, true)).
    { unfold escu at 1.
      destruct (N.eqb_spec x 38) as [->|H38].
      { change (s_amp ++ flat_map (escu lt) v ++ rest) with (38 :: k_amp ++ flat_map (escu lt) v ++ rest).
        unfold sp_step. cbv beta iota zeta delta [peek]. cbn [st inp hd_error]. eval_ground. cbv beta iota.
        unfold charref_attr, advance, set_inp. cbn [st inp cur tmp out cdata_ok bad tl]. rewrite charref_amp.
        cbn [st inp cur tmp out cdata_ok bad]. rewrite attr_val_app_snoc. reflexivity. }
      destruct (lt && (x =? 60)) eqn:Elt.
      { apply andb_true_iff in Elt as [_ E60]. apply N.eqb_eq in E60. subst x.
        change (s_lt ++ flat_map (escu lt) v ++ rest) with (38 :: k_lt ++ flat_map (escu lt) v ++ rest).
        unfold sp_step. cbv beta iota zeta delta [peek]. cbn [st inp hd_error]. eval_ground. cbv beta iota.
        unfold charref_attr, advance, set_inp. cbn [st inp cur tmp out cdata_ok bad tl]. rewrite charref_lt.
        cbn [st inp cur tmp out cdata_ok bad]. rewrite attr_val_app_snoc. reflexivity. }
      cbn [app]. apply N.eqb_neq in H38. unfold unq_ok in Hx. s_step. }
    destruct (IH rest e n a0 an (av ++ [nulfix x]) sc tm o cd Hv) as [j Hj].
    exists (Datatypes.S j). cbn [sp_iter]. rewrite Hs. cbv beta iota zeta. refine (eq_trans Hj _). cbn [map]. rewrite <- app_assoc. reflexivity.
Qed.

(* ---- "=" and the value, from the attribute name state ---- *)
Lemma value_quoted q lt v rest n a0 an tm o cd : q = 34 \/ q = 39 ->
  exists j, sp_iter j (mk_tk attributeNameState (61 :: q :: flat_map (escq q lt) v ++ q :: rest)
                         (CTag false n (a0 ++ [(an, [])]) false) tm o cd false)
            = Some (mk_tk afterAttributeValueState rest (CTag false n (a0 ++ [(an, map nulfix v)]) false) tm o cd false).
Proof.
  intros [-> | ->].
  - destruct (dq_value_roundtrip lt v rest false n a0 an [] false tm o cd false) as [j Hj].
    exists (2 + j)%nat. erewrite sp_iter_app; [exact Hj|]. s_compute. reflexivity.
  - destruct (sq_value_roundtrip lt v rest false n a0 an [] false tm o cd false) as [j Hj].
    exists (2 + j)%nat. erewrite sp_iter_app; [exact Hj|]. s_compute. reflexivity.
Qed.

Lemma escu_head lt x : unq_ok x = true ->
  exists h t, escu lt x = h :: t /\ (h =? 34) = false /\ (h =? 39) = false /\ (h =? 62) = false /\ is_space h = false.
Proof.
  intro Hx. unfold escu. destruct (x =? 38); [exists 38, k_amp; repeat split|].
  destruct (lt && (x =? 60)); [exists 38, k_lt; repeat split|].
  exists x, []. unfold unq_ok in Hx. repeat split; lia.
Qed.

Lemma value_unquoted lt x v rest n a0 an tm o cd : forallb unq_ok (x :: v) = true ->
  exists j, sp_iter j (mk_tk attributeNameState (61 :: flat_map (escu lt) (x :: v) ++ rest)
                         (CTag false n (a0 ++ [(an, [])]) false) tm o cd false)
            = Some (mk_tk attributeValueUnQuotedState rest (CTag false n (a0 ++ [(an, map nulfix (x :: v))]) false) tm o cd false).
Proof.
  intro Hv. destruct (unquoted_body lt (x :: v) rest false n a0 an [] false tm o cd Hv) as [j Hj].
  exists (2 + j)%nat. erewrite sp_iter_app; [exact Hj|].
  cbn [forallb] in Hv. apply andb_true_iff in Hv as [Hx _].
  destruct (escu_head lt x Hx) as (h & t & Eh & H34 & H39 & H62 & Hsp).
  cbn [flat_map]. rewrite Eh. cbn [app]. s_compute. reflexivity.
Qed.

(* ---- one attribute as Ser writes it ---- *)
Definition rd_attr (o : sopts) (elem : str) (x : attr) : str * str :=
  (lower_str (snd (fst x)), if attr_has_value o elem x then map nulfix (snd x) else []).
Definition estate (o : sopts) (elem : str) (x : attr) : tstate :=
  if attr_has_value o elem x then (if needs_quote o (snd x) then afterAttributeValueState else attributeValueUnQuotedState)
  else attributeNameState.
Definition aname_ok (k : str) : bool := match k with c :: k' => aname_char c && forallb aname_char k' | [] => false end.
Definition qc_ok (o : sopts) : Prop := quote_char o = 34 \/ quote_char o = 39.

Lemma class_excl c : (in_ranges quote_spec_class c = false \/ in_ranges quote_legacy_class c = false) -> unq_ok c = true.
Proof.
  intro H. destruct (unq_ok c) eqn:E; [reflexivity|]. exfalso.
  assert (Hc : c = 9 \/ c = 10 \/ c = 12 \/ c = 13 \/ c = 32 \/ c = 62 \/ c = 34 \/ c = 39)
    by (unfold unq_ok, is_space in E; lia).
  destruct Hc as [->|[->|[->|[->|[->|[->|[->| ->]]]]]]]; destruct H as [H|H]; vm_compute in H; discriminate H.
Qed.
Lemma needs_quote_false o v : needs_quote o v = false -> v <> [] /\ forallb unq_ok v = true.
Proof.
  unfold needs_quote. destruct v as [|x v]; [discriminate|]. intro H. split; [discriminate|].
  destruct (quote_mode o =? 0); [discriminate H|].
  apply forallb_forall. intros c Hc. apply class_excl.
  destruct (quote_mode o =? 1); [left|right];
    (destruct (in_ranges _ c) eqn:Ec; [|reflexivity]; exfalso;
     assert (Hx : existsb (in_ranges _) (x :: v) = true) by (apply existsb_exists; exists c; split; [exact Hc|exact Ec]);
     congruence).
Qed.
Lemma two_passes (lt : bool) (v : str) :
  (if lt then replace_char 60 s_lt (replace_char 38 s_amp v) else replace_char 38 s_amp v) = flat_map (escu lt) v.
Proof.
  unfold replace_char. destruct lt.
  - rewrite flat_map_flat_map. apply flat_map_ext. intro x. unfold escu. cbn [andb].
    destruct (N.eqb_spec x 38) as [->|H]; [reflexivity|]. rewrite flat_map_single. reflexivity.
  - apply flat_map_ext. intro x. unfold escu. cbn [andb]. reflexivity.
Qed.
Lemma unquoted_form o v : needs_quote o v = false -> ser_attr_value o v = flat_map (escu (escape_lt o)) v.
Proof. intro H. unfold ser_attr_value. rewrite H. apply two_passes. Qed.
Lemma quote_choice o v : qc_ok o ->
  let v2 := if escape_lt o then replace_char 60 s_lt (replace_char 38 s_amp v) else replace_char 38 s_amp v in
  let q := if best_quote o then if has_char 39 v2 && negb (has_char 34 v2) then 34
                                else if has_char 34 v2 && negb (has_char 39 v2) then 39 else quote_char o
           else quote_char o in
  q = 34 \/ q = 39.
Proof.
  intros Hq v2 q. subst q. destruct (best_quote o); [|exact Hq].
  destruct (has_char 39 v2 && negb (has_char 34 v2)); [left; reflexivity|].
  destruct (has_char 34 v2 && negb (has_char 39 v2)); [right; reflexivity|exact Hq].
Qed.

Lemma one_attr o elem x E n A rest t out cd : qc_ok o -> aname_ok (snd (fst x)) = true -> ending E -> fits E A ->
  exists j, sp_iter j (mk_tk E (ser_attr o elem x ++ rest) (CTag false n A false) t out cd false)
            = Some (mk_tk (estate o elem x) rest (CTag false n (A ++ [rd_attr o elem x]) false) t out cd false).
Proof.
  intros Hq Hk HE HF. unfold ser_attr, rd_attr, estate. cbv zeta.
  destruct x as [[ns k] v]. cbn [fst snd] in *. set (x := (ns, k, v)) in *.
  destruct k as [|c k']; [discriminate Hk|]. cbn [aname_ok] in Hk. apply andb_true_iff in Hk as [Hc Hk'].
  cbn [app]. rewrite <- app_assoc.
  destruct (space_then_name E n A c ((k' ++ (if attr_has_value o elem x then [61] ++ ser_attr_value o v else [])) ++ rest) t out cd HE HF Hc) as [j1 H1].
  rewrite <- app_assoc in H1.
  pose proof (name_rest k' ((if attr_has_value o elem x then [61] ++ ser_attr_value o v else []) ++ rest) n A [lc c] [] t out cd Hk') as H2.
  change ([lc c] ++ lower_str k') with (lower_str (c :: k')) in H2.
  destruct (attr_has_value o elem x).
  - destruct (needs_quote o v) eqn:En.
    + pose proof (quote_choice o v Hq) as Hqq. cbv zeta in Hqq.
      rewrite (quoted_form o v En Hqq) in *.
      match type of Hqq with ?qe = 34 \/ _ => set (q := qe) in * end.
      cbn [app] in *; rewrite <- ?app_assoc in *; cbn [app] in *.
      destruct (value_quoted q (escape_lt o) v rest n A (lower_str (c :: k')) t out cd Hqq) as [j3 H3].
      exists (j1 + (length k' + j3))%nat.
      erewrite sp_iter_app; [|exact H1]. erewrite sp_iter_app; [|exact H2]. exact H3.
    + destruct (needs_quote_false o v En) as [Hne Hv]. rewrite (unquoted_form o v En) in *.
      destruct v as [|y v']; [congruence|].
      cbn [app] in H1, H2 |- *; rewrite <- ?app_assoc in H1, H2 |- *; cbn [app] in H1, H2 |- *.
      destruct (value_unquoted (escape_lt o) y v' rest n A (lower_str (c :: k')) t out cd Hv) as [j3 H3].
      exists (j1 + (length k' + j3))%nat.
      erewrite sp_iter_app; [|exact H1]. erewrite sp_iter_app; [|exact H2].
      cbn [app]. exact H3.
  - exists (j1 + length k')%nat. erewrite sp_iter_app; [|exact H1]. cbn [app] in *. exact H2.
Qed.

Lemma estate_ending o elem x : ending (estate o elem x).
Proof. unfold estate, ending. destruct (attr_has_value o elem x); [destruct (needs_quote o (snd x))|]; tauto. Qed.

Definition last_state (o : sopts) (elem : str) (E : tstate) (a : attrs) : tstate :=
  match rev a with x :: _ => estate o elem x | [] => E end.

Lemma last_state_cons o elem E (x : attr) (a : attrs) : last_state o elem E (x :: a) = last_state o elem (estate o elem x) a.
Proof. unfold last_state. cbn [rev]. destruct (rev a); reflexivity. Qed.

Lemma attrs_loop o elem : qc_ok o -> forall a E n A rest t out cd,
  forallb (fun x => aname_ok (snd (fst x))) a = true -> ending E -> fits E A ->
  exists j, sp_iter j (mk_tk E (flat_map (ser_attr o elem) a ++ rest) (CTag false n A false) t out cd false)
            = Some (mk_tk (last_state o elem E a) rest (CTag false n (A ++ map (rd_attr o elem) a) false) t out cd false).
Proof.
  intros Hq a. induction a as [|x a IH]; intros E n A rest t out cd Ha HE HF.
  - exists 0%nat. cbn. rewrite app_nil_r. reflexivity.
  - cbn [forallb] in Ha. apply andb_true_iff in Ha as [Hx Ha].
    cbn [flat_map]. rewrite <- app_assoc.
    destruct (one_attr o elem x E n A (flat_map (ser_attr o elem) a ++ rest) t out cd Hq Hx HE HF) as [j1 H1].
    assert (HF' : fits (estate o elem x) (A ++ [rd_attr o elem x])) by (right; right; destruct A; discriminate).
    destruct (IH (estate o elem x) n (A ++ [rd_attr o elem x]) rest t out cd Ha (estate_ending o elem x) HF') as [j2 H2].
    exists (j1 + j2)%nat. erewrite sp_iter_app; [|exact H1]. rewrite H2. f_equal. f_equal.
    + symmetry. apply last_state_cons.
    + cbn [map]. rewrite <- app_assoc. reflexivity.
Qed.

(* ---- the end of the tag ---- *)
Lemma first_wins_nodup : forall (l : pairs) seen, (forall x, In x l -> mem_str (fst x) seen = false) -> NoDup (map fst l) ->
  first_wins seen l = l.
Proof.
  induction l as [|[n v] l IH]; intros seen Hs Hn; [reflexivity|].
  cbn [first_wins]. pose proof (Hs (n, v) (or_introl eq_refl)) as H0. cbn [fst] in H0. rewrite H0. f_equal.
  inversion Hn as [|? ? Hnot Hn']; subst. apply IH; [|exact Hn'].
  intros x Hx. pose proof (Hs x (or_intror Hx)) as H1. unfold mem_str in *. cbn [existsb]. rewrite H1.
  destruct (str_eqb (fst x) n) eqn:E; [|reflexivity]. apply str_eqb_eq in E. exfalso. apply Hnot. rewrite <- E. apply in_map. exact Hx.
Qed.

Lemma tag_close E n A rest t out cd : ending E -> fits E A ->
  exists j, sp_iter j (mk_tk E (62 :: rest) (CTag false n A false) t out cd false)
            = Some (mk_tk dataState rest (CTag false n A false) t (OStart n (first_wins [] A) false :: out) cd false).
Proof.
  intros HE HF. destruct HE as [HE|[HE|[HE|HE]]]; subst E.
  - find_j.
  - destruct HF as [HF|[HF|HF]]; try discriminate HF. destruct (exists_last_pairs A HF) as (a0 & an & av & ->). find_j.
  - destruct HF as [HF|[HF|HF]]; try discriminate HF. destruct (exists_last_pairs A HF) as (a0 & an & av & ->). find_j.
  - find_j.
Qed.
Lemma tag_close_space_solidus E n A rest t out cd : ending E -> fits E A ->
  exists j, sp_iter j (mk_tk E (32 :: 47 :: 62 :: rest) (CTag false n A false) t out cd false)
            = Some (mk_tk dataState rest (CTag false n A true) t (OStart n (first_wins [] A) true :: out) cd false).
Proof.
  intros HE HF. destruct HE as [HE|[HE|[HE|HE]]]; subst E.
  - find_j.
  - destruct HF as [HF|[HF|HF]]; try discriminate HF. destruct (exists_last_pairs A HF) as (a0 & an & av & ->). find_j.
  - destruct HF as [HF|[HF|HF]]; try discriminate HF. destruct (exists_last_pairs A HF) as (a0 & an & av & ->). find_j.
  - find_j.
Qed.
Lemma tag_close_solidus E n A rest t out cd : ending E -> fits E A -> E <> attributeValueUnQuotedState ->
  exists j, sp_iter j (mk_tk E (47 :: 62 :: rest) (CTag false n A false) t out cd false)
            = Some (mk_tk dataState rest (CTag false n A true) t (OStart n (first_wins [] A) true :: out) cd false).
Proof.
  intros HE HF HU. destruct HE as [HE|[HE|[HE|HE]]]; subst E; try congruence.
  - find_j.
  - destruct HF as [HF|[HF|HF]]; try discriminate HF. destruct (exists_last_pairs A HF) as (a0 & an & av & ->). find_j.
  - find_j.
Qed.

Lemma last_quoted_unq o elem (a : attrs) E :
  last_state o elem E a = attributeValueUnQuotedState -> E <> attributeValueUnQuotedState -> last_quoted o elem a = false.
Proof.
  unfold last_state, last_quoted. intros H HE.
  destruct (rev a) as [|x r] eqn:Er; [congruence|].
  assert (Ha : a = rev r ++ [x]) by (rewrite <- (rev_involutive a), Er; reflexivity).
  rewrite Ha, fold_left_app. cbn [fold_left]. unfold estate in H.
  destruct (attr_has_value o elem x); [|discriminate H]. destruct (needs_quote o (snd x)); [discriminate H|reflexivity].
Qed.
Lemma last_state_ending o elem E (a : attrs) : ending E -> ending (last_state o elem E a).
Proof. intro HE. unfold last_state. destruct (rev a); [exact HE|apply estate_ending]. Qed.

Definition tname_ok (n : str) : bool := match n with c :: n' => is_alpha c && forallb tname_char n' | [] => false end.

(* START TAGS.  Whatever the options (quoting mode, quote character, minimised booleans, trailing solidus, ...),
   the text Ser writes for a start tag -- name: a letter then anything but whitespace, "/", ">", NUL; attribute
   names: non-empty, nothing of whitespace, "/", ">", "=", NUL; ANY values --
   is read by S_tok from the data state as exactly one start tag with that (lower-cased) name, those
   (lower-cased) attribute names in order with those values (U+0000 as U+FFFD; the value of a minimised boolean
   attribute is not written and reads as empty; of attributes whose written names coincide the first wins --
   none is dropped when the lower-cased names are distinct, [first_wins_nodup]), self-closing iff Ser wrote the
   solidus, and S_tok is back in the data state right behind the ">". *)
Theorem start_tag_roundtrip o (empty : bool) name (a : attrs) rest cu t out cd :
  qc_ok o -> tname_ok name = true -> forallb (fun x => aname_ok (snd (fst x))) a = true ->
  let sc := empty && mem_str name voidElements && solidus o in
  exists j, sp_iter j (mk_tk dataState (ser_start o empty name a ++ rest) cu t out cd false)
            = Some (mk_tk dataState rest (CTag false (lower_str name) (map (rd_attr o name) a) sc) t
                      (OStart (lower_str name) (first_wins [] (map (rd_attr o name) a)) sc :: out) cd false).
Proof.
  intros Hq Hn Ha sc. unfold ser_start.
  destruct name as [|c0 n']; [discriminate Hn|]. cbn [tname_ok] in Hn. apply andb_true_iff in Hn as [Hc0 Hn'].
  set (name := c0 :: n') in *.
  set (tail := (if empty && mem_str name voidElements && solidus o
                then if space_solidus o || negb (last_quoted o name a) then [32; 47] else [47] else []) ++ [62]).
  assert (H1 : sp_iter 3 (mk_tk dataState ([60] ++ name ++ flat_map (ser_attr o name) a ++ tail ++ rest) cu t out cd false)
               = Some (mk_tk tagNameState (n' ++ flat_map (ser_attr o name) a ++ tail ++ rest) (CTag false [lc c0] [] false) t out cd false)).
  { unfold name. cbn [app]. unfold is_alpha, is_lower, is_upper in Hc0. s_compute. fin. }
  pose proof (batch_tagname n' (flat_map (ser_attr o name) a ++ tail ++ rest) false [lc c0] [] false t out cd Hn') as H2.
  change ([lc c0] ++ lower_str n') with (lower_str name) in H2.
  destruct (attrs_loop o name Hq a tagNameState (lower_str name) [] (tail ++ rest) t out cd Ha (or_introl eq_refl) (or_introl eq_refl)) as [j3 H3].
  cbn [app] in H3.
  set (E := last_state o name tagNameState a) in *.
  set (A := map (rd_attr o name) a) in *.
  assert (HE : ending E) by (apply last_state_ending; left; reflexivity).
  assert (HF : fits E A).
  { unfold fits, E, A, last_state. destruct (rev a) as [|x r] eqn:Er; [left; reflexivity|].
    right; right. destruct a; [discriminate Er|discriminate]. }
  assert (H4 : exists j, sp_iter j (mk_tk E (tail ++ rest) (CTag false (lower_str name) A false) t out cd false)
                         = Some (mk_tk dataState rest (CTag false (lower_str name) A sc) t (OStart (lower_str name) (first_wins [] A) sc :: out) cd false)).
  { unfold tail, sc. destruct (empty && mem_str name voidElements && solidus o).
    - destruct (space_solidus o || negb (last_quoted o name a)) eqn:Esp.
      + cbn [app]. destruct (tag_close_space_solidus E (lower_str name) A rest t out cd HE HF) as [j Hj]. exists j. exact Hj.
      + cbn [app]. assert (HU : E <> attributeValueUnQuotedState).
        { intro HU. apply orb_false_elim in Esp as [_ Esp]. apply negb_false_iff in Esp.
          rewrite (last_quoted_unq o name a tagNameState HU ltac:(discriminate)) in Esp. discriminate Esp. }
        destruct (tag_close_solidus E (lower_str name) A rest t out cd HE HF HU) as [j Hj]. exists j. exact Hj.
    - cbn [app]. destruct (tag_close E (lower_str name) A rest t out cd HE HF) as [j Hj]. exists j. exact Hj. }
  destruct H4 as [j4 H4].
  exists (3 + (length n' + (j3 + j4)))%nat.
  rewrite <- !app_assoc. fold tail.
  erewrite sp_iter_app; [|exact H1]. erewrite sp_iter_app; [|exact H2]. erewrite sp_iter_app; [|exact H3]. exact H4.
Qed.

(* END TAGS *)
Theorem end_tag_roundtrip name rest cu t out cd : tname_ok name = true ->
  exists j, sp_iter j (mk_tk dataState ([60; 47] ++ name ++ [62] ++ rest) cu t out cd false)
            = Some (mk_tk dataState rest (CTag true (lower_str name) [] false) t (OEnd (lower_str name) [] false :: out) cd false).
Proof.
  intro Hn. destruct name as [|c0 n']; [discriminate Hn|]. cbn [tname_ok] in Hn. apply andb_true_iff in Hn as [Hc0 Hn'].
  assert (H1 : sp_iter 4 (mk_tk dataState ([60; 47] ++ (c0 :: n') ++ [62] ++ rest) cu t out cd false)
               = Some (mk_tk tagNameState (n' ++ [62] ++ rest) (CTag true [lc c0] [] false) t out cd false)).
  { cbn [app]. unfold is_alpha, is_lower, is_upper in Hc0. s_compute. fin. }
  pose proof (batch_tagname n' ([62] ++ rest) true [lc c0] [] false t out cd Hn') as H2.
  change ([lc c0] ++ lower_str n') with (lower_str (c0 :: n')) in H2.
  exists (4 + (length n' + 1))%nat.
  erewrite sp_iter_app; [|exact H1]. erewrite sp_iter_app; [|exact H2]. cbn [app]. s_compute. reflexivity.
Qed.

(* inter-element whitespace is written as it is *)
Lemma space_roundtrip s rest cu t out cd : forallb is_space s = true ->
  sp_iter (length s) (mk_tk dataState (s ++ rest) cu t out cd false)
  = Some (mk_tk dataState rest cu t (singles_r s ++ out) cd false).
Proof.
  intro Hs. apply (batch_emit dataState is_space); [|exact Hs].
  intros c r cu' t' o' cd' Hc. unfold is_space in Hc. s_step.
Qed.

(* ---- a whole stream of text, whitespace, start and end tags ---- *)
Definition safe_tok (o : sopts) (t : token) : Prop :=
  match t with
  | TChars _ => True
  | TSpace s => forallb is_space s = true
  | TStart _ n a | TEmpty _ n a =>
      tname_ok n = true /\ (mem_str n rcdataElements && negb (escape_rcdata o)) = false /\
      forallb (fun x : attr => aname_ok (snd (fst x))) a = true
  | TEnd _ n => tname_ok n = true
  | TComment d => no_dd d = true /\ starts_with [62] d = false /\ starts_with [45; 62] d = false   (* iff Ser reports no error *)
  | TDoctype (Some n) pub sys =>
      dname_ok n = true /\ (nonempty pub = true -> id_ok (oget pub) = true) /\ (nonempty sys = true -> id_ok (oget sys) = true)
  | _ => False
  end.
Definition rd_tok (o : sopts) (t : token) : list otok :=
  match t with
  | TChars s | TSpace s => map (fun c => OChars [c]) s
  | TStart _ n a => [OStart (lower_str n) (first_wins [] (map (rd_attr o n) a)) false]
  | TEmpty _ n a => [OStart (lower_str n) (first_wins [] (map (rd_attr o n) a)) (mem_str n voidElements && solidus o)]
  | TEnd _ n => [OEnd (lower_str n) [] false]
  | TComment d => [OComment (map nulfix d)]
  | TDoctype (Some n) pub sys => [ODoctype (rdn n) (rd_id pub) (rd_id sys) true]
  | _ => []
  end.

Theorem stream_roundtrip o : qc_ok o -> forall ts txt errs rest cu tm out cd,
  Forall (safe_tok o) ts -> ser_loop o false ts = Some (txt, errs) ->
  exists j cu', sp_iter j (mk_tk dataState (txt ++ rest) cu tm out cd false)
                = Some (mk_tk dataState rest cu' tm (rev (flat_map (rd_tok o) ts) ++ out) cd false).
Proof.
  intros Hq ts. induction ts as [|tk0 ts IH]; intros txt errs rest cu tm out cd Hs Hl.
  - cbn in Hl. inversion Hl; subst. exists 0%nat, cu. reflexivity.
  - inversion Hs as [|? ? Ht Hts]; subst. cbn [ser_loop] in Hl.
    destruct (ser_token o false tk0) as [[[c' txt0] e0]|] eqn:Etok; [|discriminate Hl].
    destruct (ser_loop o c' ts) as [[txt' e']|] eqn:Eloop; [|discriminate Hl].
    inversion Hl; subst txt errs. clear Hl. rewrite <- app_assoc.
    assert (Hstep : c' = false /\ exists j cu', sp_iter j (mk_tk dataState (txt0 ++ txt' ++ rest) cu tm out cd false)
                = Some (mk_tk dataState (txt' ++ rest) cu' tm (rev (rd_tok o tk0) ++ out) cd false)).
    { destruct tk0 as [dn dp ds|s|s|ns name a|ns name|ns name a|d|en|er|ty]; cbn [safe_tok] in Ht; try contradiction; cbn [ser_token] in Etok.
      - destruct dn as [n|]; [|contradiction]. destruct Ht as (Hn & Hp & Hs').
        destruct (ser_doctype (Some n) dp ds) as [dtxt derr] eqn:Ed. injection Etok as E1 E2 E3; subst c' txt0 e0. split; [reflexivity|].
        destruct (doctype_roundtrip n dp ds (txt' ++ rest) cu tm out cd Hn Hp Hs') as [j Hj]. rewrite Ed in Hj. cbn [fst] in Hj.
        eexists j, _. exact Hj.
      - injection Etok as E1 E2 E3; subst c' txt0 e0. split; [reflexivity|].
        destruct (text_roundtrip s (txt' ++ rest) cu tm out cd false) as [j Hj]. exists j, cu. exact Hj.
      - injection Etok as E1 E2 E3; subst c' txt0 e0. split; [reflexivity|]. exists (length s), cu. cbn [rd_tok]. apply space_roundtrip. exact Ht.
      - destruct Ht as (Hn & Hrc & Ha). rewrite Hrc in Etok. injection Etok as E1 E2 E3; subst c' txt0 e0. split; [reflexivity|].
        destruct (start_tag_roundtrip o false name a (txt' ++ rest) cu tm out cd Hq Hn Ha) as [j Hj]. eexists j, _. exact Hj.
      - injection Etok as E1 E2 E3; subst c' txt0 e0. split; [match goal with |- (if ?b then _ else _) = _ => destruct b; reflexivity end|].
        destruct (end_tag_roundtrip name (txt' ++ rest) cu tm out cd Ht) as [j Hj]. eexists j, _.
        cbn [app] in Hj |- *. rewrite <- ?app_assoc. cbn [app]. exact Hj.
      - destruct Ht as (Hn & Hrc & Ha). rewrite Hrc in Etok. injection Etok as E1 E2 E3; subst c' txt0 e0. split; [reflexivity|].
        destruct (start_tag_roundtrip o true name a (txt' ++ rest) cu tm out cd Hq Hn Ha) as [j Hj]. eexists j, _. exact Hj.
      - destruct Ht as (Hd & Hs1 & Hs2). injection Etok as E1 E2 E3; subst c' txt0 e0. split; [reflexivity|].
        destruct (comment_roundtrip d (txt' ++ rest) cu tm out cd Hd Hs1 Hs2) as [j Hj]. eexists j, _.
        cbn [rd_tok rev app]. rewrite <- !app_assoc. cbn [app] in Hj |- *. rewrite <- ?app_assoc. cbn [app]. exact Hj. }
    destruct Hstep as (-> & j1 & cu1 & H1).
    destruct (IH txt' e' rest cu1 tm (rev (rd_tok o tk0) ++ out) cd Hts Eloop) as (j2 & cu2 & H2).
    exists (j1 + j2)%nat, cu2. erewrite sp_iter_app; [|exact H1]. rewrite H2.
    cbn [flat_map]. rewrite rev_app_distr, <- app_assoc. reflexivity.
Qed.

(* "... or an error is reported": the conditions on comments are exactly Ser reporting no error *)
Definition shape_tok (o : sopts) (t : token) : Prop :=
  match t with TComment _ => True | _ => safe_tok o t end.

Lemma no_errors_safe o : forall ts txt, Forall (shape_tok o) ts -> ser_loop o false ts = Some (txt, []) -> Forall (safe_tok o) ts.
Proof.
  induction ts as [|tk0 ts IH]; intros txt Hs Hl; [constructor|].
  inversion Hs as [|? ? Ht Hts]; subst. cbn [ser_loop] in Hl.
  destruct (ser_token o false tk0) as [[[c' txt0] e0]|] eqn:Etok; [|discriminate Hl].
  destruct (ser_loop o c' ts) as [[txt' e']|] eqn:Eloop; [|discriminate Hl].
  assert (He : e0 = [] /\ e' = []) by (apply app_eq_nil; congruence).
  destruct He as [-> ->].
  assert (Hc : c' = false /\ safe_tok o tk0).
  { destruct tk0 as [dn dp ds|s|s|ns name a|ns name|ns name a|d|en|er|ty]; cbn [shape_tok safe_tok] in Ht |- *; try contradiction;
      cbn [ser_token] in Etok.
    - destruct dn as [n|]; [|contradiction]. destruct (ser_doctype (Some n) dp ds) as [dtxt derr]. inversion Etok; subst. split; [reflexivity|exact Ht].
    - inversion Etok; subst. split; [reflexivity|exact I].
    - inversion Etok; subst. split; [reflexivity|exact Ht].
    - destruct Ht as (Hn & Hrc & Ha). rewrite Hrc in Etok. inversion Etok; subst. split; [reflexivity|repeat split; assumption].
    - inversion Etok; subst. split; [|exact Ht]. match goal with |- (if ?b then _ else _) = _ => destruct b; reflexivity end.
    - destruct Ht as (Hn & Hrc & Ha). rewrite Hrc in Etok. inversion Etok; subst. split; [reflexivity|repeat split; assumption].
    - split; [inversion Etok; reflexivity|]. apply (ser_comment_ok o). cbn [ser_token]. rewrite Etok.
      inversion Etok. reflexivity. }
  destruct Hc as [-> Hsafe]. constructor; [exact Hsafe|]. exact (IH txt' Hts Eloop).
Qed.

Theorem stream_roundtrip_no_errors o : qc_ok o -> forall ts txt rest cu tm out cd,
  Forall (shape_tok o) ts -> ser_loop o false ts = Some (txt, []) ->
  exists j cu', sp_iter j (mk_tk dataState (txt ++ rest) cu tm out cd false)
                = Some (mk_tk dataState rest cu' tm (rev (flat_map (rd_tok o) ts) ++ out) cd false).
Proof.
  intros Hq ts txt rest cu tm out cd Hs Hl.
  exact (stream_roundtrip o Hq ts txt [] rest cu tm out cd (no_errors_safe o ts txt Hs Hl) Hl).
Qed.
