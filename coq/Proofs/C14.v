From Coq Require Import NArith List Bool Lia Arith.
From Verif Require Import Sx Str Tok Sweep.
From Verif.Gen Require Import Entities.
From Verif.Model Require Import CharRef.
From Verif.Spec Require Import CharRef.
Import ListNotations.
Local Open Scope N_scope.

(* ---------- tables ---------- *)
Fixpoint tbl_eqb (a b : list (str * str)) : bool :=
  match a, b with
  | [], [] => true
  | (k, v) :: a', (k', v') :: b' => str_eqb k k' && str_eqb v v' && tbl_eqb a' b'
  | _, _ => false
  end.
Fixpoint ntbl_eqb (a b : list (N * N)) : bool :=
  match a, b with
  | [], [] => true
  | (k, v) :: a', (k', v') :: b' => (k =? k') && (v =? v') && ntbl_eqb a' b'
  | _, _ => false
  end.

Lemma entities_agree_with_python : tbl_eqb entities py_html5 = true.
Proof. vm_compute. reflexivity. Qed.
Lemma replacements_agree_with_python : ntbl_eqb replacementCharacters py_invalid_charrefs = true.
Proof. vm_compute. reflexivity. Qed.
Lemma entity_count : length entities = 2231%nat.
Proof. vm_compute. reflexivity. Qed.

(* ---------- numeric: for EVERY n ---------- *)
Lemma lookup_none t n b : forallb (fun e => fst e <? b) t = true -> b <= n -> lookup_N t n = None.
Proof.
  intros H Hb. unfold lookup_N.
  assert (F : find (fun e => fst e =? n) t = None).
  { induction t as [|e t IH]; [reflexivity|]. cbn [forallb] in H. apply andb_true_iff in H as [H1 H2].
    cbn [find]. assert (E : (fst e =? n) = false) by lia. rewrite E. apply IH. exact H2. }
  rewrite F. reflexivity.
Qed.

Lemma num_small : all_below 256 (fun n => fst (num_char n) =? spec_num n) = true.
Proof. vm_compute. reflexivity. Qed.

Lemma numeric_ref_spec n : fst (num_char n) = spec_num n.
Proof.
  destruct (N.lt_ge_cases n 256) as [H|H].
  - apply N.eqb_eq. exact (all_below_spec _ _ num_small n H).
  - unfold num_char, spec_num.
    rewrite (lookup_none replacementCharacters n 256) by (try (vm_compute; reflexivity); exact H).
    rewrite (lookup_none c1_table n 256) by (try (vm_compute; reflexivity); exact H).
    assert (E0 : (n =? 0) = false) by lia. rewrite E0.
    destruct (1114111 <? n) eqn:E1.
    + rewrite orb_true_r. reflexivity.
    + rewrite orb_false_r. destruct ((55296 <=? n) && (n <=? 57343)); reflexivity.
Qed.

(* the digit string: stripping zeros and cutting at 7 significant digits does not change the result *)
Definition valid_digit (radix : N) (c : N) : bool := if radix =? 16 then is_hex c else is_digit c.

Lemma digit_val_lt radix c : (radix = 10 \/ radix = 16) -> valid_digit radix c = true -> digit_val c < radix.
Proof.
  unfold valid_digit, digit_val, is_hex, is_digit. intros [-> | ->] H; cbn [N.eqb] in H.
  - replace (10 =? 16) with false in H by reflexivity.
    rewrite H. lia.
  - replace (16 =? 16) with true in H by reflexivity.
    destruct ((48 <=? c) && (c <=? 57)) eqn:E1; [lia|].
    destruct ((65 <=? c) && (c <=? 70)) eqn:E2; [lia|]. cbn [orb] in H. lia.
Qed.

Lemma digit_val_pos radix c : (radix = 10 \/ radix = 16) -> valid_digit radix c = true -> (c =? 48) = false ->
  1 <= digit_val c.
Proof.
  unfold valid_digit, digit_val, is_hex, is_digit. intros [-> | ->] H Hz.
  - replace (10 =? 16) with false in H by reflexivity. rewrite H. lia.
  - replace (16 =? 16) with true in H by reflexivity.
    destruct ((48 <=? c) && (c <=? 57)) eqn:E1; [lia|].
    destruct ((65 <=? c) && (c <=? 70)) eqn:E2; [lia|]. cbn [orb] in H. lia.
Qed.

Definition valfrom (radix acc : N) (ds : str) : N := fold_left (fun a d => a * radix + digit_val d) ds acc.

Lemma valfrom_ge radix ds : forall acc, acc * radix ^ N.of_nat (length ds) <= valfrom radix acc ds.
Proof.
  induction ds as [|d ds IH]; intro acc; cbn [valfrom fold_left length].
  - cbn. lia.
  - specialize (IH (acc * radix + digit_val d)). unfold valfrom in IH.
    rewrite Nat2N.inj_succ, N.pow_succ_r by lia. nia.
Qed.

Lemma value_strip_zeros radix ds : value radix (drop_while (fun c => c =? 48) ds) = value radix ds.
Proof.
  unfold value. assert (G : forall ds, fold_left (fun a d => a * radix + digit_val d) ds 0 =
                          fold_left (fun a d => a * radix + digit_val d) (drop_while (fun c => c =? 48) ds) 0).
  { clear ds. induction ds as [|d ds IH]; [reflexivity|]. cbn [drop_while fold_left].
    destruct (d =? 48) eqn:E; [|reflexivity].
    apply N.eqb_eq in E. subst d. replace (0 * radix + digit_val 48) with 0 by (vm_compute; lia). exact IH. }
  symmetry. apply G.
Qed.

Lemma long_number_out_of_range radix ds :
  (radix = 10 \/ radix = 16) -> forallb (valid_digit radix) ds = true ->
  match ds with d :: _ => (d =? 48) = false | [] => True end ->
  (7 < length ds)%nat -> 1114111 < value radix ds.
Proof.
  intros Hr Hv Hz Hl. destruct ds as [|d ds]; [cbn in Hl; lia|].
  cbn [forallb] in Hv. apply andb_true_iff in Hv as [Hd _].
  unfold value. cbn [fold_left]. change (fold_left _ ds (0 * radix + digit_val d)) with (valfrom radix (0 * radix + digit_val d) ds).
  pose proof (valfrom_ge radix ds (0 * radix + digit_val d)) as G.
  pose proof (digit_val_pos radix d Hr Hd Hz) as P.
  cbn [length] in Hl.
  assert (Hp : radix ^ 7 <= radix ^ N.of_nat (length ds)) by (apply N.pow_le_mono_r; lia).
  assert (H7 : 10000000 <= radix ^ 7) by (destruct Hr as [-> | ->]; vm_compute; discriminate).
  nia.
Qed.

Lemma drop_zeros_head ds : match drop_while (fun c => c =? 48) ds with d :: _ => (d =? 48) = false | [] => True end.
Proof. apply (drop_while_head (fun c => c =? 48)). Qed.

Lemma forallb_drop_while {f g} (ds : str) : forallb f ds = true -> forallb f (drop_while g ds) = true.
Proof.
  induction ds as [|d ds IH]; [reflexivity|]. cbn [forallb drop_while]. intro H.
  apply andb_true_iff in H as [H1 H2]. destruct (g d); [apply IH; exact H2|]. cbn [forallb]. rewrite H1, H2. reflexivity.
Qed.

(* the value the model feeds into num_char decodes like the exact value of the digit string *)
Lemma truncated_value_ok radix ds :
  (radix = 10 \/ radix = 16) -> forallb (valid_digit radix) ds = true ->
  let numStr := drop_while (fun c => c =? 48) ds in
  let n := if Nat.ltb 7 (length numStr) then 1114112 else value radix numStr in
  fst (num_char n) = spec_num (value radix ds).
Proof.
  intros Hr Hv numStr n. subst n. rewrite numeric_ref_spec.
  destruct (Nat.ltb 7 (length numStr)) eqn:E.
  - apply Nat.ltb_lt in E.
    pose proof (long_number_out_of_range radix numStr Hr (forallb_drop_while ds Hv) (drop_zeros_head ds) E) as L.
    unfold numStr in L. rewrite value_strip_zeros in L. unfold spec_num.
    assert (E0 : (value radix ds =? 0) = false) by lia. rewrite E0.
    assert (E1 : (1114111 <? value radix ds) = true) by lia. rewrite E1. reflexivity.
  - unfold numStr. rewrite value_strip_zeros. reflexivity.
Qed.

(* ---------- named references: longest match, for an ARBITRARY table ---------- *)
Section NamedProofs.
Variable tbl : list (str * str).
Notation has_prefix := (has_prefix tbl).
Notation is_key := (is_key tbl).
Notation lp_len := (lp_len tbl).
Notation scan := (scan tbl).

Lemma starts_with_firstn k s : starts_with k s = true -> k = firstn (length k) s.
Proof.
  intro H. apply starts_with_app in H as [r ->]. rewrite firstn_app, Nat.sub_diag, firstn_all. cbn.
  rewrite app_nil_r. reflexivity.
Qed.

Lemma firstn_starts j s : starts_with (firstn j s) s = true.
Proof. apply starts_with_app. exists (skipn j s). symmetry. apply firstn_skipn. Qed.

Lemma key_has_prefix k p : is_key k = true -> starts_with p k = true -> has_prefix p = true.
Proof.
  unfold CharRef.is_key, CharRef.has_prefix. intros Hk Hp. apply existsb_exists in Hk as [e [He E]].
  apply str_eqb_eq in E. subst k. apply existsb_exists. exists e. split; assumption.
Qed.

Lemma lp_len_some j : forall s k, lp_len j s = Some k ->
  exists i, (i <= j)%nat /\ k = firstn i s /\ is_key k = true /\
            forall i', (i < i' <= j)%nat -> is_key (firstn i' s) = false.
Proof.
  induction j as [|j IH]; intros s k; cbn [CharRef.lp_len]; destruct (is_key (firstn _ s)) eqn:E; intro H;
    try discriminate.
  - inversion H; subst. exists 0%nat. repeat split; auto. intros; lia.
  - inversion H; subst. exists (S j). repeat split; auto. intros; lia.
  - destruct (IH s k H) as [i [Hi [Hk [Hkey Hmax]]]]. exists i. repeat split; auto.
    intros i' Hi'. destruct (Nat.eq_dec i' (S j)) as [->|Hne]; [exact E | apply Hmax; lia].
Qed.

Lemma lp_len_none j : forall s, lp_len j s = None -> forall i, (i <= j)%nat -> is_key (firstn i s) = false.
Proof.
  induction j as [|j IH]; intros s; cbn [CharRef.lp_len]; destruct (is_key (firstn _ s)) eqn:E; intro H;
    try discriminate; intros i Hi.
  - assert (i = 0)%nat as -> by lia. exact E.
  - destruct (Nat.eq_dec i (S j)) as [->|Hne]; [exact E | apply (IH s H); lia].
Qed.

Lemma lp_len_skip s : forall J j, (j <= J)%nat ->
  (forall i, (j < i <= J)%nat -> is_key (firstn i s) = false) -> lp_len J s = lp_len j s.
Proof.
  induction J as [|J IH]; intros j Hj Hno.
  - assert (j = 0)%nat as -> by lia. reflexivity.
  - destruct (Nat.eq_dec j (S J)) as [->|Hne]; [reflexivity|].
    cbn [CharRef.lp_len]. rewrite (Hno (S J)) by lia. apply IH; [lia|]. intros i Hi. apply Hno. lia.
Qed.

Lemma lp_len_ext j : forall s s', (forall i, (i <= j)%nat -> firstn i s = firstn i s') -> lp_len j s = lp_len j s'.
Proof.
  induction j as [|j IH]; intros s s' H; cbn [CharRef.lp_len]; rewrite (H _ (le_n _)).
  - reflexivity.
  - destruct (is_key (firstn (S j) s')); [reflexivity|]. apply IH. intros i Hi. apply H. lia.
Qed.

Lemma scan_spec inp : forall pre pre' rest, scan pre inp = (pre', rest) ->
  exists m, pre' = pre ++ m /\ inp = m ++ rest /\
            (pre' = pre \/ has_prefix pre' = true) /\
            match rest with [] => True | c :: _ => has_prefix (pre' ++ [c]) = false end.
Proof.
  induction inp as [|c r IH]; intros pre pre' rest; cbn [CharRef.scan].
  - intro H. inversion H; subst. exists []. rewrite app_nil_r. repeat split; auto.
  - destruct (has_prefix (pre ++ [c])) eqn:E; intro H.
    + destruct (IH _ _ _ H) as [m [H1 [H2 [H3 H4]]]]. exists (c :: m).
      assert (Hp : pre' = pre ++ c :: m) by (rewrite H1, <- app_assoc; reflexivity).
      split; [exact Hp|]. split; [cbn [app]; rewrite H2; reflexivity|]. split; [|exact H4].
      right. destruct H3 as [H3|H3]; [rewrite H3; exact E | exact H3].
    + inversion H; subst. exists []. rewrite app_nil_r. repeat split; auto.
Qed.

(* a key that is a prefix of the input lies within the consumed part *)
Lemma key_within_scan inp pre rest k :
  scan [] inp = (pre, rest) -> is_key k = true -> starts_with k inp = true -> (length k <= length pre)%nat.
Proof.
  intros Hs Hk Hp. destruct (scan_spec inp [] pre rest Hs) as [m [H1 [H2 [_ H4]]]]. cbn [app] in H1. subst m.
  destruct (le_lt_dec (length k) (length pre)) as [Hle|Hgt]; [exact Hle | exfalso].
  apply starts_with_app in Hp as [t Ht].
  destruct rest as [|c rest'].
  - rewrite app_nil_r in H2. rewrite H2 in Ht. apply (f_equal (@length N)) in Ht. rewrite app_length in Ht. lia.
  - assert (P : starts_with (pre ++ [c]) k = true).
    { apply starts_with_app.
      assert (E : firstn (length pre + 1) inp = pre ++ [c]).
      { rewrite H2. rewrite firstn_app. replace (length pre + 1 - length pre)%nat with 1%nat by lia.
        rewrite firstn_all2 by lia. reflexivity. }
      exists (skipn (length pre + 1) k). rewrite <- E. rewrite Ht.
      rewrite firstn_app. replace (length pre + 1 - length k)%nat with 0%nat by lia. cbn [firstn].
      rewrite app_nil_r. symmetry. apply firstn_skipn. }
    rewrite (key_has_prefix k _ Hk P) in H4. discriminate.
Qed.

Lemma longest_agree inp pre rest :
  scan [] inp = (pre, rest) -> longest_prefix tbl pre = spec_longest tbl inp.
Proof.
  intro Hs. unfold longest_prefix, spec_longest.
  destruct (scan_spec inp [] pre rest Hs) as [m [H1 [H2 _]]]. cbn [app] in H1. subst m.
  assert (Hlen : (length pre <= length inp)%nat) by (rewrite H2, app_length; lia).
  rewrite (lp_len_skip inp (length inp) (length pre) Hlen).
  - apply lp_len_ext. intros i Hi. rewrite H2, firstn_app. replace (i - length pre)%nat with 0%nat by lia.
    cbn [firstn]. rewrite app_nil_r. reflexivity.
  - intros i Hi. destruct (is_key (firstn i inp)) eqn:E; [exfalso | reflexivity].
    pose proof (key_within_scan inp pre rest _ Hs E (firstn_starts i inp)) as L.
    rewrite firstn_length in L. lia.
Qed.

(* the loop + backtrack returns THE longest identifier that is a prefix of the input *)
Theorem longest_match inp pre rest :
  scan [] inp = (pre, rest) ->
  match longest_prefix tbl pre with
  | Some name => is_key name = true /\ starts_with name inp = true /\
                 forall k, is_key k = true -> starts_with k inp = true -> (length k <= length name)%nat
  | None => forall k, is_key k = true -> starts_with k inp = false
  end.
Proof.
  intro Hs. rewrite (longest_agree inp pre rest Hs). unfold spec_longest.
  destruct (lp_len (length inp) inp) as [name|] eqn:E.
  - destruct (lp_len_some _ _ _ E) as [i [Hi [Hn [Hk Hmax]]]]. split; [exact Hk|]. split.
    + rewrite Hn. apply firstn_starts.
    + intros k Hkk Hp. pose proof (starts_with_firstn k inp Hp) as Ek.
      destruct (le_lt_dec (length k) (length name)) as [L|L]; [exact L | exfalso].
      assert (Hl : (length k <= length inp)%nat).
      { apply starts_with_app in Hp as [t ->]. rewrite app_length. lia. }
      rewrite Hn, firstn_length in L.
      assert (Hf : is_key (firstn (length k) inp) = false) by (apply Hmax; lia).
      rewrite <- Ek in Hf. congruence.
  - intros k Hk. destruct (starts_with k inp) eqn:Hp; [exfalso | reflexivity].
    pose proof (starts_with_firstn k inp Hp) as Ek.
    assert (Hl : (length k <= length inp)%nat).
    { apply starts_with_app in Hp as [t ->]. rewrite app_length. lia. }
    rewrite Ek, (lp_len_none _ _ E (length k) Hl) in Hk. discriminate.
Qed.
End NamedProofs.

(* ---------- consume_named agrees with the standard's rule, for an arbitrary table ---------- *)
Section NamedVsSpec.
Variable tbl : list (str * str).

Lemma nth_error_pre_rest (pre rest : str) len : (len <= length pre)%nat ->
  nth_error (pre ++ firstn 1 rest) len = nth_error (pre ++ rest) len.
Proof.
  intro H. destruct (Nat.eq_dec len (length pre)) as [->|Hne].
  - rewrite !nth_error_app2 by lia. rewrite Nat.sub_diag. destruct rest; reflexivity.
  - rewrite !nth_error_app1 by lia. reflexivity.
Qed.

(* every character of the consumed part occurs in a key *)
Definition key_chars_ok (P : N -> bool) : bool := forallb (fun e => forallb P (fst e)) tbl.

Lemma has_prefix_chars P p : key_chars_ok P = true -> has_prefix tbl p = true -> forallb P p = true.
Proof.
  unfold key_chars_ok, has_prefix. intros HK Hp. apply existsb_exists in Hp as [e [He Hs]].
  rewrite forallb_forall in HK. specialize (HK e He). cbn beta in HK. apply starts_with_app in Hs as [r Hr].
  assert (HK2 : forallb P (p ++ r) = true) by (rewrite <- Hr; exact HK).
  rewrite forallb_app in HK2. apply andb_true_iff in HK2 as [HK2 _]. exact HK2.
Qed.

Lemma forallb_skipn {T} (f : T -> bool) n l : forallb f l = true -> forallb f (skipn n l) = true.
Proof.
  intro H. rewrite <- (firstn_skipn n l), forallb_app in H. apply andb_true_iff in H as [_ H]. exact H.
Qed.

Theorem consume_named_vs_spec P inAttr inp :
  key_chars_ok P = true ->
  let m := consume_named tbl inAttr inp in
  let s := spec_named tbl inAttr inp in
  exists extra,
    fst (fst m) = fst (fst s) ++ extra /\        (* the standard's text, then name characters already consumed *)
    snd (fst m) = snd (fst s) /\                 (* the same parse errors *)
    snd s = extra ++ snd m /\                    (* which the standard would read next, one by one *)
    forallb P extra = true.
Proof.
  intros HK m s. subst m s. unfold consume_named, spec_named.
  destruct (scan tbl [] inp) as [pre rest] eqn:Hs.
  rewrite <- (longest_agree tbl inp pre rest Hs).
  destruct (scan_spec tbl inp [] pre rest Hs) as [m0 [H1 [H2 [H3 _]]]]. cbn [app] in H1. subst m0.
  assert (Hpre : forallb P pre = true).
  { destruct H3 as [->|H3]; [reflexivity | exact (has_prefix_chars P pre HK H3)]. }
  destruct (longest_prefix tbl pre) as [name|] eqn:El.
  - unfold longest_prefix in El. destruct (lp_len_some tbl _ _ _ El) as [i [Hi [Hn _]]].
    assert (Hlen : length name = i) by (rewrite Hn, firstn_length; lia).
    assert (Hname : name = firstn (length name) pre) by (rewrite Hlen; exact Hn).
    rewrite (nth_error_pre_rest pre rest (length name)) by lia. rewrite <- H2.
    set (exc := negb (last name 0 =? 59) && inAttr &&
                match nth_error inp (length name) with Some c => is_alnum c || (c =? 61) | None => false end).
    exists (skipn (length name) pre).
    assert (Hsk : skipn (length name) inp = skipn (length name) pre ++ rest).
    { rewrite H2, skipn_app. replace (length name - length pre)%nat with 0%nat by lia. reflexivity. }
    destruct exc; cbn [fst snd].
    + split; [|split; [reflexivity | split; [exact Hsk | apply forallb_skipn; exact Hpre]]].
      rewrite <- app_assoc. f_equal.
      transitivity (firstn (length name) pre ++ skipn (length name) pre);
        [symmetry; apply firstn_skipn | rewrite <- Hname; reflexivity].
    + split; [reflexivity | split; [reflexivity | split; [exact Hsk | apply forallb_skipn; exact Hpre]]].
  - exists pre. cbn [fst snd]. repeat split; auto.
Qed.
End NamedVsSpec.

(* ---------- facts about the real table ---------- *)
Definition name_char (c : N) : bool := is_alnum c || (c =? 59).
Lemma entity_key_chars : key_chars_ok entities name_char = true.
Proof. vm_compute. reflexivity. Qed.

(* ';' occurs only as the last character of a name, no name is empty, names start with a letter *)
Definition semi_last (k : str) : bool :=
  match rev k with [] => false | _ :: r => forallb (fun c => negb (c =? 59)) r end
  && match k with c :: _ => is_alpha c | [] => false end.
Lemma entity_semi_last : forallb (fun e => semi_last (fst e)) entities = true.
Proof. vm_compute. reflexivity. Qed.

(* ---------- the serializer's reverse map decodes back: &name; for every entry of _encode_entity_map ---------- *)
Definition with_semi (k : str) : str := if N.eqb (last k 0) 59 then k else k ++ [59].
Definition encode_entry_ok (e : N * str) : bool :=
  let name := with_semi (snd e) in
  is_key entities name && str_eqb (get entities name) [fst e] && (N.eqb (last name 0) 59).
Lemma encode_map_ok : forallb encode_entry_ok encode_entity_map = true.
Proof. vm_compute. reflexivity. Qed.

(* ---------- "&name;" decodes to its character whatever follows ---------- *)
Section Terminal.
Variable tbl : list (str * str).
Hypothesis Hsemi : forallb (fun e => semi_last (fst e)) tbl = true.

Lemma scan_through K2 : forall pre0 rest,
  (forall j, (0 < j <= length K2)%nat -> has_prefix tbl (pre0 ++ firstn j K2) = true) ->
  scan tbl pre0 (K2 ++ rest) = scan tbl (pre0 ++ K2) rest.
Proof.
  induction K2 as [|c K2 IH]; intros pre0 rest H.
  - rewrite app_nil_r. reflexivity.
  - cbn [app CharRef.scan]. pose proof (H 1%nat ltac:(cbn; lia)) as H1. cbn [firstn] in H1. rewrite H1.
    rewrite IH.
    + rewrite <- app_assoc. reflexivity.
    + intros j Hj. rewrite <- app_assoc. cbn [app]. apply (H (S j)). cbn [length]. lia.
Qed.

Lemma semi_not_inside k a b : semi_last k = true -> k = a ++ 59 :: b -> b = [].
Proof.
  unfold semi_last. intros H E. apply andb_true_iff in H as [H _]. subst k.
  destruct b as [|x b]; [reflexivity|exfalso].
  rewrite rev_app_distr in H. change (rev (59 :: x :: b)) with (rev (x :: b) ++ [59]) in H.
  destruct (rev (x :: b)) as [|y t] eqn:Eb.
  - apply (f_equal (@length N)) in Eb. rewrite rev_length in Eb. discriminate.
  - rewrite <- app_assoc in H. cbn [app] in H. rewrite forallb_app in H.
    apply andb_true_iff in H as [_ H]. cbn in H. discriminate.
Qed.

Lemma no_extension K x t : last K 0 = 59 -> K <> [] -> has_prefix tbl (K ++ x :: t) = false.
Proof.
  intros Hl Hne. destruct (has_prefix tbl (K ++ x :: t)) eqn:E; [exfalso | reflexivity].
  unfold has_prefix in E. apply existsb_exists in E as [e [He Hs]].
  rewrite forallb_forall in Hsemi. specialize (Hsemi e He). cbn beta in Hsemi.
  apply starts_with_app in Hs as [r Hr].
  assert (HK : K = removelast K ++ [59]) by (rewrite <- Hl; apply app_removelast_last; exact Hne).
  assert (E : fst e = removelast K ++ 59 :: (x :: t ++ r)).
  { transitivity ((K ++ x :: t) ++ r); [exact Hr|]. rewrite HK at 1. rewrite <- !app_assoc. reflexivity. }
  pose proof (semi_not_inside _ _ _ Hsemi E). discriminate.
Qed.

Lemma consume_named_terminal K rest inAttr :
  is_key tbl K = true -> last K 0 = 59 -> K <> [] ->
  consume_named tbl inAttr (K ++ rest) = (get tbl K, [], rest).
Proof.
  intros Hk Hl Hne. unfold consume_named.
  assert (Hsc : scan tbl [] (K ++ rest) = (K, rest)).
  { rewrite scan_through.
    - cbn [app]. destruct rest as [|x t]; [reflexivity|]. cbn [CharRef.scan].
      rewrite (no_extension K x []) by assumption. reflexivity.
    - intros j Hj. cbn [app]. apply (key_has_prefix tbl K _ Hk). apply firstn_starts. }
  rewrite Hsc.
  assert (Hlp : longest_prefix tbl K = Some K).
  { unfold longest_prefix.
    assert (G : forall j s, is_key tbl (firstn j s) = true -> lp_len tbl j s = Some (firstn j s))
      by (intros j s Hj; destruct j; cbn [CharRef.lp_len]; rewrite Hj; reflexivity).
    rewrite G; rewrite firstn_all; [reflexivity | exact Hk]. }
  rewrite Hlp. rewrite Hl. cbn [N.eqb negb andb]. replace (59 =? 59) with true by reflexivity. cbn [negb andb].
  rewrite skipn_all. rewrite app_nil_r. reflexivity.
Qed.
End Terminal.

Theorem encode_decode_named e rest :
  In e encode_entity_map ->
  consume_entity None false (with_semi (snd e) ++ rest) = ([fst e], [], rest).
Proof.
  intro He. pose proof encode_map_ok as H. rewrite forallb_forall in H. specialize (H e He).
  unfold encode_entry_ok in H. apply andb_true_iff in H as [H H3]. apply andb_true_iff in H as [H1 H2].
  apply str_eqb_eq in H2. apply N.eqb_eq in H3. set (K := with_semi (snd e)) in *.
  assert (Hsl : semi_last K = true).
  { pose proof entity_semi_last as S. rewrite forallb_forall in S. unfold CharRef.is_key in H1.
    apply existsb_exists in H1 as [e' [He' E']]. apply str_eqb_eq in E'. rewrite E'. exact (S e' He'). }
  assert (Hne : K <> []) by (intro E0; rewrite E0 in Hsl; discriminate).
  destruct K as [|c0 K'] eqn:EK; [contradiction|].
  unfold semi_last in Hsl. apply andb_true_iff in Hsl as [_ Hal].
  unfold consume_entity. cbn [app].
  assert (Hc : is_space c0 || (c0 =? 60) || (c0 =? 38) || false = false).
  { unfold is_alpha, is_upper, is_lower, is_space in *. lia. }
  rewrite Hc. assert (Hh : (c0 =? 35) = false) by (unfold is_alpha, is_upper, is_lower in Hal; lia). rewrite Hh.
  change (c0 :: K' ++ rest) with ((c0 :: K') ++ rest). rewrite <- EK in *.
  rewrite (consume_named_terminal entities entity_semi_last K rest false H1 H3 Hne). rewrite H2. reflexivity.
Qed.

Lemma named_vs_spec_entities inAttr inp :
  let m := consume_named entities inAttr inp in
  let s := spec_named entities inAttr inp in
  exists extra,
    fst (fst m) = fst (fst s) ++ extra /\ snd (fst m) = snd (fst s) /\ snd s = extra ++ snd m /\
    forallb name_char extra = true.
Proof. exact (consume_named_vs_spec entities name_char inAttr inp entity_key_chars). Qed.
