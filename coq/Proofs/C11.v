From Coq Require Import NArith List Bool Lia Arith.
From Verif Require Import Sx Str Tok Tree.
From Verif.Gen Require Import Consts Sax.
From Verif.Model Require Import C11.
From Verif.Proofs Require C19.
Import ListNotations.
Local Open Scope N_scope.

Notation walkH := (walk voidElements html_ns).

(* ================= the text split ================= *)
Definition optS (s : str) : list token := match s with [] => [] | _ => [TSpace s] end.
Definition optC (s : str) : list token := match s with [] => [] | _ => [TChars s] end.
Definition tok_text (t : token) : str := match t with TChars s | TSpace s => s | _ => [] end.

Lemma drop_while_rev_last f (s : str) :
  match rev (drop_while f (rev s)) with [] => True | _ => f (last (rev (drop_while f (rev s))) 0) = false end.
Proof.
  pose proof (drop_while_head f (rev s)) as H. destruct (drop_while f (rev s)) as [|x t] eqn:E; [exact I|].
  cbn [rev]. destruct (rev t ++ [x]) eqn:E2; [exact I|]. rewrite <- E2. rewrite last_last. exact H.
Qed.

Theorem text_tokens_spec s :
  exists l m r,
    text_tokens s = optS l ++ optC m ++ optS r /\ l ++ m ++ r = s /\
    forallb is_space l = true /\ forallb is_space r = true /\
    match m with [] => True | c :: _ => is_space c = false /\ is_space (last m 0) = false end.
Proof.
  exists (take_while is_space s), (rev (drop_while is_space (rev (drop_while is_space s)))),
         (rev (take_while is_space (rev (drop_while is_space s)))).
  split; [reflexivity|]. split; [apply C19.text_split|]. split; [apply take_while_all|]. split.
  - rewrite forallb_forall. intros x Hx. apply in_rev in Hx.
    pose proof (take_while_all is_space (rev (drop_while is_space s))) as A. rewrite forallb_forall in A. auto.
  - set (d := drop_while is_space s). destruct (rev (drop_while is_space (rev d))) as [|c t] eqn:E; [exact I|].
    split.
    + (* the first character of the middle is the first character of d, which is not whitespace *)
      pose proof (drop_while_head is_space s) as Hd. fold d in Hd.
      assert (Hp : exists u, d = (c :: t) ++ u).
      { exists (rev (take_while is_space (rev d))). rewrite <- E, <- rev_app_distr, take_drop_while.
        symmetry. apply rev_involutive. }
      destruct Hp as [u Hu]. rewrite Hu in Hd. exact Hd.
    + pose proof (drop_while_rev_last is_space d) as L. rewrite E in L. exact L.
Qed.

Corollary text_tokens_concat s : concat (map tok_text (text_tokens s)) = s.
Proof.
  destruct (text_tokens_spec s) as [l [m [r [E [H _]]]]]. rewrite E, <- H.
  destruct l, m, r; cbn; rewrite ?app_nil_r; reflexivity.
Qed.

Corollary text_tokens_at_most_three s : (length (text_tokens s) <= 3)%nat.
Proof.
  destruct (text_tokens_spec s) as [l [m [r [E _]]]]. rewrite E. destruct l, m, r; cbn; lia.
Qed.

(* ================= the non-recursive traversal over the zipper ================= *)
Definition kont (f : nat) (z : loc) : option (list token) :=
  if is_root z then Some []
  else match z_next z with
       | Some s => nrw f (SOpen s)
       | None => match z_parent z with
                 | Some (inl p) => nrw f (SClose p)
                 | Some (inr _) => nrw f SCloseDoc
                 | None => Some []
                 end
       end.

Lemma nrw_close f z : nrw (S f) (SClose z) = option_map (app (close_tokens (fst z))) (kont f z).
Proof. reflexivity. Qed.

Lemma nrw_open f z :
  nrw (S f) (SOpen z) =
  option_map (app (fst (open_tokens (fst z))))
    (match (if snd (open_tokens (fst z)) then z_first z else None) with
     | Some c => nrw f (SOpen c)
     | None => nrw f (SClose z)
     end).
Proof. cbn [nrw]. destruct (open_tokens (fst z)); reflexivity. Qed.

Lemma omap_app {T} (a b : list T) x : option_map (app a) (option_map (app b) x) = option_map (app (a ++ b)) x.
Proof. destruct x; cbn; [rewrite app_assoc|]; reflexivity. Qed.

(* P t: from "about to open t" the traversal emits walk t and continues with what follows t *)
Definition P (t : node) : Prop :=
  forall path, exists n, (n <= 2 * size t)%nat /\
    forall k, nrw (n + k) (SOpen (t, path)) = option_map (app (walkH t)) (kont k (t, path)).

Lemma open_nochild t path toks :
  open_tokens t = (toks, false) -> (1 <= size t)%nat ->
  exists n, (n <= 2 * size t)%nat /\
    forall k, nrw (n + k) (SOpen (t, path)) = option_map (app (toks ++ close_tokens t)) (kont k (t, path)).
Proof.
  intros Ho Hs. exists 2%nat. split; [lia|]. intro k.
  change (2 + k)%nat with (S (S k)). rewrite nrw_open. cbn [fst]. rewrite Ho. cbn [fst snd].
  rewrite nrw_close. cbn [fst]. rewrite omap_app. reflexivity.
Qed.

Lemma nrw_closedoc f : nrw (S f) SCloseDoc = Some [].
Proof. reflexivity. Qed.

Opaque nrw.

(* the children of a parent (element or document), from any position: the traversal emits the walk of the
   remaining children and then does whatever follows the last child *)
Lemma children_walk info path kids (after : nat -> option (list token)) :
  (forall k l c', rev l ++ [c'] = kids ->
     kont k (c', {| f_info := info; f_left := l; f_right := [] |} :: path) = after k) ->
  forall right left c,
  rev left ++ c :: right = kids ->
  Forall P (c :: right) ->
  exists n, (n <= 2 * fsize (c :: right))%nat /\
    forall k, nrw (n + k) (SOpen (c, {| f_info := info; f_left := left; f_right := right |} :: path)) =
              option_map (app (flat_map walkH (c :: right))) (after k).
Proof.
  intro Hafter. induction right as [|r rs IH]; intros left c Hkids HF.
  - inversion HF as [|? ? Hc _]; subst.
    destruct (Hc ({| f_info := info; f_left := left; f_right := [] |} :: path)) as [n [Hn Hk]].
    exists n. split; [cbn [fsize fold_right]; lia|]. intro k. rewrite Hk, (Hafter k left c eq_refl).
    cbn [flat_map]. rewrite app_nil_r. reflexivity.
  - inversion HF as [|? ? Hc Hrest]; subst.
    destruct (Hc ({| f_info := info; f_left := left; f_right := r :: rs |} :: path)) as [n1 [Hn1 Hk1]].
    assert (Hk' : rev (c :: left) ++ r :: rs = rev left ++ c :: r :: rs)
      by (cbn [rev]; rewrite <- app_assoc; reflexivity).
    destruct (IH (c :: left) r Hk' Hrest) as [n2 [Hn2 Hk2]].
    exists (n1 + n2)%nat. split; [cbn [fsize fold_right] in *; lia|]. intro k.
    rewrite <- Nat.add_assoc, Hk1.
    assert (Ek : kont (n2 + k) (c, {| f_info := info; f_left := left; f_right := r :: rs |} :: path) =
                 nrw (n2 + k) (SOpen (r, {| f_info := info; f_left := c :: left; f_right := rs |} :: path)))
      by reflexivity.
    rewrite Ek, Hk2, omap_app. reflexivity.
Qed.

Lemma P_all t : P t.
Proof.
  induction t as [ns name a kids IH | s | s | dn dp ds] using node_ind'; intro path.
  - destruct (is_voidH ns name) eqn:V.
    + (* void element: EmptyTag (+ SerializeError), no descent, no end tag *)
      destruct (open_nochild (Elem ns name a kids) path
                  (TEmpty ns name a :: match kids with [] => [] | _ => [TSerErr void_msg] end)) as [n [Hn Hk]].
      * cbn [open_tokens]. rewrite V. reflexivity.
      * cbn [size]. lia.
      * exists n. split; [exact Hn|]. intro k. rewrite Hk. cbn [walk close_tokens]. rewrite V, app_nil_r.
        reflexivity.
    + destruct kids as [|c right].
      * destruct (open_nochild (Elem ns name a []) path [TStart ns name a]) as [n [Hn Hk]].
        -- cbn [open_tokens]. rewrite V. reflexivity.
        -- cbn [size]. lia.
        -- exists n. split; [exact Hn|]. intro k. rewrite Hk. cbn [walk close_tokens flat_map]. rewrite V.
           reflexivity.
      * set (z := (Elem ns name a (c :: right), path)).
        destruct (children_walk (Some (ns, name, a)) path (c :: right) (fun k => nrw k (SClose z))) with
          (right := right) (left := @nil node) (c := c) as [n' [Hn' Hk']].
        -- intros k l c' Hl. unfold kont. cbn [is_root snd z_next f_right z_parent f_info fst rebuild_parent f_left].
           unfold rebuild_parent. cbn [f_left f_right]. rewrite Hl. reflexivity.
        -- reflexivity.
        -- exact IH.
        -- exists (S (n' + 1)). split; [cbn [size]; fold (fsize (c :: right)); lia|]. intro k.
           replace (S (n' + 1) + k)%nat with (S (n' + S k)) by lia.
           unfold z at 1. rewrite nrw_open. cbn [fst open_tokens]. rewrite V. cbn [fst snd z_first].
           rewrite Hk', nrw_close, !omap_app. cbn [fst close_tokens walk]. rewrite V.
           unfold z. cbn [fst close_tokens]. rewrite V. rewrite <- app_assoc. reflexivity.
  - destruct (open_nochild (Text s) path (text_tokens s)) as [n [Hn Hk]]; [reflexivity | cbn; lia |].
    exists n. split; [exact Hn|]. intro k. rewrite Hk. cbn [close_tokens walk]. rewrite app_nil_r. reflexivity.
  - destruct (open_nochild (Comm s) path [TComment s]) as [n [Hn Hk]]; [reflexivity | cbn; lia |].
    exists n. split; [exact Hn|]. intro k. rewrite Hk. reflexivity.
  - destruct (open_nochild (Doct dn dp ds) path [TDoctype dn dp ds]) as [n [Hn Hk]]; [reflexivity | cbn; lia |].
    exists n. split; [exact Hn|]. intro k. rewrite Hk. reflexivity.
Qed.

(* the traversal from an element, with the fuel the entry point supplies *)
Theorem nrw_node_correct t : walk_node_nrw (2 * size t + 4) t = Some (walkH t).
Proof.
  destruct (P_all t []) as [n [Hn Hk]]. unfold walk_node_nrw.
  replace (2 * size t + 4)%nat with (n + (2 * size t + 4 - n))%nat by lia.
  rewrite Hk. unfold kont. cbn [is_root snd]. cbn [option_map]. rewrite app_nil_r. reflexivity.
Qed.

(* ... and from a document / fragment *)
Theorem nrw_doc_correct kids : walk_doc_nrw (2 * fsize kids + 4) kids = Some (walk_all voidElements html_ns kids).
Proof.
  destruct kids as [|c right]; [reflexivity|]. unfold walk_doc_nrw, walk_all.
  destruct (children_walk None [] (c :: right) (fun k => nrw k SCloseDoc)) with
    (right := right) (left := @nil node) (c := c) as [n [Hn Hk]].
  - intros k l c' Hl. reflexivity.
  - reflexivity.
  - apply Forall_forall. intros x _. apply P_all.
  - replace (2 * fsize (c :: right) + 4)%nat with (n + S (2 * fsize (c :: right) + 3 - n))%nat by lia.
    rewrite Hk, nrw_closedoc. cbn [option_map]. rewrite app_nil_r. reflexivity.
Qed.

(* ================= the Lint filter accepts every walk ================= *)
Fixpoint good (n : node) : bool :=
  match n with
  | Elem ns name a kids =>
      ns_ok ns && nonempty name && attrs_ok a &&
      (if is_voidH ns name then match kids with [] => true | _ => false end else true) &&
      forallb good kids
  | _ => true
  end.

Lemma lint_text s o rest : lint o (text_tokens s ++ rest) = lint o rest.
Proof.
  destruct (text_tokens_spec s) as [l [m [r [E [_ [Hl [Hr Hm]]]]]]]. rewrite E.
  destruct l as [|l0 l'], m as [|m0 m'], r as [|r0 r']; cbn [optS optC app lint nonempty andb];
    rewrite ?Hl, ?Hr; reflexivity.
Qed.

Lemma lint_walk t : good t = true -> forall o rest, lint o (walkH t ++ rest) = lint o rest.
Proof.
  induction t as [ns name a kids IH | s | s | dn dp ds] using node_ind'; intros Hg o rest.
  - cbn [good] in Hg. repeat (apply andb_true_iff in Hg as [Hg ?]).
    cbn [walk]. destruct (is_voidH ns name) eqn:V.
    + destruct kids; [|discriminate]. cbn [app lint]. rewrite Hg, V. 
      repeat match goal with H : _ = true |- _ => rewrite H end. reflexivity.
    + cbn [app lint]. rewrite V. repeat match goal with H : _ = true |- _ => rewrite H end. cbn [negb andb].
      rewrite <- app_assoc.
      assert (K : forall ks, Forall (fun t => good t = true -> forall o rest, lint o (walkH t ++ rest) = lint o rest) ks ->
                  forallb good ks = true -> forall o rest, lint o (flat_map walkH ks ++ rest) = lint o rest).
      { induction ks as [|k ks IHk]; intros HF Hgs o' rest'; [reflexivity|].
        inversion HF as [|? ? Hk0 Hr0]; subst. cbn [forallb] in Hgs. apply andb_true_iff in Hgs as [G1 G2].
        cbn [flat_map]. rewrite <- app_assoc. rewrite (Hk0 G1). apply IHk; assumption. }
      rewrite K by assumption. cbn [app lint]. rewrite V.
      repeat match goal with H : _ = true |- _ => rewrite H end. cbn [negb andb].
      assert (E1 : opt_str_eqb ns ns = true) by (apply opt_str_eqb_eq; reflexivity).
      rewrite E1, str_eqb_refl. reflexivity.
  - cbn [walk]. apply lint_text.
  - reflexivity.
  - reflexivity.
Qed.

Theorem lint_accepts_walk kids : forallb good kids = true -> lint [] (walk_all voidElements html_ns kids) = true.
Proof.
  unfold walk_all. induction kids as [|k ks IH]; intro H; [reflexivity|].
  cbn [forallb] in H. apply andb_true_iff in H as [H1 H2]. cbn [flat_map].
  rewrite (lint_walk k H1). apply IH. exact H2.
Qed.

(* ================= rebuilding the tree from the stream ================= *)
Definition tframe : Type := option str * str * attrs * list node.
Fixpoint trebuild (ts : list token) (stack : list tframe) (cur : list node) : option (list node) :=
  match ts with
  | [] => match stack with [] => Some (rev cur) | _ => None end
  | TStart ns n a :: r => trebuild r ((ns, n, a, cur) :: stack) []
  | TEnd ns n :: r =>
      match stack with
      | (ns', n', a, up) :: st =>
          if opt_str_eqb ns ns' && str_eqb n n' then trebuild r st (Elem ns' n' a (rev cur) :: up) else None
      | [] => None
      end
  | TEmpty ns n a :: r => trebuild r stack (Elem ns n a [] :: cur)
  | (TChars s | TSpace s) :: r => trebuild r stack (C19.push_text s cur)
  | TComment s :: r => trebuild r stack (Comm s :: cur)
  | TDoctype n p s :: r => trebuild r stack (Doct n p s :: cur)
  | _ :: r => None
  end.

(* the tree a stream can reproduce: adjacent text concatenated, empty text dropped *)
Fixpoint tpush (cur : list node) (n : node) : list node :=
  match n with
  | Text s => C19.push_text s cur
  | Elem ns nm a kids => Elem ns nm a (rev (fold_left tpush kids [])) :: cur
  | other => other :: cur
  end.
Definition tnorm (kids : list node) : list node := rev (fold_left tpush kids []).

Lemma trebuild_text s rest stack cur :
  trebuild (text_tokens s ++ rest) stack cur = trebuild rest stack (C19.push_text s cur).
Proof.
  destruct (text_tokens_spec s) as [l [m [r [E [H _]]]]]. rewrite E, <- H.
  destruct l as [|l0 l'], m as [|m0 m'], r as [|r0 r']; cbn [optS optC app trebuild];
    rewrite ?C19.push_text_app, ?app_nil_r; try reflexivity.
Qed.

Definition tsim (n : node) : Prop :=
  wf_node voidElements html_ns n = true ->
  forall rest stack cur, trebuild (walkH n ++ rest) stack cur = trebuild rest stack (tpush cur n).

Lemma tsim_list kids : Forall tsim kids -> forallb (wf_node voidElements html_ns) kids = true ->
  forall rest stack cur, trebuild (flat_map walkH kids ++ rest) stack cur = trebuild rest stack (fold_left tpush kids cur).
Proof.
  induction kids as [|k r IH]; intros HF Hw rest stack cur; [reflexivity|].
  inversion HF as [|? ? Hk0 Hr0]; subst. cbn [forallb] in Hw. apply andb_true_iff in Hw as [W1 W2].
  cbn [flat_map fold_left]. rewrite <- app_assoc, (Hk0 W1). apply IH; assumption.
Qed.

Lemma tsim_all n : tsim n.
Proof.
  induction n as [ns name a kids IH | s | s | dn dp ds] using node_ind'; unfold tsim; intros Hw rest stack cur.
  - cbn [wf_node] in Hw. apply andb_true_iff in Hw as [Hv Hk]. cbn [walk].
    destruct (is_voidH ns name) eqn:V.
    + destruct kids; [|discriminate]. reflexivity.
    + cbn [app trebuild]. rewrite <- app_assoc, (tsim_list kids IH Hk). cbn [app trebuild].
      assert (E : opt_str_eqb ns ns && str_eqb name name = true).
      { apply andb_true_iff; split; [apply opt_str_eqb_eq; reflexivity | apply str_eqb_refl]. }
      rewrite E. reflexivity.
  - cbn [walk tpush]. apply trebuild_text.
  - reflexivity.
  - reflexivity.
Qed.

Theorem rebuild_walk kids : forallb (wf_node voidElements html_ns) kids = true ->
  trebuild (walk_all voidElements html_ns kids) [] [] = Some (tnorm kids).
Proof.
  intro Hw. unfold walk_all, tnorm. rewrite <- (app_nil_r (flat_map walkH kids)).
  rewrite tsim_list; [reflexivity | apply Forall_forall; intros; apply tsim_all | exact Hw].
Qed.

(* void HTML elements appear only as EmptyTag tokens, never as start or end tags (any tree) *)
Definition no_void_tag (t : token) : bool :=
  match t with TStart ns n _ | TEnd ns n => negb (is_voidH ns n) | TEmpty ns n _ => is_voidH ns n | _ => true end.
Lemma walk_void_only_empty t : forallb no_void_tag (walkH t) = true.
Proof.
  induction t as [ns name a kids IH | s | s | dn dp ds] using node_ind'; cbn [walk].
  - destruct (is_voidH ns name) eqn:V.
    + destruct kids; cbn; rewrite V; reflexivity.
    + cbn [forallb no_void_tag]. rewrite V. cbn [negb andb]. rewrite forallb_app. cbn [forallb no_void_tag].
      rewrite V. cbn [negb andb]. rewrite andb_true_r. apply forallb_forall. intros x Hx.
      apply in_flat_map in Hx as [k [Hk Hx]]. rewrite Forall_forall in IH. specialize (IH k Hk).
      rewrite forallb_forall in IH. auto.
  - destruct (text_tokens_spec s) as [l [m [r [E _]]]]. rewrite E. destruct l, m, r; reflexivity.
  - reflexivity.
  - reflexivity.
Qed.
